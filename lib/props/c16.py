"""C16 — VCF output states exactly the genotypes of the tree sequence.

Oracle: the text returned by as_vcf()/write_vcf() is parsed with the small parser below and compared field by
field with what the reference model (lib.props.c03.GenoRef: nearest-mutation walk + missing rule) and the
arguments predict: one data line per unmasked site in site order; POS = transformed position; ID = site id;
REF = ancestral state; ALT = the other states of the site; one '|'-joined GT field per output individual whose
indexes, read through [REF]+ALT, spell the allele of each node, '.' for missing or sample-masked calls;
header sample names, contig id and contig length.  Documented errors must be raised exactly when predicted.

Relations on top of the reference comparison:
  * mask-form metamorphism: the same logical site_mask / sample_mask given as bool array, list, tuple, int64,
    uint8, int list, 0/1 float array (and, for sample_mask, a callable returning any of them) must give
    byte-identical text or the same exception class; crossed with allow_position_zero in {default, True} and
    with a site at transformed position 0 masked / unmasked;
  * masked-site independence: replacing masked sites by sites with > 9 alleles, multi-letter alleles or
    position 0 must not change the output or the error behaviour;
  * as_vcf() == write_vcf() into a StringIO / a real file; `tskit vcf` CLI == reference.

EITHER zones:
  V1  which exception class is raised for a documented error.
  V2  contig length when it would be decided by the transformed position of a *masked* last site.
  V3  individuals whose nodes are all non-samples, requested explicitly with isolated_as_missing=False
      (docs: "an error"; the variants() machinery can decode them): error or correct genotypes.
  V4  tree sequences without any sample node and individuals=None: error or a VCF without sample columns.
  V5  a wrong-length sample_mask when every site is masked (the mask is never looked at).
  V6  sample_mask index j refers to the j-th node in output order (the order of Variant.samples handed to a
      callable mask); the docs say "sample j" without fixing an order when individuals reorder the nodes.
  V7  an `individuals` argument that lists an individual twice (docs: "subsets or permutations"): error, or
      the individual written twice with correct genotypes.

Audit round (lib/props/AUDIT-C16.md, helpers in lib/props/c16_ext.py): the same exports are driven through every
entry (as_vcf, write_vcf into StringIO / file / TextIOWrapper / write-only object / sys.stdout / output=...,
tskit.vcf.VcfWriter written twice, `tskit vcf` with every option spelling), every argument container form, explicit
defaults, masks whose true entries are not 1, non-monotone / negative / 2^40-sized / tuple / int32 / 2-D position
transforms, the legacy function itself, coordinates scaled by 2^24..2^40 and 2^-3, schema-coded metadata, and by
CASE INDEX (never by chance): `big` (66..1026 samples, >= 256 individuals / ploidy), `huge` (16 386..65 538
samples) and `manysites` (130..700 sites) inputs.
"""
import contextlib
import io
import os
import re
import warnings

import numpy as np
import tskit

from lib import gen
from lib.harness import case_rng
from lib.model import NULL, forest, mutation_parents
from lib.props.c03 import GenoRef, attempt, build_msprime, exc_name, model_features
from lib.props import c16_ext as X

ID = "C16"

warnings.simplefilter("ignore")  # numpy's "invalid value in cast" for nan masks etc.; the worker is ours


def case_gen(k):
    """Input family by case index, so that the rare families run in every budget (a loaded machine finishes
    ~6000 cases: 12 huge (2000 cases: 4) - the sample count rotates 32 770, 65 538, 32 770, 16 386 -, 120 big, 40 manysites)."""
    if k % 500 == 11:
        return "huge"
    if k % 40 == 7:
        return "msprime"
    if k % 50 == 13:
        return "big"
    if k % 150 == 31:
        return "manysites"
    return "walk"


def cases(tier, seed):
    n = 60000 if tier == "quick" else 6000000
    for k in range(n):
        yield {"gen": case_gen(k), "k": k}


# ------------------------------------------------------------------------------------ generator

MANY = list("ACGTRYKMSWBDHVXZ")
LAYOUTS = ["none", "none", "unused", "all", "all", "all", "partial", "mixed", "nonsample-only"]


def assign_individuals(rng, m, layout):
    n = m.num_nodes
    if layout == "none":
        return
    nind = rng.randint(1, 5)
    m.individuals = [(0, (), (), b"") for _ in range(nind)]
    ind = [NULL] * n
    samples = m.samples()
    nonsamples = [u for u in range(n) if not m.is_sample(u)]
    if layout == "unused":
        for u in nonsamples:
            if rng.random() < 0.5:
                ind[u] = rng.randrange(nind)
    else:
        # every sample gets an individual (random, non contiguous, mixed ploidy); usually one individual is
        # kept free of samples so that "no nodes" / "non-sample only" individuals exist
        free = rng.randrange(nind) if nind > 1 and rng.random() < 0.6 else None
        usable = [i for i in range(nind) if i != free]
        for u in samples:
            ind[u] = rng.choice(usable)
        if layout == "partial" and samples:
            for u in rng.sample(samples, rng.randint(1, max(1, len(samples) // 2))):
                ind[u] = NULL
        if layout == "mixed" and nonsamples and samples:
            ind[rng.choice(nonsamples)] = ind[rng.choice(samples)] if ind[rng.choice(samples)] != NULL else usable[0]
        if layout == "nonsample-only" and nonsamples and free is not None:
            for u in rng.sample(nonsamples, rng.randint(1, min(2, len(nonsamples)))):
                ind[u] = free
    m.nodes = [(f, t, p, ind[u], md) for u, (f, t, p, _, md) in enumerate(m.nodes)]
    if rng.random() < 0.3:
        # individual rows with content (flags, ragged location / parents): none of it may reach the VCF
        m.individuals = [(rng.choice([0, 1, 1 << 31]), tuple(rng.randint(-4, 4) / 2 for _ in range(rng.choice([0, 1, 3]))),
                          tuple(rng.choice([NULL] + list(range(i))) for _ in range(rng.choice([0, 1, 2]))), b"")
                         for i in range(nind)]
        m.tags.add("individual-rows-with-content")


def site_rows(rng, m, j, pos, pool, k, known_times):
    """Mutation rows for one site in a valid order (as lib.gen.decorate_sites does)."""
    fr = forest(m, pos)
    lst = []
    for d in pool[:k]:
        u = rng.randrange(m.num_nodes)
        p = fr.par(u)
        if known_times:
            lo = m.time(u)
            hi = m.time(p) if p != NULL else lo + 2.0
            t = lo + rng.randint(0, 7) * (hi - lo) / 8
        else:
            t = None
        lst.append([u, d, t])
    if known_times:
        lst.sort(key=lambda z: (-z[2], -m.time(z[0])))
    else:
        lst.sort(key=lambda z: -m.time(z[0]))
    return [(j, u, d, NULL, t, b"") for u, d, t in lst]


def nastify(rng, m, masked, kinds):
    """Copy of m in which every masked site is replaced by a site that would break write_vcf if looked at."""
    m2 = m.copy()
    by_site = {j: [r for r in m.mutations if r[0] == j] for j in range(len(m.sites))}
    sites = list(m.sites)
    used = []
    for j in masked:
        kind = rng.choice(kinds)
        pos, anc, md = sites[j]
        if kind == "position-zero":
            if j != 0 or pos == 0.0:
                kind = "many-alleles"
            else:
                sites[j] = (0.0, anc, md)
                old = [r[2] for r in by_site[j]]
                by_site[j] = site_rows(rng, m, j, 0.0, old, len(old), False)
        if kind == "many-alleles":
            pool = list(MANY)
            rng.shuffle(pool)
            sites[j] = (sites[j][0], "q", md)
            by_site[j] = site_rows(rng, m, j, pos, pool, rng.randint(10, 13), False)
        elif kind == "multi-letter":
            sites[j] = (sites[j][0], rng.choice(["ACGT", "", "é"]), md)
            by_site[j] = site_rows(rng, m, j, pos, ["TT", "", "Aé", "GGG"], rng.randint(1, 4), False)
        elif kind == "unprintable":
            # alleles that would break the VCF text (docs: "it is possible to use the tab character as an allele,
            # leading to a broken VCF") - harmless while the site is masked
            sites[j] = (sites[j][0], rng.choice(["A\tB", "\n", "A,C"]), md)
            by_site[j] = site_rows(rng, m, j, pos, ["\t", "1\n1", ",", "\r"], rng.randint(1, 4), False)
        used.append(kind)
    m2.sites = sites
    m2.mutations = [r for j in range(len(sites)) for r in by_site[j]]
    par = mutation_parents(m2)
    fill = X.default_md(m2, "mutations")  # the new rows must carry metadata that is valid under the table's schema
    m2.mutations = [(s, u, d, par[k], t, md or fill) for k, (s, u, d, _, t, md) in enumerate(m2.mutations)]
    return m2, used


def build(case):
    rng = case_rng(case)
    kind = case["gen"]
    if kind == "msprime":
        # diploid/haploid individuals as simulators write them, finite-sites mutations
        return rng, build_msprime(rng), "all"
    if kind in ("big", "huge"):
        m, layout = X.big_model(rng, huge=kind == "huge", turn=case["k"] // 500)
        return rng, m, layout
    if kind == "manysites":
        m = X.many_sites_model(rng)
        layout = rng.choice(["none", "none", "all", "partial"])
        assign_individuals(rng, m, layout)
        return rng, m, layout
    discrete = rng.random() < 0.5
    sm = rng.choice(["young", "young", "young", "all", "any", "any", "few", "none"])
    if sm == "none" and rng.random() < 0.6:
        sm = "young"
    m = gen.gen_topology(rng, n=rng.randint(1, 10), max_bp=4, discrete=discrete, sample_mode=sm)
    layout = rng.choice(LAYOUTS)
    assign_individuals(rng, m, layout)
    r = rng.random()
    if r < 0.5:
        pool = gen.SIMPLE_ALLELES
    elif r < 0.65:
        pool = ["0", "1"]
    elif r < 0.8:
        pool = gen.ALLELES
    else:
        pool = MANY
    many = pool is MANY and rng.random() < 0.5
    for _ in range(3):
        gen.decorate_sites(rng, m, max_sites=rng.choice([1, 2, 3, 5, 8]), alleles=pool, discrete=discrete,
                           max_muts=12 if many else rng.choice([4, 8]))
        if m.sites or rng.random() < 0.15:
            break
    if m.sites and rng.random() < 0.15:
        # a site with exactly 8..11 distinct alleles: the "> 9 alleles" boundary
        j = rng.randrange(len(m.sites))
        k = rng.choice([8, 9, 9, 10, 10, 11])
        pool = list(MANY)
        rng.shuffle(pool)
        rows = {i: [r for r in m.mutations if r[0] == i] for i in range(len(m.sites))}
        m.sites[j] = (m.sites[j][0], pool[0], m.sites[j][2])
        rows[j] = site_rows(rng, m, j, m.sites[j][0], pool[1:], k - 1, False)
        m.mutations = [r for i in range(len(m.sites)) for r in rows[i]]
        par = mutation_parents(m)
        m.mutations = [(s_, u, d, par[i], t, md) for i, (s_, u, d, _, t, md) in enumerate(m.mutations)]
    k = case["k"]
    if k % 16 == 3:
        # every coordinate times 2^24 / 2^31 / 2^40 (positions past 2^31, 2^32, 2^40) or 2^-3 (L < 1: header length 1)
        X.scale_model(m, (24, 31, 40, -3)[(k // 16) % 4])
    if k % 8 == 5:
        X.add_schemas(rng, m)
    return rng, m, layout


# ------------------------------------------------------------------------------------ position transforms


def py_round(x):
    return int(round(x))  # round-half-even, like numpy.round


def legacy_ref(xs):
    out = []
    last = 0
    for x in xs:
        p = py_round(x)
        if p <= last:
            p = last + 1
        out.append(p)
        last = p
    return out


# name -> (argument passed to write_vcf, pure-python reference on a list of floats, pointwise?)
TRANSFORMS = {
    "default": (None, lambda xs: [py_round(x) for x in xs], True),
    "legacy": ("legacy", legacy_ref, False),
    "np.round": (np.round, lambda xs: [py_round(x) for x in xs], True),
    "floor": (lambda x: np.floor(np.asarray(x)), lambda xs: [int(x // 1) for x in xs], True),
    "floor+1": (lambda x: np.floor(np.asarray(x)).astype(np.int64) + 1, lambda xs: [int(x // 1) + 1 for x in xs], True),
    "fmax1": (lambda x: np.fmax(1, np.round(x)), lambda xs: [max(1, py_round(x)) for x in xs], True),
    "times2-list": (lambda x: [int(2 * v // 1) for v in x], lambda xs: [int(2 * x // 1) for x in xs], True),
    "const5": (lambda x: np.full(len(x), 5), lambda xs: [5 for _ in xs], True),
    "zero": (lambda x: np.zeros(len(x), dtype=np.int32), lambda xs: [0 for _ in xs], True),
    "too-long": (lambda x: np.append(np.round(x), 7), None, True),
    "too-short": (lambda x: np.round(x)[:-1], None, True),
    # the form recommended by write_vcf's own position-zero error message
    "1+x": (lambda x: 1 + x, lambda xs: [1 + py_round(x) for x in xs], True),
    # --- audit round
    # the function behind "legacy", handed over as a callable
    "legacy-function": (tskit.vcf.legacy_position_transform, legacy_ref, False),
    # not monotone: the header length is max(1, f(L), f(last site)) - the LAST site, not the largest position
    "decreasing": (lambda x: 1000000 - np.round(x), lambda xs: [1000000 - py_round(x) for x in xs], True),
    "negative": (lambda x: -1 - np.round(x), lambda xs: [-1 - py_round(x) for x in xs], True),
    # results past 2^31 / 2^32 / 2^40 as float64 (exact) and as Python ints
    "big-float": (lambda x: np.round(x) * 2.0 ** 40 + 3.0, lambda xs: [py_round(x) * 2 ** 40 + 3 for x in xs], True),
    "big-int-list": (lambda x: [int(v // 1) * 2 ** 31 + 1 for v in x], lambda xs: [int(x // 1) * 2 ** 31 + 1 for x in xs],
                     True),
    "int32-array": (lambda x: np.round(x).astype(np.int32), lambda xs: [py_round(x) for x in xs], True),
    "tuple": (lambda x: tuple(int(v // 1) for v in x), lambda xs: [int(x // 1) for x in xs], True),
    # "must return an integer numpy array the same dimension as x"
    "2d": (lambda x: np.round(x).reshape(-1, 1), None, True),
}
TRANSFORM_WEIGHTS = (["default"] * 8 + ["legacy"] * 3 + ["np.round", "floor", "floor+1", "floor+1", "fmax1",
                     "times2-list", "const5", "zero"] * 2 + ["too-long", "too-short", "2d"]
                     + ["legacy-function", "decreasing", "decreasing", "negative", "big-float", "big-int-list",
                        "int32-array", "tuple"])
# transforms whose result would leave int64 / int32 on models scaled by 2^24 .. 2^40
NOT_FOR_BIG_COORDS = {"big-float", "big-int-list", "int32-array"}

# ------------------------------------------------------------------------------------ mask forms

FORMS = ["bool-array", "list-bool", "tuple-bool", "int64-array", "uint8-array", "list-int", "float-array",
         "int8-array"] + sorted(X.EXTRA_MASK_FORMS)


def mask_form(logical, form):
    if form == "bool-array":
        return np.array(logical, dtype=bool)
    if form == "list-bool":
        return [bool(x) for x in logical]
    if form == "tuple-bool":
        return tuple(bool(x) for x in logical)
    if form == "int64-array":
        return np.array([int(x) for x in logical], dtype=np.int64)
    if form == "uint8-array":
        return np.array([int(x) for x in logical], dtype=np.uint8)
    if form == "int8-array":
        return np.array([int(x) for x in logical], dtype=np.int8)
    if form == "list-int":
        return [int(x) for x in logical]
    if form == "float-array":
        return np.array([float(x) for x in logical])
    if form in X.EXTRA_MASK_FORMS:
        # truth value of every entry kept; true entries are not 1 (2, -1, 256, 2^32, 0.5, nan ...), false ones may
        # be -0.0; read-only / strided / object arrays, lists of numpy.bool_
        return X.EXTRA_MASK_FORMS[form](logical)
    raise AssertionError(form)


class DynMask:
    """Callable sample mask: one logical row per site; records how it was called."""

    def __init__(self, rows, form):
        self.rows = rows
        self.form = form
        self.calls = []

    def __call__(self, variant):
        j = variant.site.id
        self.calls.append((j, [int(u) for u in variant.samples]))
        return mask_form(self.rows[j], self.form)


# ------------------------------------------------------------------------------------ expectation


def by_individual(R):
    """individual id -> its nodes in increasing id order (cached on the reference object)."""
    d = getattr(R, "_c16_by_ind", None)
    if d is None:
        d = {}
        for u, row in enumerate(R.m.nodes):
            if row[3] != NULL:
                d.setdefault(row[3], []).append(u)
        R._c16_by_ind = d
    return d


def vcf_groups(R, a):
    """Sample-to-individual mapping: (must, may, groups or None, effective isolated_as_missing)."""
    m = R.m
    must, may = set(), set()
    nind = len(m.individuals)
    samples = R.samples
    node_ind = [row[3] for row in m.nodes]
    by_ind = by_individual(R)
    iam = True if a.get("iam") is None else bool(a["iam"])
    ploidy = a.get("ploidy")
    individuals = a.get("individuals")
    groups = None
    if nind > 0 and ploidy is not None:
        must.add("ploidy-with-individuals")
    inds = None
    if individuals is None:
        refd = sorted({node_ind[u] for u in samples})
        if not samples:
            may.add("zero-samples")  # V4
        if refd and refd != [NULL]:
            if NULL in refd:
                must.add("samples-partly-in-individuals")
            else:
                inds = refd
    else:
        if len(individuals) == 0:
            must.add("empty-individuals")
        inds = list(individuals)
        if len(set(inds)) != len(inds):
            may.add("duplicate-individuals")  # V7
    if inds is not None:
        groups = []
        for i in inds:
            if not (-2 ** 31 <= i < 2 ** 31):
                # an id that is no individual of this tree sequence whatever 32-bit value it wraps to
                must.add("individual-id-beyond-int32")
                continue
            if i < 0 or i >= nind:
                must.add("individual-out-of-bounds")
                continue
            nodes = by_ind.get(i, [])
            if not nodes:
                must.add("individual-without-nodes")
                continue
            kinds = {m.is_sample(u) for u in nodes}
            if len(kinds) == 2:
                must.add("individual-mixes-samples-and-non-samples")
            elif kinds == {False}:
                if iam:
                    must.add("non-sample-nodes-with-isolated_as_missing")
                else:
                    may.add("non-sample-individual")  # V3
            groups.append(nodes)
    else:
        p = 1 if ploidy is None else ploidy
        if p < 1:
            must.add("ploidy-below-one")
        elif len(samples) % p != 0:
            must.add("ploidy-not-dividing-sample-size")
        else:
            groups = [samples[i:i + p] for i in range(0, len(samples), p)]
    if must:
        groups = None
    return must, may, groups, iam


def vcf_expect(R, a):
    """a: logical arguments.  Returns (must, may, exp)."""
    m = R.m
    must, may, groups, iam = vcf_groups(R, a)
    apz = bool(a.get("apz"))
    names = a.get("names")
    if groups is not None and names is not None and len(names) != len(groups):
        must.add("individual_names-length")
    tname = a.get("transform", "default")
    _, tref, _ = TRANSFORMS[tname]
    if tref is None:
        must.add("transform-wrong-length")
    ns = len(R.sites)
    smask = a.get("site_mask")
    if smask is not None and len(smask) != ns:
        must.add("site_mask-length")
    if must or groups is None:
        return must, may, None
    logical_site = [False] * ns if smask is None else [bool(x) for x in smask]
    pos = tref([s["pos"] for s in R.sites])
    TL = tref([m.L])[0]
    contig = max(1, TL)
    contigs = {contig}
    if ns:
        contigs = {max(contig, pos[-1])}
        unmasked = [j for j in range(ns) if not logical_site[j]]
        if logical_site[-1]:
            contigs.add(max([contig] + [pos[j] for j in unmasked[-1:]]))  # V2
    out_nodes = [u for g in groups for u in g]
    samp = a.get("sample_mask")  # None | ("static", row) | ("dynamic", rows)
    lines = []
    stats = {}
    for j in range(ns):
        if logical_site[j]:
            continue
        s = R.sites[j]
        if len(s["states"]) > 9:
            must.add("more-than-9-alleles")
        if pos[j] == 0 and not apz:
            must.add("position-zero")
        row = None
        if samp is not None:
            row = samp[1] if samp[0] == "static" else samp[1][j]
            if len(row) != len(out_nodes):
                must.add("sample_mask-length")
                row = None
        al, mi = R.expected(j, out_nodes, iam)
        calls = []
        for k in range(len(out_nodes)):
            calls.append(None if (mi[k] or (row is not None and row[k])) else al[k])
        # which trigger classes this line carries (reported as features when the line was really compared)
        if any(mi):
            stats["line:missing-call"] = stats.get("line:missing-call", 0) + 1
            if row is not None and any(x and not y for x, y in zip(mi, row)):
                stats["line:missing-call-outside-sample-mask"] = stats.get("line:missing-call-outside-sample-mask", 0) + 1
            if all(c is None for c in calls):
                stats["line:all-calls-missing"] = stats.get("line:all-calls-missing", 0) + 1
        if row is not None:
            tag = "line:sample-mask-" + ("all-false" if not any(row) else "all-true" if all(row) else "mixed")
            stats[tag] = stats.get(tag, 0) + 1
        if len(s["states"]) in (8, 9):
            stats[f"line:{len(s['states'])}-alleles"] = stats.get(f"line:{len(s['states'])}-alleles", 0) + 1
        if pos[j] == 0:
            stats["line:pos-0-written"] = stats.get("line:pos-0-written", 0) + 1
        if abs(pos[j]) >= 2 ** 31:
            stats["line:pos-beyond-2^31"] = stats.get("line:pos-beyond-2^31", 0) + 1
        gts = []
        k = 0
        for g in groups:
            gts.append(calls[k:k + len(g)])
            k += len(g)
        lines.append({"site": j, "pos": pos[j], "ref": s["anc"], "alts": s["states"] - {s["anc"]}, "gts": gts})
    if samp is not None and not lines:
        row = samp[1] if samp[0] == "static" else (samp[1][0] if samp[1] else [])
        if samp[0] == "static" and len(row) != len(out_nodes):
            may.add("sample_mask-length-never-used")  # V5
    if must:
        return must, may, None
    exp = {
        "names": list(names) if names is not None else [f"tsk_{i}" for i in range(len(groups))],
        "contig_id": "1" if a.get("contig_id") is None else a["contig_id"],
        "contig_lengths": contigs,
        "lines": lines,
        "out_nodes": out_nodes,
        "stats": stats,
    }
    if not lines:
        stats["output:header-only"] = 1
    if len(set(pos[j] for j in range(ns) if not logical_site[j])) < len(lines):
        stats["output:equal-POS-on-several-lines"] = 1
    if TL < 1:
        stats["output:transformed-L-below-1"] = 1
    return must, may, exp


FIXED_COLS = ["#CHROM", "POS", "ID", "REF", "ALT", "QUAL", "FILTER", "INFO", "FORMAT"]


def vcf_compare(text, exp):
    """List of (key, message) differences between VCF text and the expectation."""
    bad = []
    if not text.endswith("\n"):
        return [("vcf/format", f"output does not end with a newline: {text[-60:]!r}")]
    rows = text[:-1].split("\n")
    meta = [r for r in rows if r.startswith("##")]
    rest = [r for r in rows if not r.startswith("##")]
    if not rows or not rows[0].startswith("##fileformat=VCFv4"):
        bad.append(("vcf/format", f"first line {rows[:1]}"))
    if rows[: len(meta)] != meta or not rest or not rest[0].startswith("#CHROM"):
        return bad + [("vcf/format", f"meta lines / #CHROM header misplaced: {rows[:8]}")]
    contig = [re.fullmatch(r"##contig=<ID=(.*),length=(-?\d+)>", r) for r in meta]
    contig = [c for c in contig if c]
    if len(contig) != 1:
        bad.append(("vcf/contig", f"contig header lines: {[r for r in meta if 'contig' in r]}"))
    else:
        cid, clen = contig[0].group(1), int(contig[0].group(2))
        if cid != exp["contig_id"]:
            bad.append(("vcf/contig-id", f"header contig ID {cid!r} expected {exp['contig_id']!r}"))
        if clen not in exp["contig_lengths"]:
            bad.append(("vcf/contig-length", f"header contig length {clen} expected {sorted(exp['contig_lengths'])}"))
    if not any(r.startswith("##FORMAT=<ID=GT,") for r in meta):
        bad.append(("vcf/format", "no ##FORMAT=<ID=GT line"))
    hdr = rest[0].split("\t")
    if hdr[:9] != FIXED_COLS or hdr[9:] != exp["names"]:
        bad.append(("vcf/header-names", f"header columns {hdr} expected sample names {exp['names']}"))
    data = rest[1:]
    if len(data) != len(exp["lines"]):
        ids = [d.split("\t")[2:3] for d in data]
        bad.append(("vcf/line-count", f"{len(data)} data lines (IDs {ids}) expected sites "
                    f"{[ln['site'] for ln in exp['lines']]}"))
        return bad
    for d, e in zip(data, exp["lines"]):
        f = d.split("\t")
        w = f"line {d!r}"
        if len(f) != 9 + len(e["gts"]):
            bad.append(("vcf/columns", f"{w}: {len(f)} columns expected {9 + len(e['gts'])}"))
            break
        if f[0] != exp["contig_id"]:
            bad.append(("vcf/contig-id", f"{w}: CHROM {f[0]!r} expected {exp['contig_id']!r}"))
        if f[2] != str(e["site"]):
            bad.append(("vcf/site-id", f"{w}: ID {f[2]!r} expected site {e['site']} (order of unmasked sites)"))
            break
        if f[1] != str(e["pos"]):
            bad.append(("vcf/pos", f"{w}: POS {f[1]!r} expected {e['pos']}"))
        if f[3] != e["ref"]:
            bad.append(("vcf/ref", f"{w}: REF {f[3]!r} expected ancestral state {e['ref']!r}"))
        alts = [] if (f[4] == "." and not e["alts"]) else f[4].split(",")
        if sorted(alts) != sorted(e["alts"]):
            bad.append(("vcf/alt", f"{w}: ALT {f[4]!r} expected the states {sorted(e['alts'])}"))
            break
        if f[8] != "GT":
            bad.append(("vcf/format", f"{w}: FORMAT column {f[8]!r}"))
        alleles = [f[3]] + alts
        for i, (field, calls) in enumerate(zip(f[9:], e["gts"])):
            toks = field.split("|")
            if len(toks) != len(calls):
                bad.append(("vcf/gt-ploidy", f"{w}: individual {i} field {field!r} expected ploidy {len(calls)}"))
                break
            dec = []
            for t in toks:
                if t == ".":
                    dec.append(None)
                elif t.isdigit() and int(t) < len(alleles):
                    dec.append(alleles[int(t)])
                else:
                    dec.append(("?", t))
            if dec != calls:
                bad.append(("vcf/gt", f"{w}: individual {i} field {field!r} decodes to {dec} expected {calls}"))
                break
        if bad:
            break
    return bad


# ------------------------------------------------------------------------------------ drawing arguments


def draw_args(rng, R, layout, calm=False):
    """Logical arguments + how to pass them.  calm: large inputs - almost always a valid call."""
    m = R.m
    nind = len(m.individuals)
    ns = len(R.sites)
    a = {}
    by_ind = by_individual(R)
    # ploidy
    r = rng.random()
    nsamp = len(R.samples)
    if calm:
        if nind == 0 and r < 0.85:
            div = [p for p in (1, 2, 2, 3, 4, 64, 128, 129, 130, 256, 260, nsamp // 2, nsamp) if p and nsamp % p == 0]
            a["ploidy"] = rng.choice(div) if rng.random() < 0.95 else rng.choice([0, 7, nsamp + 1])
    elif nind == 0:
        if r < 0.75:
            div = [p for p in (1, 2, 3, 4) if nsamp % p == 0]
            r2 = rng.random()
            a["ploidy"] = rng.choice(div) if r2 < 0.8 else (rng.choice([1, 2, 3, 4]) if r2 < 0.93 else rng.choice([0, -1, 5]))
    elif r < (0.15 if layout == "unused" else 0.05):
        a["ploidy"] = rng.choice([1, 2])
    # individuals
    if calm:
        good = [i for i in sorted(by_ind) if all(m.is_sample(u) for u in by_ind[i])]
        if good and rng.random() < 0.5:
            r = rng.random()
            if r < 0.5:
                a["individuals"] = rng.sample(good, len(good))
            elif r < 0.95:
                a["individuals"] = rng.sample(good, rng.randint(1, len(good)))
            else:
                a["individuals"] = rng.sample(good, min(3, len(good))) + [rng.choice([-1, nind])]
    elif nind and rng.random() < (0.7 if layout in ("partial", "mixed", "nonsample-only") else 0.4):
        withnodes = sorted(by_ind)
        good = [i for i in withnodes if all(m.is_sample(u) for u in by_ind[i])]
        r = rng.random()
        if r < 0.70 and good:
            a["individuals"] = rng.sample(good, rng.randint(1, len(good)))
        elif r < 0.74 and good:
            # V7: an individual listed twice
            a["individuals"] = rng.sample(good, rng.randint(1, len(good)))
            a["individuals"].insert(rng.randint(0, len(a["individuals"])), rng.choice(a["individuals"]))
        elif r < 0.86 and withnodes:
            a["individuals"] = rng.sample(withnodes, rng.randint(1, len(withnodes)))
        elif r < 0.92:
            a["individuals"] = rng.sample(range(nind), rng.randint(1, nind))
        elif r < 0.95:
            a["individuals"] = []
        elif r < 0.98:
            a["individuals"] = [rng.choice([-1, nind, nind + 2])] + rng.sample(range(nind), rng.randint(0, nind))
        else:
            # ids that are valid only after wrapping to 32 bits (2^32 + id, id - 2^32, 2^31 + ...)
            lst = rng.sample(good or list(range(nind)), rng.randint(1, len(good or range(nind))))
            j = rng.randrange(len(lst))
            lst[j] = lst[j] + rng.choice([2 ** 32, -2 ** 32, 2 ** 33, 2 ** 40])
            a["individuals"] = lst
    if rng.random() < 0.3:
        a["iam"] = rng.choice([True, False, False])
    if rng.random() < 0.5:
        a["apz"] = rng.choice([True, True, False])
    if rng.random() < 0.25:
        a["contig_id"] = rng.choice(["chr1", "X", "contig_7", "2"])
    if calm:
        a["transform"] = rng.choice(["default", "default", "legacy", "legacy-function", "np.round", "floor+1", "decreasing",
                                     "big-int-list", "tuple"])
        if any(s["pos"] == 0 for s in R.sites) and rng.random() < 0.8:
            a["apz"] = True
    else:
        a["transform"] = rng.choice(TRANSFORM_WEIGHTS)
        if m.L >= 2 ** 20 and a["transform"] in NOT_FOR_BIG_COORDS:
            a["transform"] = "default"
    r = rng.random()
    if r < 0.50 and ns:
        p = rng.choice([0.2, 0.5, 0.8])
        a["site_mask"] = [rng.random() < p for _ in range(ns)]
        if rng.random() < (0.01 if calm else 0.06):
            a["site_mask"] = a["site_mask"] + [False] if rng.random() < 0.5 else a["site_mask"][:-1]
    elif r < 0.55 and ns:
        a["site_mask"] = [True] * ns
    elif r < 0.61:
        a["site_mask"] = [False] * ns
    return a


def draw_names_and_sample_mask(rng, R, a, calm=False):
    """Needs the number of output individuals / nodes, so it is drawn after a first expectation pass."""
    _, _, groups, _ = vcf_groups(R, a)
    ngroups = len(groups) if groups is not None else rng.randint(0, 3)
    nout = sum(len(g) for g in groups) if groups is not None else len(R.samples)
    ns = len(R.sites)
    if rng.random() < 0.3:
        k = ngroups if rng.random() < (0.98 if calm else 0.85) else max(0, ngroups + rng.choice([-1, 1]))
        a["names"] = [rng.choice(["a", "ind", "s_", "NA"]) + str(i * 7 % 11) for i in range(k)]
    if rng.random() < 0.45:
        k = nout if rng.random() < (0.98 if calm else 0.9) else max(0, nout + rng.choice([-1, 1]))
        p = rng.choice([0.0, 0.2, 0.5, 0.9, 1.0])
        if rng.random() < 0.5:
            a["sample_mask"] = ("static", [rng.random() < p for _ in range(k)])
        else:
            rows = [[rng.random() < p for _ in range(k)] for _ in range(ns)]
            sm = a.get("site_mask")
            if sm is not None and len(sm) == ns and rng.random() < 0.5:
                # "called for each (unmasked) site": what the callable would return for a masked site is irrelevant,
                # here an array of the wrong length
                for j in range(ns):
                    if sm[j]:
                        rows[j] = rows[j] + [True] if rng.random() < 0.5 else rows[j][:-1]
                a["_dyn_bad_rows_at_masked_sites"] = True
            elif ns and k == nout and rng.random() < 0.06:
                # the callable answers with a wrong length at ONE site only (an error unless that site is masked)
                j = rng.randrange(ns)
                rows[j] = rows[j] + [False] if rng.random() < 0.5 else rows[j][:-1]
            a["sample_mask"] = ("dynamic", rows)
    return a


EXPLICIT_DEFAULTS = [("ploidy", None), ("individuals", None), ("individual_names", None), ("position_transform", None),
                     ("site_mask", None), ("sample_mask", None), ("isolated_as_missing", None),
                     ("allow_position_zero", None), ("allow_position_zero", False), ("contig_id", "1")]


def to_kwargs(rng, a, site_form=None, sample_form=None, positional_ploidy=False, plain=True, feats=None):
    """Concrete keyword arguments for write_vcf; returns (args, kwargs, dynmask or None).

    plain: canonical containers (list / int64 array ids, Python scalars, defaults left out).  Otherwise every
    argument goes through a randomly chosen equivalent form, and defaults may be spelled out."""
    kw = {}
    args = []
    feats = [] if feats is None else feats
    wraps = any(not (-2 ** 31 <= i < 2 ** 31) for i in a.get("individuals") or [])
    if "ploidy" in a:
        p = a["ploidy"]
        if not plain:
            f = rng.choice(X.PLOIDY_FORMS)
            p = X.ploidy_form(p, f)
            feats.append("ploidy-form:" + type(p).__name__)
        if positional_ploidy:
            args.append(p)
        else:
            kw["ploidy"] = p
    if "individuals" in a:
        if wraps:
            # the containers that can hold the value at all
            f = "int64" if plain else rng.choice(["int64", "int64", "readonly", "list", "list-np"])
            f, kw["individuals"] = X.individuals_form(a["individuals"], f)
            feats.append("individuals-form:" + f + "(beyond-int32)")
        elif plain:
            kw["individuals"] = list(a["individuals"]) if rng.random() < 0.6 else np.array(a["individuals"], dtype=np.int64)
        else:
            f, kw["individuals"] = X.individuals_form(a["individuals"], rng.choice(X.IND_FORMS))
            feats.append("individuals-form:" + f)
    if a.get("names") is not None:
        if plain:
            kw["individual_names"] = list(a["names"])
        else:
            f = rng.choice(X.NAME_FORMS)
            kw["individual_names"] = X.names_form(a["names"], f)
            feats.append("names-form:" + f)
    if "iam" in a:
        kw["isolated_as_missing"] = a["iam"] if plain else X.flag_form(rng, a["iam"])
    if "apz" in a:
        kw["allow_position_zero"] = a["apz"] if plain else X.flag_form(rng, a["apz"])
    if "contig_id" in a:
        kw["contig_id"] = a["contig_id"]
    t = TRANSFORMS[a.get("transform", "default")][0]
    if t is not None:
        kw["position_transform"] = t
    if a.get("site_mask") is not None:
        kw["site_mask"] = mask_form(a["site_mask"], site_form or "bool-array")
    dyn = None
    if a.get("sample_mask") is not None:
        kind, rows = a["sample_mask"]
        if kind == "static":
            kw["sample_mask"] = mask_form(rows, sample_form or "bool-array")
        else:
            dyn = DynMask(rows, sample_form or "bool-array")
            kw["sample_mask"] = dyn
    if not plain:
        for name, value in EXPLICIT_DEFAULTS:
            if name not in kw and not (name == "ploidy" and args) and rng.random() < 0.08:
                kw[name] = value
                feats.append(f"explicit-default:{name}={value!r}")
    return args, kw, dyn


def describe(a, site_form, sample_form, extra=""):
    d = {k: v for k, v in a.items() if not k.startswith("_")}
    if "sample_mask" in d and d["sample_mask"] is not None:
        d["sample_mask"] = (d["sample_mask"][0], d["sample_mask"][1])
    text = repr(d)
    if len(text) > 1200:
        text = text[:1200] + "...(cut)"
    return f"write_vcf(logical args {text}, site_mask form {site_form}, sample_mask form {sample_form}{extra})"


# ------------------------------------------------------------------------------------ monitors


class Mon:
    def __init__(self, ctx, m, R):
        self.ctx = ctx
        self.m = m
        self.R = R
        self.fast = False  # large inputs: the one-pass reference evaluation (c03_gen.fast_site_states)
        self._detail = None

    def bad(self, key, msg, model=None):
        if model is not None:
            detail = {"model": model.to_json()}
        else:
            if self._detail is None:
                self._detail = {"model": self.m.to_json()}
            detail = self._detail
        self.ctx.violation(key, msg, detail)


def run_vcf(ts, args, kw, entry="as_vcf"):
    return attempt(lambda: X.call_entry(ts, entry, args, kw))


def judge(ok, out, must, may, exp, dyn=None):
    """None if the outcome agrees with the expectation, else (key, msg)."""
    if not ok and isinstance(out, X.SecondWriteDiffers):
        return ("vcf/writer-not-reusable", str(out))
    if must:
        if ok:
            return (f"vcf/error-not-raised/{sorted(must)[0]}", f"returned normally, predicted errors {sorted(must)}; "
                    f"output tail {out[-300:]!r}")
        return None
    if not ok:
        if may:
            return None
        return (f"vcf/unexpected-error/{exc_name(out)}", f"raised {exc_name(out)}: {out}")
    if exp is None:
        return None
    diffs = vcf_compare(out, exp)
    if diffs:
        shown = out if len(out) < 1500 else out[:700] + " ...(cut)... " + out[-700:]
        return (diffs[0][0], "; ".join(msg[:600] for _, msg in diffs[:3]) + f" || full output {shown!r}")
    if dyn is not None:
        want = [(ln["site"], exp["out_nodes"]) for ln in exp["lines"]]
        if dyn.calls != want:
            return ("vcf/sample-mask-callable-calls", f"sample_mask callable was called with (site, variant.samples) "
                    f"{str(dyn.calls)[:600]} expected {str(want)[:600]}")
    return None


def mon_general(rng, mon, ts, layout, calm=False):
    R, ctx = mon.R, mon.ctx
    a = draw_args(rng, R, layout, calm)
    a = draw_names_and_sample_mask(rng, R, a, calm)
    must, may, exp = vcf_expect(R, a)
    site_form = rng.choice(FORMS) if a.get("site_mask") is not None else None
    sample_form = rng.choice(FORMS) if a.get("sample_mask") is not None else None
    feats = []
    pos_ploidy = rng.random() < 0.3
    args, kw, dyn = to_kwargs(rng, a, site_form, sample_form, positional_ploidy=pos_ploidy, plain=False, feats=feats)
    entry = rng.choice(X.ENTRIES)
    ok, out = run_vcf(ts, args, kw, entry)
    if entry == "VcfWriter:twice" and dyn is not None and ok:
        # two write() calls: the callable is consulted once per written line each time
        half = len(dyn.calls) // 2
        if len(dyn.calls) % 2 == 0 and dyn.calls[:half] == dyn.calls[half:]:
            dyn.calls = dyn.calls[:half]
    ctx.count("vcf:calls")
    ctx.feature("transform:" + a.get("transform", "default"))
    ctx.feature("entry:" + entry)
    for t in feats:
        ctx.feature(t)
    if must:
        ctx.count("vcf:error-predicted")
        for t in must:
            ctx.feature("error:" + t)
    elif ok:
        ctx.count("vcf:compared")
        ctx.count("vcf:lines-compared", len(exp["lines"]) if exp else 0)
        if exp and exp["lines"]:
            ctx.count("vcf:nonempty-compared")
        if exp:
            for t, c in exp["stats"].items():
                ctx.feature(t, c)
            if entry != "as_vcf":
                ctx.count("vcf:compared-through-other-entry")
            if feats:
                ctx.count("vcf:compared-with-argument-forms")
            if a.get("_dyn_bad_rows_at_masked_sites"):
                ctx.feature("callable-mask-unusable-at-masked-sites")
            if "duplicate-individuals" in may:
                ctx.feature("either:duplicate-individuals-written")
    elif may:
        ctx.count("vcf:either-zone-error")
        for t in may:
            ctx.feature("either-error:" + t)
    if site_form:
        ctx.feature("site_mask:" + site_form)
    if sample_form:
        ctx.feature("sample_mask:" + ("callable->" if dyn else "") + sample_form)
    v = judge(ok, out, must, may, exp, dyn)
    if v is not None:
        key, msg = v
        extra = f", entry {entry}, argument forms {feats}, ploidy {'positional' if pos_ploidy else 'keyword'}"
        named = False
        # (1) a disagreement that disappears when the very same arguments go through as_vcf belongs to the entry
        if entry != "as_vcf":
            args2, kw2, dyn2 = args, dict(kw), None
            if dyn is not None:
                dyn2 = DynMask(dyn.rows, dyn.form)
                kw2["sample_mask"] = dyn2
            ok2, out2 = run_vcf(ts, args2, kw2, "as_vcf")
            if judge(ok2, out2, must, may, exp, dyn2) is None:
                key, named = f"vcf/entry/{entry.split(':')[0]}", True
                msg = f"through {entry}: {msg}; the same arguments through as_vcf behave as documented"
        # (2) ... when the arguments are passed in their canonical containers: an argument-form defect
        if not named and feats:
            args2, kw2, dyn2 = to_kwargs(rng, a, site_form, sample_form)
            ok2, out2 = run_vcf(ts, args2, kw2)
            if judge(ok2, out2, must, may, exp, dyn2) is None:
                key, named = "vcf/argument-form", True
                msg = f"{msg}; the same call with plain list / int / bool arguments behaves as documented"
        # (3) ... when the same logical masks are passed as boolean arrays: a mask-form defect
        if not named:
            for which, form in (("site", site_form), ("sample", sample_form)):
                if form in (None, "bool-array"):
                    continue
                sf = "bool-array" if which == "site" else site_form
                pf = "bool-array" if which == "sample" else sample_form
                args2, kw2, dyn2 = to_kwargs(rng, a, sf, pf)
                ok2, out2 = run_vcf(ts, args2, kw2)
                if judge(ok2, out2, must, may, exp, dyn2) is None:
                    key = f"vcf/{which}-mask-form"
                    msg = f"{which}_mask given as {form}: {msg}; the same mask as a boolean array behaves as documented"
                    break
        mon.bad(key, f"{describe(a, site_form, sample_form, extra)}: {msg}")
        return
    if ok and entry != "as_vcf" and rng.random() < (0.25 if calm else 0.6):
        # every entry writes the text as_vcf returns
        args2, kw2, _ = to_kwargs(rng, a, site_form, sample_form)
        ok2, out2 = run_vcf(ts, args2, kw2)
        ctx.count("vcf:write_vcf-vs-as_vcf")
        if not ok2 or out2 != out:
            mon.bad("vcf/write_vcf-differs-from-as_vcf", f"{describe(a, site_form, sample_form)}: {entry} -> "
                    f"{out[-800:]!r}, as_vcf -> {out2 if not ok2 else out2[-800:]!r}")
        if entry == "write_vcf:file":
            ctx.count("vcf:write_vcf-file")


def outcome(ok, out):
    return ("ok", out) if ok else ("error", exc_name(out))


def mon_mask_forms(rng, mon, ts, layout, calm=False, nforms=4):
    """Mask-form metamorphism crossed with allow_position_zero and a (un)masked site at position 0.

    Each block tries `nforms` of the 16 non-canonical forms (a form defect shows on every call that uses the form,
    so rotating the forms over the cases loses nothing and pays for the wider form list)."""
    R, ctx = mon.R, mon.ctx
    ns = len(R.sites)
    if ns == 0:
        return
    a = draw_args(rng, R, layout, calm)
    if "individuals" in a and any(not (-2 ** 31 <= i < 2 ** 31) for i in a["individuals"]):
        a.pop("individuals")  # the 32-bit wrap class is judged in mon_general
    # keep the rest of the call valid most of the time so that the masks decide the outcome
    a.pop("names", None)
    if a.get("transform") in ("too-long", "too-short", "2d"):
        a["transform"] = "default"
    if rng.random() < 0.5:
        a["transform"] = rng.choice(["default", "default", "floor", "zero"])
    p = rng.choice([0.3, 0.5, 0.7])
    logical = [rng.random() < p for _ in range(ns)]
    logical[0] = rng.random() < 0.5
    a["site_mask"] = logical
    a = draw_names_and_sample_mask(rng, R, a, calm)
    a.pop("names", None)
    for apz in (None, True):
        b = dict(a)
        b.pop("apz", None)
        if apz is not None:
            b["apz"] = apz
        must, may, exp = vcf_expect(R, b)
        pos0 = TRANSFORMS[b["transform"]][1] is not None and TRANSFORMS[b["transform"]][1]([R.sites[0]["pos"]])[0] == 0
        ctx.feature(f"maskform:apz={apz},pos0={'masked' if logical[0] else 'unmasked'}" if pos0 else
                    f"maskform:apz={apz},no-pos0")
        base_args, base_kw, base_dyn = to_kwargs(rng, b, "bool-array", "bool-array")
        ok0, out0 = run_vcf(ts, base_args, base_kw)
        ctx.count("maskform:base")
        v = judge(ok0, out0, must, may, exp, base_dyn)
        if v is not None:
            mon.bad(v[0], f"{describe(b, 'bool-array', 'bool-array')}: {v[1]}")
            continue
        for form in rng.sample(FORMS[1:], nforms):
            args1, kw1, _ = to_kwargs(rng, b, form, "bool-array")
            ok1, out1 = run_vcf(ts, args1, kw1)
            ctx.count("maskform:site-form")
            ctx.feature("maskform-site:" + form)
            if outcome(ok1, out1) != outcome(ok0, out0):
                mon.bad("vcf/site-mask-form", f"{describe(b, form, 'bool-array')}: site_mask {kw1['site_mask']!r} -> "
                        f"{outcome(ok1, out1)[0]} {out1 if not ok1 else out1[-200:]!r}; the same mask as a boolean "
                        f"array -> {outcome(ok0, out0)[0]} {out0 if not ok0 else out0[-200:]!r}")
                break
        if b.get("sample_mask") is not None:
            for form in rng.sample(FORMS[1:], max(1, nforms - 1)):
                args1, kw1, _ = to_kwargs(rng, b, "bool-array", form)
                ok1, out1 = run_vcf(ts, args1, kw1)
                ctx.count("maskform:sample-form")
                ctx.feature("maskform-sample:" + ("callable->" if b["sample_mask"][0] == "dynamic" else "") + form)
                if outcome(ok1, out1) != outcome(ok0, out0):
                    mon.bad("vcf/sample-mask-form", f"{describe(b, 'bool-array', form)}: sample_mask form {form} -> "
                            f"{outcome(ok1, out1)[0]} {out1 if not ok1 else out1[-200:]!r}; boolean array -> "
                            f"{outcome(ok0, out0)[0]} {out0 if not ok0 else out0[-200:]!r}")
                    break


def mon_masked_independence(rng, mon, ts, layout):
    R, ctx = mon.R, mon.ctx
    ns = len(R.sites)
    if ns == 0:
        return
    a = draw_args(rng, R, layout)
    if a.get("transform") in ("too-long", "too-short", "2d"):
        a["transform"] = "default"
    p = rng.choice([0.3, 0.6])
    logical = [rng.random() < p for _ in range(ns)]
    logical[rng.randrange(ns)] = True
    if rng.random() < 0.5:
        logical[0] = True
    a["site_mask"] = logical
    a = draw_names_and_sample_mask(rng, R, a)
    masked = [j for j in range(ns) if logical[j]]
    m2, kinds = nastify(rng, mon.m, masked, ["many-alleles", "multi-letter", "position-zero", "unprintable"])
    ok_b, ts2 = attempt(lambda: X.build_ts(m2))
    if not ok_b:
        raise RuntimeError(f"nastified model invalid: {ts2}")
    R2 = GenoRef(m2, fast=mon.fast)
    must1, may1, exp1 = vcf_expect(R, a)
    must2, may2, exp2 = vcf_expect(R2, a)
    form = rng.choice(FORMS)
    args1, kw1, dyn1 = to_kwargs(rng, a, form, "bool-array")
    args2, kw2, dyn2 = to_kwargs(rng, a, form, "bool-array")
    ok1, out1 = run_vcf(ts, args1, kw1)
    ok2, out2 = run_vcf(ts2, args2, kw2)
    ctx.count("masked-independence:pairs")
    for k in kinds:
        ctx.feature("masked-site-replaced-by:" + k)
    v1 = judge(ok1, out1, must1, may1, exp1, dyn1)
    v2 = judge(ok2, out2, must2, may2, exp2, dyn2)
    if v1 is not None and form != "bool-array":
        # leave mask-form defects to mon_mask_forms / mon_general (named there)
        args1, kw1, dyn1 = to_kwargs(rng, a, "bool-array", "bool-array")
        ok1b, out1b = run_vcf(ts, args1, kw1)
        if judge(ok1b, out1b, must1, may1, exp1, dyn1) is None:
            mon.bad("vcf/site-mask-form", f"{describe(a, form, 'bool-array')}: {v1[1]}; the same mask as a boolean "
                    f"array behaves as documented")
            return
    if v1 is not None:
        mon.bad(v1[0], f"{describe(a, form, 'bool-array')}: {v1[1]}")
        return
    if v2 is not None and form != "bool-array":
        args2, kw2, dyn2 = to_kwargs(rng, a, "bool-array", "bool-array")
        ok2b, out2b = run_vcf(ts2, args2, kw2)
        if judge(ok2b, out2b, must2, may2, exp2, dyn2) is None:
            mon.bad("vcf/site-mask-form", f"{describe(a, form, 'bool-array')} with masked sites {masked} of kinds "
                    f"{kinds}: {v2[1]}; the same mask as a boolean array behaves as documented", model=m2)
            return
    if v2 is not None:
        mon.bad("vcf/masked-site-looked-at", f"{describe(a, form, 'bool-array')} after replacing the masked sites "
                f"{masked} by {kinds}: {v2[0]}: {v2[1]}", model=m2)
        return
    pointwise = TRANSFORMS[a.get("transform", "default")][2]
    if pointwise and not must1 and ok1 and ok2:
        ctx.count("masked-independence:text-compared")
        strip = (lambda t: re.sub(r"##contig=<[^\n]*>\n", "", t)) if logical[-1] else (lambda t: t)  # V2
        if strip(out1) != strip(out2):
            mon.bad("vcf/masked-site-changes-output", f"{describe(a, form, 'bool-array')}: output changed when the "
                    f"masked sites {masked} were replaced by {kinds}: {out1!r} vs {out2!r}", model=m2)


def mon_transform_receives_list(rng, mon, ts):
    """write_vcf's position-zero error message recommends `position_transform = lambda x: 1 + x`."""
    R, ctx = mon.R, mon.ctx
    if not (float(R.m.L).is_integer() and all(float(s["pos"]).is_integer() for s in R.sites)):
        return  # a transform must return integers: `1 + x` does so only for integral positions
    a = {"transform": "1+x", "apz": rng.choice([None, True])}
    if a["apz"] is None:
        a.pop("apz")
    if len(R.m.individuals) == 0 and rng.random() < 0.5:
        a["ploidy"] = 1
    must, may, exp = vcf_expect(R, a)
    args, kw, _ = to_kwargs(rng, a)
    ok, out = run_vcf(ts, args, kw)
    ctx.count("vcf:documented-1+x-transform")
    v = judge(ok, out, must, may, exp)
    if v is not None:
        key = "vcf/position-transform-given-a-list" if (not ok and isinstance(out, TypeError)) else v[0]
        mon.bad(key, f"as_vcf(position_transform=lambda x: 1 + x, {a}): {v[1]}")


def mon_cli(rng, mon, ts):
    """`python -m tskit vcf` (in process) against the reference; every spelling argparse accepts."""
    from tskit import cli

    R, ctx = mon.R, mon.ctx
    a = {}
    argv = []
    if rng.random() < 0.5:
        a["ploidy"] = rng.choice([1, 2, 3])
        argv += rng.choice([["-P", str(a["ploidy"])], ["--ploidy", str(a["ploidy"])], [f"--ploidy={a['ploidy']}"],
                            [f"-P{a['ploidy']}"]])
    if rng.random() < 0.5:
        a["contig_id"] = rng.choice(["chrX", "7"])
        argv += rng.choice([["-c", a["contig_id"]], ["--contig-id", a["contig_id"]], [f"--contig-id={a['contig_id']}"]])
    if rng.random() < 0.6:
        a["apz"] = True
        argv += [rng.choice(["-0", "--allow-position-zero"])]
    must, may, exp = vcf_expect(R, a)
    p = X.scratch_file("cli.trees")
    ts.dump(p)
    try:
        buf = io.StringIO()
        full = ["vcf", p] + argv if rng.random() < 0.5 else ["vcf"] + argv + [p]
        how = rng.choice(["tskit_main", "parser+runner"])

        def go():
            with contextlib.redirect_stdout(buf), contextlib.redirect_stderr(io.StringIO()):
                try:
                    if how == "tskit_main":
                        cli.tskit_main(full)
                    else:
                        parsed = cli.get_tskit_parser().parse_args(full)
                        parsed.runner(parsed)
                except SystemExit as e:
                    raise RuntimeError(f"SystemExit({e.code})")
            return buf.getvalue()

        ok, out = attempt(go)
    finally:
        os.unlink(p)
    ctx.count("vcf:cli")
    ctx.feature("cli:" + how)
    v = judge(ok, out, must, may, exp)
    if v is not None:
        mon.bad("cli/" + v[0], f"tskit {full[:1] + ['<file>' if x == p else x for x in full[1:]]}: {v[1]}")


def big_features(m, R):
    tags = set(m.tags)
    if R.isolated_any:
        tags.add("isolated-sample")
    if any(any(s["missing"][u] for u in R.samples) for s in R.sites):
        tags.add("site-with-missing-data")
    return tags


def run_case(case, ctx):
    rng, m, layout = build(case)
    kind = case["gen"]
    large = kind in ("big", "huge", "manysites")
    R = GenoRef(m, fast=large)
    mon = Mon(ctx, m, R)
    mon.fast = large
    if kind in ("big", "huge"):
        mon._detail = {"model": "large input: replay the case to rebuild it", "tags": sorted(m.tags)}
        tags = big_features(m, R)
    else:
        tags = gen.topo_tags(m) | model_features(m, R) | set(t for t in m.tags if t.startswith(
            ("scaled:", "schema:", "manysites", "individual-rows")))
    for t in tags:
        ctx.feature(t)
    ctx.feature("individuals-layout:" + layout)
    ctx.feature("gen:" + kind)
    for s in R.sites:
        if len(s["states"]) >= 8:
            ctx.feature(f"site-with-{len(s['states'])}-alleles")
    if any(s["pos"] == 0 for s in R.sites):
        ctx.feature("site-at-position-0")
    if len(R.samples) == 1:
        ctx.feature("exactly-one-sample")
    if kind in ("big", "huge"):
        sig = (kind, m.L, len(m.nodes), tuple(m.edges[:50]), tuple(m.sites), tuple(m.mutations), len(m.individuals))
    else:
        sig = m.signature()
    ctx.sig(sig, nontrivial=len(m.sites) > 0 and len(R.samples) > 0)
    if case["k"] < 2:
        ctx.sample({"case": case, "model": m.to_json()})
    ts = X.build_ts(m, fast=kind in ("big", "huge"))
    if case["k"] % 16 == 9:
        # a tree sequence that went through a file and back
        path = X.scratch_file("origin.trees")
        ts.dump(path)
        ts = tskit.load(path)
        os.unlink(path)
        ctx.feature("ts-origin:loaded-from-file")
    if kind == "huge":
        ctx.count("huge:cases")
        for _ in range(2):
            mon_general(rng, mon, ts, layout, calm=True)
        return
    if kind == "big":
        ctx.count("big:cases")
        for _ in range(3):
            mon_general(rng, mon, ts, layout, calm=True)
        mon_mask_forms(rng, mon, ts, layout, calm=True, nforms=3)
        return
    if kind == "manysites":
        ctx.count("manysites:cases")
        for _ in range(2):
            mon_general(rng, mon, ts, layout, calm=rng.random() < 0.7)
        mon_mask_forms(rng, mon, ts, layout, calm=True, nforms=2)
        mon_masked_independence(rng, mon, ts, layout)
        return
    for _ in range(5):
        mon_general(rng, mon, ts, layout)
    mon_mask_forms(rng, mon, ts, layout)
    mon_masked_independence(rng, mon, ts, layout)
    if rng.random() < 0.4:
        mon_transform_receives_list(rng, mon, ts)
    if rng.random() < 0.08:
        mon_cli(rng, mon, ts)
