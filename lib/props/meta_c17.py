from lib.props.meta_common import ASSUME_COMMON

ID = "C17"
META = dict(
    LEVEL="exploration",
    RULE=("forest-walk generated valid tree sequences (binary schema-less metadata incl. NUL/0xFF/tab/newline bytes, "
          "ragged individual locations/parents, populations, migrations, multi-character/empty/non-ASCII allele "
          "states, known and unknown mutation times, edges in non-canonical parent order) x precision "
          "(needed, larger, default, insufficient) x file layouts (columns permuted, unknown columns inserted, "
          "each optional column omitted, optional files omitted). dump_text output is checked cell by cell by an "
          "independent tab reader; load_text and every parse_* result is compared row by row with the model after "
          "the documented sort. A case is distinct by the sha1 of its row tuples and non-trivial when it has "
          "edges and at least one of sites/individuals/migrations."),
    REQUIRED=["roundtrip", "layout:load_text", "dump-cells:nodes", "dump-cells:mutations", "parse:nodes",
              "parse:edges", "parse:sites", "parse:mutations", "parse:individuals", "parse:populations",
              "parse:migrations", "lowprec", "population-backfill"],
    ASSUMPTIONS=ASSUME_COMMON + [
        "strict tab-delimited mode and Base64 metadata only (the statement's scope); strict=False is not exercised",
        "Python's float formatting '%.{p}f' is correctly rounded (used to decide which precision is sufficient)",
    ],
    BUDGET={"quick": 40.0, "thorough": 780.0},
)
