from lib.props.meta_common import ASSUME_COMMON

ID = "C17"
META = dict(
    LEVEL="exploration",
    RULE=("forest-walk generated valid tree sequences (binary schema-less metadata incl. NUL/0xFF/tab/newline bytes, "
          "ragged individual locations/parents, populations, migrations, multi-character/empty/non-ASCII allele "
          "states, known and unknown mutation times, edges in non-canonical parent order) x precision "
          "(needed, larger, default, insufficient) x file layouts (columns permuted, unknown columns inserted, "
          "each optional column omitted, optional files omitted, a column with an empty or blank cell forced to the "
          "first / last position) x call forms (dump_text: keyword, positional, one table per call, complementary "
          "subsets, real files, write-only objects, the `python -m tskit <table>` wrappers, a pickled copy; load_text: "
          "keyword, positional, defaults, real files, byte streams, rewound objects; parse_*: keyword, positional, "
          "defaults, source=, real files, the same table written twice). Case families by k mod 23: rt (above, with "
          "boundary decorations in fixed shares: times/coordinates scaled by non-powers of two, arbitrary doubles "
          "incl. inf/nan in the str()-formatted columns, metadata of 47-300 bytes with all byte values, individual "
          "flags 2^31 / 2^32-1, whole-column patterns), lowprec, tiny (zero nodes, one node, no edges, identical "
          "rows, whole ragged columns empty / empty only in the first or last row, no edges in the last part of the "
          "sequence), big (> 256 rows and ids per table, > 256 mutations at one site, 300 parents, entries > 64 KiB). "
          "dump_text output is checked cell by cell by an independent tab reader; load_text and every parse_* "
          "result is compared row by row with the model after the documented sort. A case is distinct by the sha1 "
          "of its row tuples and non-trivial when it has edges and at least one of sites/individuals/migrations."),
    REQUIRED=["roundtrip", "layout:load_text", "dump-cells:nodes", "dump-cells:mutations", "parse:nodes",
              "parse:edges", "parse:sites", "parse:mutations", "parse:individuals", "parse:populations",
              "parse:migrations", "lowprec", "population-backfill",
              # audit pass: alternative entry points / argument forms, boundary and extreme inputs
              "dump-form:pos", "dump-form:single", "dump-form:cli", "load-form:pos", "load-form:mixed-defaults",
              "load-form:files", "parse-form:defaults", "parse-form:pos", "parse:same-table-twice",
              "family:tiny", "family:big", "roundtrip:repr-doubles", "roundtrip:nondyadic-times",
              "roundtrip:wide-metadata", "roundtrip:inferred-length-below-L"],
    ASSUMPTIONS=ASSUME_COMMON + [
        "strict tab-delimited mode and Base64 metadata only (the statement's scope); strict=False is exercised only "
        "on files without empty or blank cells, `encoding` only with ASCII-compatible codecs (Base64 text)",
        "Python's float formatting '%.{p}f' is correctly rounded (used to decide which precision is sufficient)",
        "individuals list their parents before themselves (TableCollection.sort may otherwise renumber them: C11's matter)",
    ],
    BUDGET={"quick": 40.0, "thorough": 780.0},
)
