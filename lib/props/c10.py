"""C10 — truncated or corrupted files are rejected, never loaded as something else (fault enumeration).

The kastore layout of every dumped file is parsed independently (64-byte header, 64-byte descriptors, key block,
8-aligned arrays) so that every byte offset is classified as header field / header reserved / descriptor field /
descriptor reserved / key / padding / column data.  Faults:
  truncate   : EVERY proper prefix, for tskit.load and TableCollection.load (and object k of a multi-object stream)
  structural : every byte of header+descriptors+keys x {^0x01, ^0x80, =0x00, =0xFF}
  arith      : arithmetic-aware multi-byte edits of num_items, file_size, key_start/len, array_start/len
  data       : random 1-8 byte edits inside column data and padding
  typed      : every numeric array item (sequence_length, coordinates, times, ids, flags, offsets, index) gets its first /
               middle / last element replaced by the special values of its type (NaN with either sign and several payloads,
               +-inf, 0, -0.0, negative, denormal, largest double; -1, -2, n, n+1, INT_MAX, INT_MIN; 0 / all-ones for
               unsigned), through every loader
Oracle: prefix -> must raise (EOFError only for the empty prefix); structural -> must raise; data -> raises, or the object
is well-formed (tskit.load: passes the C02 validity predicate) and dump->load is the identity.
"""
import os
import pathlib
import struct
import tempfile

import numpy as np
import tskit

from lib import gen
from lib.harness import case_rng
from lib.props.c02 import reject_reasons
from lib.tsk import from_tables, tables_bytes, to_tables

ID = "C10"
HEADER = 64
DESC = 64
TYPE_SIZE = [1, 1, 2, 2, 4, 4, 8, 8, 4, 8]  # int8,uint8,int16,uint16,int32,uint32,int64,uint64,f32,f64

# columns the file format documents as optional (absent -> default), used only to NAME the mechanism of a known
# by-design acceptance; anything else accepted after a structural alteration is a violation.
OPTIONAL_KEYS = {
    "metadata", "metadata_schema", "time_units", "mutations/time", "edges/metadata", "edges/metadata_offset",
    "migrations/metadata", "migrations/metadata_offset", "individuals/parents", "individuals/parents_offset",
    "indexes/edge_insertion_order", "indexes/edge_removal_order", "reference_sequence/data", "reference_sequence/url",
    "reference_sequence/metadata", "reference_sequence/metadata_schema",
    "nodes/metadata_schema", "edges/metadata_schema", "sites/metadata_schema", "mutations/metadata_schema",
    "individuals/metadata_schema", "populations/metadata_schema", "migrations/metadata_schema",
}
BLOB_KEYS = {"metadata", "metadata_schema", "time_units", "reference_sequence/data", "reference_sequence/url",
             "reference_sequence/metadata", "reference_sequence/metadata_schema", "nodes/metadata_schema",
             "edges/metadata_schema", "sites/metadata_schema", "mutations/metadata_schema", "individuals/metadata_schema",
             "populations/metadata_schema", "migrations/metadata_schema"}


class Layout:
    def __init__(self, data):
        self.size = len(data)
        (self.num_items,) = struct.unpack_from("<I", data, 12)
        (self.file_size,) = struct.unpack_from("<Q", data, 16)
        self.items = []
        for j in range(self.num_items):
            off = HEADER + j * DESC
            typ = data[off]
            ks, kl, as_, al = struct.unpack_from("<QQQQ", data, off + 8)
            key = data[ks:ks + kl].decode("utf8", "replace")
            self.items.append({"j": j, "type": typ, "key_start": ks, "key_len": kl, "array_start": as_, "array_len": al,
                               "key": key, "nbytes": al * TYPE_SIZE[typ] if typ < len(TYPE_SIZE) else 0})
        self.keys_start = HEADER + self.num_items * DESC
        self.keys_end = self.items[-1]["key_start"] + self.items[-1]["key_len"] if self.items else self.keys_start

    def classify(self, off):
        """(region, field, item key)"""
        if off < HEADER:
            if off < 8:
                return ("header", "magic", None)
            if off < 10:
                return ("header", "version_major", None)
            if off < 12:
                return ("header-reserved", "version_minor", None)
            if off < 16:
                return ("header", "num_items", None)
            if off < 24:
                return ("header", "file_size", None)
            return ("header-reserved", "reserved", None)
        if off < self.keys_start:
            j, r = divmod(off - HEADER, DESC)
            key = self.items[j]["key"]
            if r == 0:
                return ("descriptor", "type", key)
            if r < 8:
                return ("descriptor-reserved", "reserved", key)
            if r < 40:
                return ("descriptor", ["key_start", "key_len", "array_start", "array_len"][(r - 8) // 8], key)
            return ("descriptor-reserved", "reserved", key)
        if off < self.keys_end:
            for it in self.items:
                if it["key_start"] <= off < it["key_start"] + it["key_len"]:
                    return ("key", "key", it["key"])
        for it in self.items:
            if it["array_start"] <= off < it["array_start"] + it["nbytes"]:
                return ("data", "data", it["key"])
        return ("padding", "padding", None)


def make_file(rng, big=False):
    m = gen.gen_full(rng, max_nodes=10 if big else 6, max_bp=4 if big else 2, max_sites=4 if big else 2, pops=True,
                     migrations=rng.random() < 0.6, meta=rng.random() < 0.7)
    tc = to_tables(m)
    if rng.random() < 0.5:
        tc.metadata_schema = tskit.MetadataSchema({"codec": "json"})
        tc.metadata = {"a": rng.randint(0, 99)}
    if rng.random() < 0.5:
        tc.nodes.metadata_schema = tskit.MetadataSchema(None)
    if rng.random() < 0.4:
        tc.time_units = rng.choice(["generations", "years", "x"])
    if rng.random() < 0.5:
        tc.reference_sequence.data = "ACGT" * rng.randint(0, 3) + "A" * rng.randint(0, 3)
        if rng.random() < 0.5:
            tc.reference_sequence.url = "http://x"
    if rng.random() < 0.7:
        tc.provenances.add_row("{}", timestamp="2020")
    tc.build_index()
    return m, tc


def dump_bytes(tc):
    with tempfile.NamedTemporaryFile(dir=SHM) as f:
        tc.dump(f.name)
        return open(f.name, "rb").read()


SHM = "/dev/shm" if os.path.isdir("/dev/shm") else None

LOADERS = {
    "tskit.load": lambda p: tskit.load(p),
    "TableCollection.load": lambda p: tskit.TableCollection.load(p),
    "tskit.load(skip_tables)": lambda p: tskit.load(p, skip_tables=True),
    "TableCollection.load(skip_reference_sequence)": lambda p: tskit.TableCollection.load(p, skip_reference_sequence=True),
    # the remaining option combinations and argument forms of the two public loaders
    "tskit.load(skip_reference_sequence)": lambda p: tskit.load(p, skip_reference_sequence=True),
    "TableCollection.load(skip_tables)": lambda p: tskit.TableCollection.load(p, skip_tables=True),
    "tskit.load(skip_tables,skip_reference_sequence)": lambda p: tskit.load(p, skip_tables=True, skip_reference_sequence=True),
    "tskit.load(fileobj)": lambda p: _with_file(p, tskit.load),
    "TableCollection.load(fileobj)": lambda p: _with_file(p, tskit.TableCollection.load),
    "tskit.load(pathlib)": lambda p: tskit.load(pathlib.Path(p)),
}


def _with_file(p, fn):
    with open(p, "rb") as f:
        return fn(f)


def cases(tier, seed):
    nfiles = 24 if tier == "quick" else 1500
    kinds = ["truncate", "structural:1", "structural:128", "structural:zero", "structural:ff", "arith", "data", "stream", "typed"]
    for f in range(nfiles):
        for kind in kinds:
            yield {"gen": "file", "file": f, "kind": kind}


class Tester:
    def __init__(self, ctx, case, rng):
        self.ctx = ctx
        self.case = case
        self.rng = rng
        self.fd, self.path = tempfile.mkstemp(dir=SHM, suffix=".trees")
        os.close(self.fd)

    def close(self):
        try:
            os.unlink(self.path)
        except OSError:
            pass

    def load(self, data, loader):
        """returns ('raised', exc) or ('returned', obj)"""
        with open(self.path, "wb") as f:
            f.write(data)
        self.ctx.count("loads")
        try:
            obj = LOADERS[loader](self.path)
            return "returned", obj
        except Exception as e:  # noqa: BLE001 - any exception is a rejection
            return "raised", e


def tables_of(obj):
    return obj.dump_tables() if isinstance(obj, tskit.TreeSequence) else obj


def numeric_model(tc):
    """RowModel of the numeric/structural columns only.  Text columns (states, schemas, provenance, url, time units) are
    opaque bytes to the C library; whether they decode as UTF-8 / JSON is not part of well-formedness here."""
    from lib.model import RowModel
    m = RowModel(tc.sequence_length)
    t = tc.nodes
    m.nodes = [(int(t.flags[j]), float(t.time[j]), int(t.population[j]), int(t.individual[j]), b"") for j in range(t.num_rows)]
    t = tc.edges
    m.edges = [(float(t.left[j]), float(t.right[j]), int(t.parent[j]), int(t.child[j]), b"") for j in range(t.num_rows)]
    t = tc.sites
    m.sites = [(float(t.position[j]), "", b"") for j in range(t.num_rows)]
    t = tc.mutations
    unk = tskit.is_unknown_time(t.time)
    m.mutations = [(int(t.site[j]), int(t.node[j]), "", int(t.parent[j]), None if unk[j] else float(t.time[j]), b"") for j in range(t.num_rows)]
    t = tc.individuals
    po = t.parents_offset
    m.individuals = [(int(t.flags[j]), (), tuple(int(x) for x in t.parents[po[j]:po[j + 1]]), b"") for j in range(t.num_rows)]
    m.populations = [(b"",)] * tc.populations.num_rows
    t = tc.migrations
    m.migrations = [(float(t.left[j]), float(t.right[j]), int(t.node[j]), int(t.source[j]), int(t.dest[j]), float(t.time[j]), b"")
                    for j in range(t.num_rows)]
    return m


def offsets_ok(tc):
    for tname, cols in (("nodes", ["metadata"]), ("edges", ["metadata"]), ("sites", ["ancestral_state", "metadata"]),
                        ("mutations", ["derived_state", "metadata"]), ("individuals", ["location", "parents", "metadata"]),
                        ("populations", ["metadata"]), ("migrations", ["metadata"]), ("provenances", ["timestamp", "record"])):
        t = getattr(tc, tname)
        for c in cols:
            off = getattr(t, c + "_offset")
            data = getattr(t, c)
            if len(off) != t.num_rows + 1 or off[0] != 0 or off[-1] != len(data) or np.any(np.diff(off.astype(np.int64)) < 0):
                return f"{tname}.{c}_offset malformed"
    return None


def file_arrays(data):
    lay = Layout(data)
    return {it["key"]: data[it["array_start"]:it["array_start"] + it["nbytes"]] for it in lay.items if it["key"] != "uuid"}


def well_formed(t, obj, loader):
    """For data-region acceptances: returns None or a reason string."""
    tc = tables_of(obj)
    why = offsets_ok(tc)
    if why:
        return why
    try:
        back = numeric_model(tc)
    except Exception as e:  # noqa: BLE001
        return f"numeric columns not readable: {e!r}"
    if isinstance(obj, tskit.TreeSequence):
        idx = None
        if tc.has_index():
            idx = ([int(x) for x in tc.indexes.edge_insertion_order], [int(x) for x in tc.indexes.edge_removal_order])
        rs = reject_reasons(back, idx)
        if rs:
            return f"tskit.load returned a tree sequence violating {sorted(set(rs))}"
        try:
            for tree in obj.trees():
                tree.num_edges
        except Exception as e:  # noqa: BLE001
            return f"returned tree sequence not usable: {e!r}"
    # the loaders themselves document a positive genome length (TSK_ERR_BAD_SEQUENCE_LENGTH): an object without one is
    # not something dump() can have written
    L = tc.sequence_length
    if not (L > 0):
        return f"returned object has sequence_length={L!r}"
    # dump -> load -> dump is the identity on every stored array (compared as file bytes, uuid excluded), and the
    # reloaded object compares equal to the returned one
    try:
        b1 = dump_bytes(tc)
        with tempfile.NamedTemporaryFile(dir=SHM) as f:
            f.write(b1)
            f.flush()
            again = tskit.TableCollection.load(f.name)
        b2 = dump_bytes(again)
        if file_arrays(b1) != file_arrays(b2):
            return "dump->load->dump of the returned object is not the identity"
        if not tc.equals(again):
            return "the returned object does not compare equal to its own dump->load round trip"
    except Exception as e:  # noqa: BLE001
        return f"returned object cannot be dumped and reloaded: {e!r}"
    return None


def same_as(obj, orig_bytes, loader):
    try:
        return file_arrays(dump_bytes(tables_of(obj))) == orig_bytes.get(loader)
    except Exception:  # noqa: BLE001
        return False


def col_class(key):
    if key is None:
        return "-"
    return key


def on_structural_accept(ctx, lay, off, what, obj, loader, orig_bytes, desc, data, newdata):
    """A structurally altered file loaded. Name the mechanism."""
    region, field, key = lay.classify(off)
    if region in ("header-reserved", "descriptor-reserved"):
        if same_as(obj, orig_bytes, loader):
            ctx.violation(f"structural-accepted/reserved-byte-ignored/{region}", f"{loader}: {desc}: loads equal to the original")
        else:
            ctx.violation(f"structural-accepted/{region}/changed-object", f"{loader}: {desc}: loads as a DIFFERENT object")
        return
    if region in ("key", "descriptor") and key is not None and (
            ("skip_tables" in loader and "/" in key and not key.startswith("reference_sequence/"))
            or ("skip_reference_sequence" in loader and key.startswith("reference_sequence/"))):
        # this read path never consults the column at all
        ctx.violation(f"structural-accepted/column-not-read-by-skip-path/{region}", f"{loader}: {desc}")
        return
    if region == "key":
        if key in OPTIONAL_KEYS:
            ctx.violation(f"structural-accepted/optional-column-key-renamed/{key}", f"{loader}: {desc}: optional column silently dropped")
        else:
            ctx.violation(f"structural-accepted/key/{key}", f"{loader}: {desc}")
        return
    if region == "descriptor" and field in ("array_len", "type"):
        # The one by-design hole of the (checksum-free) format: a descriptor edit whose new byte extent still occupies the
        # same 8-aligned slot, so that the strict packing test of the loader cannot see it.
        try:
            nl = Layout(newdata)
            it_old = next(i for i in lay.items if i["key"] == key)
            it_new = nl.items[it_old["j"]]
            pad = lambda n: (n + 7) // 8 * 8  # noqa: E731
            last = it_old["j"] == max(i["j"] for i in lay.items if i["array_start"] == max(x["array_start"] for x in lay.items))
            same_slot = pad(it_new["nbytes"]) == pad(it_old["nbytes"]) and not last
        except Exception:  # noqa: BLE001
            same_slot = False
        # ... and only for columns whose content the loader cannot cross-check: free-form uint8 blobs and ragged offset
        # columns (stored as uint32 or uint64 by design).  A fixed-width data column has a prescribed type and a length
        # tied to the table's row count, so an edit there must be refused.
        if same_slot and (key in BLOB_KEYS or key.endswith("_offset")):
            ctx.violation(f"structural-accepted/descriptor-edit-preserves-packing/{field}",
                          f"{loader}: {desc}: {key} now {it_new['array_len']} x type {it_new['type']} in the same 8-aligned slot")
            return
    ctx.violation(f"structural-accepted/{region}/{field}/{col_class(key)}", f"{loader}: {desc}")


def run_case(case, ctx):
    rng = case_rng({"file": case["file"], "seed": case["seed"], "tier": case["tier"]})
    m, tc = make_file(rng, big=case["file"] % 4 == 0)
    data = dump_bytes(tc)
    lay = Layout(data)
    assert lay.file_size == len(data)
    kind = case["kind"]
    ctx.sig((m.signature(), kind, len(data)), nontrivial=True)
    ctx.feature("kind:" + kind.split(":")[0])
    if case["file"] < 1 and kind == "truncate":
        ctx.sample({"case": case, "file_size": len(data), "num_items": lay.num_items, "keys": [it["key"] for it in lay.items][:12]})
    t = Tester(ctx, case, case_rng(case))
    try:
        orig_bytes = {}
        for ld in LOADERS:
            st, obj = t.load(data, ld)
            if st != "returned":
                ctx.violation("baseline/unmodified-file-rejected", f"{ld} rejected an unmodified dump: {obj!r}")
                return
            orig_bytes[ld] = file_arrays(dump_bytes(tables_of(obj)))
        if kind == "truncate":
            do_truncate(ctx, t, data, lay)
        elif kind.startswith("structural"):
            do_structural(ctx, t, data, lay, kind.split(":")[1], orig_bytes)
        elif kind == "arith":
            do_arith(ctx, t, data, lay, orig_bytes)
        elif kind == "data":
            do_data(ctx, t, data, lay, orig_bytes)
        elif kind == "typed":
            do_typed(ctx, t, data, lay)
        else:
            do_stream(ctx, t, data, lay, tc)
    finally:
        t.close()


def do_truncate(ctx, t, data, lay):
    loaders = list(LOADERS)  # eager and lazy (skip_tables / skip_reference_sequence) read paths
    for n in range(len(data)):
        # every loader near both ends of the file (header / last item), one loader in rotation elsewhere
        ld = loaders[n % len(loaders)] if 200 < n < len(data) - 80 else None
        for loader in ([ld] if ld else loaders):
            ctx.step(f"truncate to {n} of {len(data)} bytes; {loader}")
            st, obj = t.load(data[:n], loader)
            ctx.count("truncations")
            if st == "returned":
                ctx.violation("truncated-accepted/" + lay.classify(n)[0], f"{loader} loaded a {n}-byte prefix of a {len(data)}-byte file")
            elif n > 0 and isinstance(obj, EOFError):
                ctx.violation("truncated/eof-for-nonempty-prefix", f"{loader} raised EOFError for a non-empty {n}-byte prefix (end-of-stream must be distinct from truncation)")
            elif n == 0 and not isinstance(obj, EOFError):
                ctx.count("empty-prefix-non-eof")


PATTERNS = {"1": lambda b: b ^ 0x01, "128": lambda b: b ^ 0x80, "zero": lambda b: 0, "ff": lambda b: 0xFF}


def do_structural(ctx, t, data, lay, pat, orig_bytes):
    fn = PATTERNS[pat]
    loaders = list(LOADERS)
    for off in range(lay.keys_end):
        nb = fn(data[off])
        if nb == data[off]:
            continue
        newdata = data[:off] + bytes([nb]) + data[off + 1:]
        loader = loaders[off % len(loaders)] if off % 3 else "TableCollection.load"
        region, field, key = lay.classify(off)
        desc = f"byte {off} ({region}/{field}/{key}) {data[off]:#04x}->{nb:#04x} in a {len(data)}-byte file"
        ctx.step(f"structural: {desc}; {loader}")
        st, obj = t.load(newdata, loader)
        ctx.count("structural-edits")
        ctx.feature("region:" + region)
        if st == "returned":
            on_structural_accept(ctx, lay, off, pat, obj, loader, orig_bytes, desc, data, newdata)


def put(data, off, fmt, v):
    return data[:off] + struct.pack(fmt, v & (2 ** (8 * struct.calcsize(fmt)) - 1)) + data[off + struct.calcsize(fmt):]


def do_arith(ctx, t, data, lay, orig_bytes):
    edits = []
    for d in (-1, 1, 2, -lay.num_items, 2 ** 31, 2 ** 32 - lay.num_items):
        edits.append((12, "<I", lay.num_items + d, "num_items"))
    for d in (-1, 1, 8, -8, 2 ** 32, 2 ** 63, -len(data), len(data)):
        edits.append((16, "<Q", lay.file_size + d, "file_size"))
    for it in lay.items:
        base = HEADER + it["j"] * DESC
        ts = TYPE_SIZE[it["type"]]
        for fld, o, cur in (("key_start", 8, it["key_start"]), ("key_len", 16, it["key_len"]),
                            ("array_start", 24, it["array_start"]), ("array_len", 32, it["array_len"])):
            vals = [cur + 1, cur - 1, cur + 8, cur * 2, 0, 2 ** 64 - 1, cur + 2 ** 63, cur + 2 ** 32, cur + 2 ** 62]
            if fld == "array_len" and ts > 1:
                vals += [cur + 2 ** 64 // ts, cur + 2 ** 63 // ts * 1, cur + (2 ** 64 // ts) * (ts - 1)]
            for v in vals:
                if v % 2 ** 64 != cur:
                    edits.append((base + o, "<Q", v, fld))
        for v in range(0, 12):
            if v != it["type"]:
                edits.append((base, "<B", v, "type"))
    loaders = list(LOADERS)
    for k, (off, fmt, v, fld) in enumerate(edits):
        newdata = put(data, off, fmt, v)
        loader = loaders[k % len(loaders)]
        region, field, key = lay.classify(off)
        desc = f"{fld} of {key} at {off} set to {v % 2 ** 64:#x} in a {len(data)}-byte file"
        ctx.step(f"arith: {desc}; {loader}")
        st, obj = t.load(newdata, loader)
        ctx.count("arith-edits")
        if st == "returned":
            on_structural_accept(ctx, lay, off, "arith", obj, loader, orig_bytes, desc, data, newdata)
    # swap two descriptors / duplicate a key
    if lay.num_items >= 2:
        a = HEADER
        b = HEADER + DESC
        sw = data[:a] + data[b:b + DESC] + data[a:a + DESC] + data[b + DESC:]
        st, obj = t.load(sw, "TableCollection.load")
        ctx.count("arith-edits")
        if st == "returned":
            ctx.violation("structural-accepted/descriptor-swap", "descriptors 0 and 1 swapped, file loaded")


def do_offsets(ctx, t, data, lay):
    """Systematic part of the data-region workload: every ragged offset column (also of EMPTY ragged columns, whose
    entries must all be zero) gets its first, second and last entries altered."""
    loaders = ["TableCollection.load", "tskit.load", "TableCollection.load(skip_reference_sequence)"]
    k = 0
    for it in lay.items:
        if not it["key"].endswith("_offset") or it["array_len"] == 0:
            continue
        ts_ = TYPE_SIZE[it["type"]]
        n = it["array_len"]
        for idx in sorted({0, 1, n // 2, n - 2, n - 1} & set(range(n))):
            off = it["array_start"] + idx * ts_
            for delta in (1, 7, 0x80):
                cur = int.from_bytes(data[off:off + ts_], "little")
                new = (cur + delta) % (1 << (8 * ts_))
                newdata = data[:off] + new.to_bytes(ts_, "little") + data[off + ts_:]
                loader = loaders[k % len(loaders)]
                k += 1
                desc = f"entry {idx} of {it['key']} ({n} entries) {cur}->{new}"
                ctx.step(f"offsets: {desc}; {loader}")
                st, obj = t.load(newdata, loader)
                ctx.count("offset-edits")
                if st == "returned":
                    why = well_formed(t, obj, loader)
                    ctx.count("data-accepted-wellformed-checks")
                    if why:
                        ctx.violation(f"data-accepted-malformed/{it['key']}", f"{loader}: {desc}: {why}")


def do_data(ctx, t, data, lay, orig_bytes):
    do_offsets(ctx, t, data, lay)
    rng = t.rng
    n = 300
    loaders = ["tskit.load", "TableCollection.load", "tskit.load", "TableCollection.load(skip_reference_sequence)"]
    start = lay.keys_end
    for k in range(n):
        off = rng.randrange(start, len(data))
        ln = rng.choice([1, 1, 2, 4, 8])
        ln = min(ln, len(data) - off)
        mode = rng.randrange(4)
        chunk = bytearray(data[off:off + ln])
        if mode == 0:
            chunk[rng.randrange(ln)] ^= 1 << rng.randrange(8)
        elif mode == 1:
            chunk = bytearray(rng.choice([b"\x00", b"\xff", b"\x7f", b"\x80"]) * ln)
        elif mode == 2:
            chunk = bytearray(rng.randrange(256) for _ in range(ln))
        else:
            chunk[-1] ^= 0x80
        if bytes(chunk) == data[off:off + ln]:
            continue
        newdata = data[:off] + bytes(chunk) + data[off + ln:]
        loader = loaders[k % len(loaders)]
        region, field, key = lay.classify(off)
        desc = f"{ln} bytes at {off} ({region}/{key}) {data[off:off + ln].hex()}->{bytes(chunk).hex()}"
        ctx.step(f"data: {desc}; {loader}")
        st, obj = t.load(newdata, loader)
        ctx.count("data-edits")
        ctx.feature("data-outcome:" + st)
        if st == "returned":
            why = well_formed(t, obj, loader)
            ctx.count("data-accepted-wellformed-checks")
            if why:
                ctx.violation(f"data-accepted-malformed/{key}", f"{loader}: {desc}: {why}")


F64_SPECIAL = [struct.pack("<Q", v) for v in (
    0x7FF8000000000000, 0xFFF8000000000000, 0x7FF0000000000001, 0x7FF4000000000000, 0xFFFFFFFFFFFFFFFF,  # NaNs
    0x7FF0000000000000, 0xFFF0000000000000, 0x0000000000000000, 0x8000000000000000,  # +-inf, 0.0, -0.0
    0x0000000000000001, 0x7FEFFFFFFFFFFFFF, 0xBFF0000000000000, 0x7FF874736B697421,  # denormal, max, -1.0, UNKNOWN_TIME
)]


def typed_values(typ, n_hint):
    """Replacement byte strings for one element of a kastore array of type code `typ`."""
    size = TYPE_SIZE[typ]
    if typ == 9:
        return F64_SPECIAL
    if typ == 8:
        return [struct.pack("<I", v) for v in (0x7FC00000, 0xFFC00000, 0x7F800000, 0xFF800000, 0, 0x80000000)]
    signed = typ in (0, 2, 4, 6)
    bits = 8 * size
    if signed:
        vals = [-1, -2, 0, n_hint, n_hint + 1, (1 << (bits - 1)) - 1, -(1 << (bits - 1))]
    else:
        vals = [0, 1, n_hint, n_hint + 1, (1 << (bits - 1)), (1 << bits) - 1]
    return [(v % (1 << bits)).to_bytes(size, "little") for v in vals if -(1 << (bits - 1)) <= v < (1 << bits)]


def do_typed(ctx, t, data, lay):
    """Typed special values in every numeric array of the data region.  Same oracle as for random data edits: the
    loader raises, or what it returns is well formed and round-trips."""
    loaders = list(LOADERS)
    k = t.rng.randrange(len(loaders))
    n_hint = max((it["array_len"] for it in lay.items), default=0)
    for it in lay.items:
        typ, n = it["type"], it["array_len"]
        if typ >= len(TYPE_SIZE) or n == 0 or it["key"] in ("uuid", "format/name"):
            continue
        if typ in (0, 1) and not it["key"].endswith(("format/version",)):
            continue  # int8/uint8 arrays are text or opaque blobs: covered by the random data edits
        size = TYPE_SIZE[typ]
        for idx in sorted({0, n // 2, n - 1}):
            off = it["array_start"] + idx * size
            for val in typed_values(typ, n_hint):
                if data[off:off + size] == val:
                    continue
                newdata = data[:off] + val + data[off + size:]
                loader = loaders[k % len(loaders)]
                k += 1
                desc = f"element {idx} of {it['key']} ({n} x type {typ}) {data[off:off + size].hex()}->{val.hex()}"
                ctx.step(f"typed: {desc}; {loader}")
                st, obj = t.load(newdata, loader)
                ctx.count("typed-edits")
                ctx.feature(f"typed:{it['key']}:{st}")
                if st == "returned":
                    why = well_formed(t, obj, loader)
                    ctx.count("data-accepted-wellformed-checks")
                    if why:
                        ctx.violation(f"data-accepted-malformed/{it['key']}", f"{loader}: {desc}: {why}")


def do_stream(ctx, t, data, lay, tc):
    """Three objects back-to-back; faults in object 1: objects before it still load, the faulty one raises."""
    rng = t.rng
    cuts = sorted({0, 1, 7, 8, 63, 64, lay.keys_start, lay.keys_end, len(data) // 2, len(data) - 1}
                  | {rng.randrange(len(data)) for _ in range(12)})
    for cut in cuts:
        stream = data + data[:cut]
        with open(t.path, "wb") as f:
            f.write(stream)
        ctx.step(f"stream: object 0 complete, object 1 truncated to {cut} bytes")
        with open(t.path, "rb") as f:
            ctx.count("stream-loads")
            try:
                a = tskit.TableCollection.load(f)
            except Exception as e:  # noqa: BLE001
                ctx.violation("stream/first-object-rejected", f"first (intact) object of a stream rejected: {e!r}")
                continue
            if tables_bytes(a) != tables_bytes(tc):
                ctx.violation("stream/first-object-differs", "first object of the stream loaded differently")
            try:
                tskit.TableCollection.load(f)
                ctx.violation("stream/truncated-second-accepted", f"second object truncated to {cut} bytes was loaded")
            except EOFError:
                if cut != 0:
                    ctx.violation("truncated/eof-for-nonempty-prefix", f"EOFError for a second object truncated to {cut} bytes")
            except Exception:  # noqa: BLE001
                if cut == 0:
                    ctx.violation("stream/end-of-stream-not-eof", "end of stream after one object did not raise EOFError")
