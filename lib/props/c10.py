"""C10 — truncated or corrupted files are rejected, never loaded as something else (fault enumeration).

The kastore layout of every dumped file is parsed independently (64-byte header, 64-byte descriptors, key block,
8-aligned arrays) so that every byte offset is classified as header field / header reserved / descriptor field /
descriptor reserved / key / padding / column data.  Faults:
  truncate   : EVERY proper prefix, for tskit.load and TableCollection.load (and object k of a multi-object stream); torn
               writes (right length, zeros from offset n on) at every array start and sampled offsets
  structural : every byte of header+descriptors+keys x {^0x01, ^0x80, =0x00, =0xFF}
  arith      : arithmetic-aware multi-byte edits of num_items, file_size, key_start/len, array_start/len; two-field edits
               (num_items=0 with file_size=64, file_size+k with k bytes appended, file_size-k with k bytes cut, both index
               arrays resized inside their alignment padding)
  data       : random 1-8 byte edits inside column data and padding
  typed      : every numeric array item (sequence_length, coordinates, times, ids, flags, offsets, index) gets its first /
               middle / last element replaced by the special values of its type (NaN with either sign and several payloads,
               +-inf, 0, -0.0, negative, denormal, largest double; -1, -2, n, n+1, INT_MAX, INT_MIN; 0 / all-ones for
               unsigned), through every loader
  boundary   : EXACT boundary values computed from the file itself in (nearly) every element: ids equal to the row count
               of the table they refer to (and +-1), offsets equal to the data length (+-1), coordinates equal to
               sequence_length / one ulp above / below, to the other end of their own interval, to a neighbouring element,
               times equal to another node's time (parent == child), one ulp either side of the stored value, adjacent
               elements exchanged
  repack     : one item removed / stored under another type / resized / duplicated / mis-ordered, whole tables shortened or
               extended consistently, both index arrays resized, columns exchanged - and the file RE-PACKED by an
               independent kastore writer so that all kastore-level checks pass and the tskit-level format checks decide;
               every offset column as uint64 (the TSK_DUMP_FORCE_OFFSET_64 encoding) must load equal
  stream     : three different objects back to back; truncation / structural / data faults in object 1 or 2 through the
               eager loaders, the lazy (skip_*) loaders positioned at the object's offset, pipes; the objects before the
               faulty one still load and compare equal
  large      : > 65535 rows, > 64 KiB ragged column / blobs: truncation at every array boundary (+-1) and at 2^k sizes,
               16-bit-aware descriptor edits, offset entries around 65535/65536
Oracle: prefix -> must raise (EOFError only for the empty prefix); structural -> must raise; data -> raises, or the object
is well-formed (tskit.load: passes the C02 validity predicate) and dump->load is the identity; repack -> must raise when the
format requirements written down in c10_ext.format_reasons are broken, otherwise as for data.
EITHER zones: which exception class is raised (an OSError 'Illegal seek' from the zip/HDF5 sniffing on a pipe counts as a
rejection); whether a file with duplicated / mis-ordered / unknown keys loads; whether an optional column may be absent.
A structural acceptance that is a known by-design mechanism must STILL be a well-formed object.
"""
import math
import os
import pathlib
import struct
import tempfile

import numpy as np
import tskit

from lib import gen
from lib.harness import case_rng
from lib.props import c10_ext as X
from lib.props.c02 import reject_reasons
from lib.tsk import tables_bytes, to_tables

ID = "C10"
HEADER = 64
DESC = 64
TYPE_SIZE = [1, 1, 2, 2, 4, 4, 8, 8, 4, 8]  # int8,uint8,int16,uint16,int32,uint32,int64,uint64,f32,f64

# columns the file format documents as optional (absent -> default), used only to NAME the mechanism of a known
# by-design acceptance; anything else accepted after a structural alteration is a violation.
OPTIONAL_KEYS = {
    "metadata", "metadata_schema", "time_units", "mutations/time", "edges/metadata", "edges/metadata_offset",
    "migrations/metadata", "migrations/metadata_offset", "individuals/parents", "individuals/parents_offset",
    "indexes/edge_insertion_order", "indexes/edge_removal_order", "reference_sequence/data", "reference_sequence/url",
    "reference_sequence/metadata", "reference_sequence/metadata_schema",
    "nodes/metadata_schema", "edges/metadata_schema", "sites/metadata_schema", "mutations/metadata_schema",
    "individuals/metadata_schema", "populations/metadata_schema", "migrations/metadata_schema",
}
BLOB_KEYS = {"metadata", "metadata_schema", "time_units", "reference_sequence/data", "reference_sequence/url",
             "reference_sequence/metadata", "reference_sequence/metadata_schema", "nodes/metadata_schema",
             "edges/metadata_schema", "sites/metadata_schema", "mutations/metadata_schema", "individuals/metadata_schema",
             "populations/metadata_schema", "migrations/metadata_schema"}


class Layout:
    def __init__(self, data):
        self.size = len(data)
        (self.num_items,) = struct.unpack_from("<I", data, 12)
        (self.file_size,) = struct.unpack_from("<Q", data, 16)
        self.items = []
        for j in range(self.num_items):
            off = HEADER + j * DESC
            typ = data[off]
            ks, kl, as_, al = struct.unpack_from("<QQQQ", data, off + 8)
            key = data[ks:ks + kl].decode("utf8", "replace")
            self.items.append({"j": j, "type": typ, "key_start": ks, "key_len": kl, "array_start": as_, "array_len": al,
                               "key": key, "nbytes": al * TYPE_SIZE[typ] if typ < len(TYPE_SIZE) else 0})
        self.keys_start = HEADER + self.num_items * DESC
        self.keys_end = self.items[-1]["key_start"] + self.items[-1]["key_len"] if self.items else self.keys_start
        self.by_key = {it["key"]: it for it in self.items}

    def classify(self, off):
        """(region, field, item key)"""
        if off < HEADER:
            if off < 8:
                return ("header", "magic", None)
            if off < 10:
                return ("header", "version_major", None)
            if off < 12:
                return ("header-reserved", "version_minor", None)
            if off < 16:
                return ("header", "num_items", None)
            if off < 24:
                return ("header", "file_size", None)
            return ("header-reserved", "reserved", None)
        if off < self.keys_start:
            j, r = divmod(off - HEADER, DESC)
            key = self.items[j]["key"]
            if r == 0:
                return ("descriptor", "type", key)
            if r < 8:
                return ("descriptor-reserved", "reserved", key)
            if r < 40:
                return ("descriptor", ["key_start", "key_len", "array_start", "array_len"][(r - 8) // 8], key)
            return ("descriptor-reserved", "reserved", key)
        if off < self.keys_end:
            for it in self.items:
                if it["key_start"] <= off < it["key_start"] + it["key_len"]:
                    return ("key", "key", it["key"])
        for it in self.items:
            if it["array_start"] <= off < it["array_start"] + it["nbytes"]:
                return ("data", "data", it["key"])
        return ("padding", "padding", None)

    def array(self, data, key):
        it = self.by_key[key]
        return np.frombuffer(data[it["array_start"]:it["array_start"] + it["nbytes"]],
                             dtype=["<i1", "<u1", "<i2", "<u2", "<i4", "<u4", "<i8", "<u8", "<f4", "<f8"][it["type"]])


def make_file(rng, big=False, variant=0):
    """variant (= file number): the optional parts of a file are FORCED on a fixed share of files instead of being left
    to chance (a loaded machine visits few files): bit 0 reference sequence, bit 1 top-level metadata + schema,
    bits 0-1 == 3 also url / reference metadata; variant % 8 == 5 is a file whose every table is EMPTY."""
    if variant % 8 == 5:
        m = gen.gen_full(rng, max_nodes=3, max_bp=1, max_sites=1)  # keeps RNG use comparable; only L is used
        from lib.model import RowModel
        m = RowModel(m.L)
        tc = to_tables(m)
        if variant % 16 == 5:
            tc.provenances.add_row("{}", timestamp="2020")
        tc.build_index()
        return m, tc
    m = gen.gen_full(rng, max_nodes=10 if big else 6, max_bp=4 if big else 2, max_sites=4 if big else 2, pops=True,
                     migrations=rng.random() < 0.6, meta=rng.random() < 0.7)
    tc = to_tables(m)
    if variant & 2:
        tc.metadata_schema = tskit.MetadataSchema({"codec": "json"})
        tc.metadata = {"a": rng.randint(0, 99)}
    if rng.random() < 0.5:
        tc.nodes.metadata_schema = tskit.MetadataSchema(None)
    if rng.random() < 0.4:
        tc.time_units = rng.choice(["generations", "years", "x"])
    if variant & 1:
        tc.reference_sequence.data = "ACGT" * rng.randint(0, 3) + "A" * rng.randint(0, 3)
        if variant & 2:
            tc.reference_sequence.url = "http://x"
            tc.reference_sequence.metadata_schema = tskit.MetadataSchema({"codec": "json"})
            tc.reference_sequence.metadata = {"r": rng.randint(0, 9)}
    if rng.random() < 0.7:
        tc.provenances.add_row("{}", timestamp="2020")
    tc.build_index()
    return m, tc


def dump_bytes(tc):
    with tempfile.NamedTemporaryFile(dir=SHM) as f:
        tc.dump(f.name)
        return open(f.name, "rb").read()


SHM = "/dev/shm" if os.path.isdir("/dev/shm") else None

LOADERS = {
    "tskit.load": lambda p: tskit.load(p),
    "TableCollection.load": lambda p: tskit.TableCollection.load(p),
    "tskit.load(skip_tables)": lambda p: tskit.load(p, skip_tables=True),
    "TableCollection.load(skip_reference_sequence)": lambda p: tskit.TableCollection.load(p, skip_reference_sequence=True),
    # the remaining option combinations and argument forms of the two public loaders
    "tskit.load(skip_reference_sequence)": lambda p: tskit.load(p, skip_reference_sequence=True),
    "TableCollection.load(skip_tables)": lambda p: tskit.TableCollection.load(p, skip_tables=True),
    "tskit.load(skip_tables,skip_reference_sequence)": lambda p: tskit.load(p, skip_tables=True, skip_reference_sequence=True),
    "tskit.load(fileobj)": lambda p: _with_file(p, tskit.load),
    "TableCollection.load(fileobj)": lambda p: _with_file(p, tskit.TableCollection.load),
    "tskit.load(pathlib)": lambda p: tskit.load(pathlib.Path(p)),
}
REUSED = "TableCollection.load(_tskit low-level,reused object)"
# every loader form: the ten above, the audit's argument forms / entry points (c10_ext), and the re-used low-level object
ALL = {name: (fn, "path") for name, fn in LOADERS.items()}
ALL.update(X.EXTRA_LOADERS)
ALL[REUSED] = (None, "reused")
ALL_NAMES = list(ALL)
# read paths that work on a non-seekable stream are the eager ones only (the lazy path documents that it needs seeking)
TS_NAMES = [n for n in ALL_NAMES if X.is_ts_loader(n) and "skip_tables" not in n]


def _with_file(p, fn):
    with open(p, "rb") as f:
        return fn(f)


QUICK_FILES = 24
KINDS = ["repack", "boundary", "typed", "stream", "arith", "data", "truncate",
         "structural:1", "structural:128", "structural:zero", "structural:ff"]


def cases(tier, seed):
    nfiles = QUICK_FILES if tier == "quick" else 1500
    for f in range(nfiles):
        if f % 6 == 1:
            yield {"gen": "large", "file": f, "kind": "large"}
        # rotate the order so that no worker shard (idx % nshards) keeps meeting the same kind
        r = f % len(KINDS)
        for kind in KINDS[r:] + KINDS[:r]:
            yield {"gen": "file", "file": f, "kind": kind}


class Tester:
    STEP_EVERY = 16  # the journal is a file write; one entry names a batch of loads (the replay re-runs the whole case)

    def __init__(self, ctx, case, rng):
        self.ctx = ctx
        self.case = case
        self.rng = rng
        self.fd, self.path = tempfile.mkstemp(dir=SHM, suffix=".trees")
        os.close(self.fd)
        self.good = None
        self.nsteps = 0
        self.loaders = ALL_NAMES

    def set_good(self, data):
        fd, self.good = tempfile.mkstemp(dir=SHM, suffix=".good.trees")
        with os.fdopen(fd, "wb") as f:
            f.write(data)

    def close(self):
        for p in (self.path, self.good):
            try:
                if p:
                    os.unlink(p)
            except OSError:
                pass

    def step(self, desc):
        if self.nsteps % self.STEP_EVERY == 0:
            self.ctx.step(f"{desc} [and the {self.STEP_EVERY - 1} loads after it]")
        self.nsteps += 1

    def load(self, data, loader):
        """returns ('raised', exc) or ('returned', obj)"""
        fn, takes = ALL[loader]
        if takes != "data":
            with open(self.path, "wb") as f:
                f.write(data)
        self.ctx.count("loads")
        try:
            if takes == "path":
                obj = fn(self.path)
            elif takes == "data":
                obj = fn(data)
            else:
                obj = X.ll_reused(self.path, self.good)
        except Exception as e:  # noqa: BLE001 - any exception is a rejection
            return "raised", e
        want = tskit.TreeSequence if X.is_ts_loader(loader) else tskit.TableCollection
        if not isinstance(obj, want):
            # neither an exception nor the documented return type (e.g. None after a swallowed error)
            self.ctx.violation("loader-returned-non-object/" + loader.split("(")[0],
                               f"{loader} returned {obj!r} instead of raising or returning a {want.__name__} "
                               f"for a {len(data)}-byte input")
            return "raised", TypeError("non-object")
        return "returned", obj


def tables_of(obj):
    return obj.dump_tables() if isinstance(obj, tskit.TreeSequence) else obj


def numeric_model(tc):
    """RowModel of the numeric/structural columns only.  Text columns (states, schemas, provenance, url, time units) are
    opaque bytes to the C library; whether they decode as UTF-8 / JSON is not part of well-formedness here."""
    from lib.model import RowModel
    m = RowModel(tc.sequence_length)
    t = tc.nodes
    m.nodes = [(int(t.flags[j]), float(t.time[j]), int(t.population[j]), int(t.individual[j]), b"") for j in range(t.num_rows)]
    t = tc.edges
    m.edges = [(float(t.left[j]), float(t.right[j]), int(t.parent[j]), int(t.child[j]), b"") for j in range(t.num_rows)]
    t = tc.sites
    m.sites = [(float(t.position[j]), "", b"") for j in range(t.num_rows)]
    t = tc.mutations
    unk = tskit.is_unknown_time(t.time)
    m.mutations = [(int(t.site[j]), int(t.node[j]), "", int(t.parent[j]), None if unk[j] else float(t.time[j]), b"") for j in range(t.num_rows)]
    t = tc.individuals
    po = t.parents_offset
    m.individuals = [(int(t.flags[j]), (), tuple(int(x) for x in t.parents[po[j]:po[j + 1]]), b"") for j in range(t.num_rows)]
    m.populations = [(b"",)] * tc.populations.num_rows
    t = tc.migrations
    m.migrations = [(float(t.left[j]), float(t.right[j]), int(t.node[j]), int(t.source[j]), int(t.dest[j]), float(t.time[j]), b"")
                    for j in range(t.num_rows)]
    return m


def offsets_ok(tc):
    for tname, cols in (("nodes", ["metadata"]), ("edges", ["metadata"]), ("sites", ["ancestral_state", "metadata"]),
                        ("mutations", ["derived_state", "metadata"]), ("individuals", ["location", "parents", "metadata"]),
                        ("populations", ["metadata"]), ("migrations", ["metadata"]), ("provenances", ["timestamp", "record"])):
        t = getattr(tc, tname)
        for c in cols:
            off = getattr(t, c + "_offset")
            data = getattr(t, c)
            if len(off) != t.num_rows + 1 or off[0] != 0 or off[-1] != len(data) or np.any(np.diff(off.astype(np.int64)) < 0):
                return f"{tname}.{c}_offset malformed"
    return None


def columns_ok(tc):
    """Every fixed-width column has exactly num_rows entries (read through the raw accessors)."""
    for tname, cols in (("nodes", ["flags", "time", "population", "individual"]), ("edges", ["left", "right", "parent", "child"]),
                        ("sites", ["position"]), ("mutations", ["site", "node", "parent", "time"]),
                        ("individuals", ["flags"]), ("migrations", ["left", "right", "node", "source", "dest", "time"])):
        t = getattr(tc, tname)
        for c in cols:
            if len(getattr(t, c)) != t.num_rows:
                return f"{tname}.{c} has {len(getattr(t, c))} entries for {t.num_rows} rows"
    if tc.has_index():
        if len(tc.indexes.edge_insertion_order) != tc.edges.num_rows or len(tc.indexes.edge_removal_order) != tc.edges.num_rows:
            return "index arrays do not have one entry per edge"
    return None


def file_arrays(data):
    lay = Layout(data)
    return {it["key"]: data[it["array_start"]:it["array_start"] + it["nbytes"]] for it in lay.items if it["key"] != "uuid"}


def well_formed(t, obj, loader, large=False):
    """For data-region acceptances: returns None or a reason string."""
    try:
        tc = tables_of(obj)
        why = offsets_ok(tc) or columns_ok(tc)
    except Exception as e:  # noqa: BLE001 - e.g. a column whose recorded length cannot even be allocated
        return f"columns of the returned object are not readable: {e!r}"
    if why:
        return why
    if isinstance(obj, tskit.TreeSequence) and not large:
        try:
            back = numeric_model(tc)
        except Exception as e:  # noqa: BLE001
            return f"numeric columns not readable: {e!r}"
        idx = None
        if tc.has_index():
            idx = ([int(x) for x in tc.indexes.edge_insertion_order], [int(x) for x in tc.indexes.edge_removal_order])
        rs = reject_reasons(back, idx)
        if rs:
            return f"tskit.load returned a tree sequence violating {sorted(set(rs))}"
    if isinstance(obj, tskit.TreeSequence):
        try:
            for tree in obj.trees():
                tree.num_edges
        except Exception as e:  # noqa: BLE001
            return f"returned tree sequence not usable: {e!r}"
    # the loaders themselves document a positive genome length (TSK_ERR_BAD_SEQUENCE_LENGTH): an object without one is
    # not something dump() can have written
    L = tc.sequence_length
    if not (L > 0):
        return f"returned object has sequence_length={L!r}"
    # dump -> load -> dump is the identity on every stored array (compared as file bytes, uuid excluded), and the
    # reloaded object compares equal to the returned one
    try:
        b1 = dump_bytes(tc)
        with tempfile.NamedTemporaryFile(dir=SHM) as f:
            f.write(b1)
            f.flush()
            again = tskit.TableCollection.load(f.name)
        b2 = dump_bytes(again)
        if file_arrays(b1) != file_arrays(b2):
            return "dump->load->dump of the returned object is not the identity"
        if not tc.equals(again):
            return "the returned object does not compare equal to its own dump->load round trip"
    except Exception as e:  # noqa: BLE001
        return f"returned object cannot be dumped and reloaded: {e!r}"
    return None


def snapshot(obj):
    tc = tables_of(obj)
    idx = None
    if tc.has_index():
        idx = (tc.indexes.edge_insertion_order.tobytes(), tc.indexes.edge_removal_order.tobytes())
    return tc, idx


def same_as(obj, orig, loader):
    """Does the object equal what the same loader returned for the unmodified file (tables, top level, reference
    sequence, index)?"""
    try:
        tc, idx = snapshot(obj)
        otc, oidx = orig[loader]
        return bool(tc.equals(otc)) and idx == oidx
    except Exception:  # noqa: BLE001
        return False


def col_class(key):
    if key is None:
        return "-"
    return key


def by_design(ctx, t, key, msg, obj, loader):
    """A known by-design acceptance (recorded under its mechanism key).  The format having no checksum explains that the
    alteration goes unnoticed - not a malformed object: that is a violation under its own key."""
    ctx.violation(key, msg)
    why = well_formed(t, obj, loader)
    ctx.count("bydesign-wellformed-checks")
    if why:
        ctx.violation("structural-accepted-malformed/" + key.split("/")[1], f"{msg}: {why}")


def on_structural_accept(ctx, t, lay, off, what, obj, loader, orig, desc, data, newdata):
    """A structurally altered file loaded. Name the mechanism."""
    region, field, key = lay.classify(off)
    if region in ("header-reserved", "descriptor-reserved"):
        if same_as(obj, orig, loader):
            ctx.violation(f"structural-accepted/reserved-byte-ignored/{region}", f"{loader}: {desc}: loads equal to the original")
        else:
            ctx.violation(f"structural-accepted/{region}/changed-object", f"{loader}: {desc}: loads as a DIFFERENT object")
        return
    if region in ("key", "descriptor") and key is not None and not X.loader_reads(key, loader):
        # this read path never consults the column at all (format/* and the top-level items are always read)
        by_design(ctx, t, f"structural-accepted/column-not-read-by-skip-path/{region}", f"{loader}: {desc}", obj, loader)
        return
    if region == "key":
        if key in OPTIONAL_KEYS:
            by_design(ctx, t, f"structural-accepted/optional-column-key-renamed/{key}",
                      f"{loader}: {desc}: optional column silently dropped", obj, loader)
        else:
            ctx.violation(f"structural-accepted/key/{key}", f"{loader}: {desc}")
        return
    if region == "descriptor" and field in ("array_len", "type"):
        # The one by-design hole of the (checksum-free) format: a descriptor edit whose new byte extent still occupies the
        # same 8-aligned slot, so that the strict packing test of the loader cannot see it.
        try:
            nl = Layout(newdata)
            it_old = next(i for i in lay.items if i["key"] == key)
            it_new = nl.items[it_old["j"]]
            pad = lambda n: (n + 7) // 8 * 8  # noqa: E731
            last = it_old["j"] == max(i["j"] for i in lay.items if i["array_start"] == max(x["array_start"] for x in lay.items))
            same_slot = pad(it_new["nbytes"]) == pad(it_old["nbytes"]) and not last
        except Exception:  # noqa: BLE001
            same_slot = False
        # ... and only for columns whose content the loader cannot cross-check: free-form uint8 blobs and ragged offset
        # columns (stored as uint32 or uint64 by design).  A fixed-width data column has a prescribed type and a length
        # tied to the table's row count, so an edit there must be refused.
        if same_slot and (key in BLOB_KEYS or key.endswith("_offset")):
            by_design(ctx, t, f"structural-accepted/descriptor-edit-preserves-packing/{field}",
                      f"{loader}: {desc}: {key} now {it_new['array_len']} x type {it_new['type']} in the same 8-aligned slot",
                      obj, loader)
            return
    ctx.violation(f"structural-accepted/{region}/{field}/{col_class(key)}", f"{loader}: {desc}")


def baseline(ctx, t, data, loaders):
    orig = {}
    for ld in loaders:
        st, obj = t.load(data, ld)
        if st != "returned":
            ctx.violation("baseline/unmodified-file-rejected", f"{ld} rejected an unmodified dump: {obj!r}")
            return None
        orig[ld] = snapshot(obj)
    return orig


def run_case(case, ctx):
    if case["kind"] == "large":
        return do_large(case, ctx)
    rng = case_rng({"file": case["file"], "seed": case["seed"], "tier": case["tier"]})
    m, tc = make_file(rng, big=case["file"] % 4 == 0, variant=case["file"])
    data = dump_bytes(tc)
    lay = Layout(data)
    assert lay.file_size == len(data)
    assert X.pack(X.parse_items(data)) == data, "independent kastore writer does not reproduce dump()'s bytes"
    kind = case["kind"]
    ctx.sig((m.signature(), kind, len(data)), nontrivial=True)
    ctx.feature("kind:" + kind.split(":")[0])
    for tag, on in (("refseq", tc.has_reference_sequence()), ("top-metadata", len(tc.metadata_bytes) > 0),
                    ("all-tables-empty", tc.nodes.num_rows == 0), ("migrations", tc.migrations.num_rows > 0)):
        if on:
            ctx.feature("file:" + tag)
    if case["file"] < 1 and kind == "truncate":
        ctx.sample({"case": case, "file_size": len(data), "num_items": lay.num_items, "keys": [it["key"] for it in lay.items][:12]})
    t = Tester(ctx, case, case_rng(case))
    try:
        t.set_good(data)
        orig = baseline(ctx, t, data, ALL_NAMES)
        if orig is None:
            return
        if kind == "truncate":
            do_torn(ctx, t, data, lay)
            do_truncate(ctx, t, data, lay)
        elif kind.startswith("structural"):
            do_structural(ctx, t, data, lay, kind.split(":")[1], orig)
        elif kind == "arith":
            do_arith(ctx, t, data, lay, orig)
        elif kind == "data":
            do_data(ctx, t, data, lay, orig)
        elif kind == "typed":
            do_typed(ctx, t, data, lay)
        elif kind == "boundary":
            do_boundary(ctx, t, data, lay)
        elif kind == "repack":
            do_repack(ctx, t, data, lay, orig)
        else:
            do_stream(ctx, t, data, lay, tc, case)
    finally:
        t.close()


def do_truncate(ctx, t, data, lay):
    loaders = ALL_NAMES  # eager and lazy (skip_tables / skip_reference_sequence) read paths, every argument form
    for n in range(len(data)):
        # every loader near both ends of the file (header / last item), one loader in rotation elsewhere
        ld = loaders[n % len(loaders)] if 200 < n < len(data) - 80 else None
        for loader in ([ld] if ld else loaders):
            t.step(f"truncate to {n} of {len(data)} bytes; {loader}")
            st, obj = t.load(data[:n], loader)
            ctx.count("truncations")
            if "pipe" in loader or "socket" in loader:
                ctx.count("truncations-nonseekable")
            if st == "returned":
                ctx.violation("truncated-accepted/" + lay.classify(n)[0], f"{loader} loaded a {n}-byte prefix of a {len(data)}-byte file")
            elif n > 0 and isinstance(obj, EOFError):
                ctx.violation("truncated/eof-for-nonempty-prefix", f"{loader} raised EOFError for a non-empty {n}-byte prefix (end-of-stream must be distinct from truncation)")
            elif n == 0 and not isinstance(obj, EOFError):
                ctx.count("empty-prefix-non-eof")


def do_torn(ctx, t, data, lay):
    """A write that stopped after the file had been extended: the right length, but zeros from offset n on.  Zeros inside
    the header / descriptors / keys always destroy a required key (uuid is the last one) -> must raise; zeros from inside
    the arrays on -> data-region rule."""
    rng = t.rng
    cuts = sorted({0, 8, 16, 24, 64, 65, lay.keys_start, lay.keys_end - 1, lay.keys_end, len(data) - 36, len(data) - 1}
                  | {it["array_start"] for it in lay.items if it["nbytes"]} | {rng.randrange(len(data)) for _ in range(24)})
    for k, n in enumerate(c for c in cuts if 0 <= c < len(data)):
        newdata = data[:n] + bytes(len(data) - n)
        if newdata == data:
            continue
        loader = ALL_NAMES[(k + n) % len(ALL_NAMES)]
        t.step(f"torn write: zeros from byte {n} to the end of a {len(data)}-byte file; {loader}")
        st, obj = t.load(newdata, loader)
        ctx.count("torn-writes")
        if st != "returned":
            continue
        if n < lay.keys_end:
            ctx.violation("torn-write-accepted/" + lay.classify(n)[0], f"{loader}: zeros from byte {n} (inside {lay.classify(n)}) to the end: file loaded")
        else:
            why = well_formed(t, obj, loader)
            ctx.count("data-accepted-wellformed-checks")
            if why:
                ctx.violation("torn-write-accepted-malformed", f"{loader}: zeros from byte {n} ({lay.classify(n)}) to the end: {why}")


PATTERNS = {"1": lambda b: b ^ 0x01, "128": lambda b: b ^ 0x80, "zero": lambda b: 0, "ff": lambda b: 0xFF}


def do_structural(ctx, t, data, lay, pat, orig):
    fn = PATTERNS[pat]
    loaders = ALL_NAMES
    rot = {"1": 0, "128": 7, "zero": 13, "ff": 19}[pat]  # the four patterns meet a byte through different loaders
    for off in range(lay.keys_end):
        nb = fn(data[off])
        if nb == data[off]:
            continue
        newdata = data[:off] + bytes([nb]) + data[off + 1:]
        loader = loaders[(off + rot) % len(loaders)] if off % 3 else "TableCollection.load"
        region, field, key = lay.classify(off)
        if region == "descriptor-reserved" and pat in ("128", "ff") and (off + t.case["file"] + rot) % 3:
            # reserved descriptor bytes (half of the structural region, a known by-design acceptance): every byte with
            # ^0x01 (and =0x00 where non-zero), a rotating third with the other two patterns
            continue
        desc = f"byte {off} ({region}/{field}/{key}) {data[off]:#04x}->{nb:#04x} in a {len(data)}-byte file"
        t.step(f"structural: {desc}; {loader}")
        st, obj = t.load(newdata, loader)
        ctx.count("structural-edits")
        ctx.feature("region:" + region)
        if st == "returned":
            on_structural_accept(ctx, t, lay, off, pat, obj, loader, orig, desc, data, newdata)


def put(data, off, fmt, v):
    return data[:off] + struct.pack(fmt, v & (2 ** (8 * struct.calcsize(fmt)) - 1)) + data[off + struct.calcsize(fmt):]


def do_arith(ctx, t, data, lay, orig):
    edits = []
    for d in (-1, 1, 2, -lay.num_items, 2 ** 31, 2 ** 32 - lay.num_items):
        edits.append((12, "<I", lay.num_items + d, "num_items"))
    for d in (-1, 1, 8, -8, 2 ** 32, 2 ** 63, -len(data), len(data)):
        edits.append((16, "<Q", lay.file_size + d, "file_size"))
    for it in lay.items:
        base = HEADER + it["j"] * DESC
        ts = TYPE_SIZE[it["type"]]
        for fld, o, cur in (("key_start", 8, it["key_start"]), ("key_len", 16, it["key_len"]),
                            ("array_start", 24, it["array_start"]), ("array_len", 32, it["array_len"])):
            vals = [cur + 1, cur - 1, cur + 8, cur * 2, 0, 2 ** 64 - 1, cur + 2 ** 63, cur + 2 ** 32, cur + 2 ** 62]
            if fld == "array_len" and ts > 1:
                vals += [cur + 2 ** 64 // ts, cur + 2 ** 63 // ts * 1, cur + (2 ** 64 // ts) * (ts - 1)]
            for v in vals:
                if v % 2 ** 64 != cur:
                    edits.append((base + o, "<Q", v, fld))
        for v in range(0, 12):
            if v != it["type"]:
                edits.append((base, "<B", v, "type"))
    loaders = ALL_NAMES
    for k, (off, fmt, v, fld) in enumerate(edits):
        newdata = put(data, off, fmt, v)
        loader = loaders[k % len(loaders)]
        region, field, key = lay.classify(off)
        desc = f"{fld} of {key} at {off} set to {v % 2 ** 64:#x} in a {len(data)}-byte file"
        t.step(f"arith: {desc}; {loader}")
        st, obj = t.load(newdata, loader)
        ctx.count("arith-edits")
        if st == "returned":
            on_structural_accept(ctx, t, lay, off, "arith", obj, loader, orig, desc, data, newdata)
    # swap two descriptors / duplicate a key
    if lay.num_items >= 2:
        a = HEADER
        b = HEADER + DESC
        sw = data[:a] + data[b:b + DESC] + data[a:a + DESC] + data[b + DESC:]
        st, obj = t.load(sw, "TableCollection.load")
        ctx.count("arith-edits")
        if st == "returned":
            ctx.violation("structural-accepted/descriptor-swap", "descriptors 0 and 1 swapped, file loaded")
    # two fields (or a field and the file's real length) changed consistently with each other
    combos = [("num_items=0 and file_size=64, rest of the file left in place", put(put(data, 12, "<I", 0), 16, "<Q", 64)),
              ("num_items=0, file_size=64 and the file cut to its 64-byte header", put(put(data, 12, "<I", 0), 16, "<Q", 64)[:64])]
    for k in (1, 7, 8, 64):
        combos.append((f"file_size+{k} with {k} zero bytes appended", put(data, 16, "<Q", lay.file_size + k) + bytes(k)))
        combos.append((f"{k} bytes appended, header unchanged", None if k != 8 else data + bytes(k)))
        combos.append((f"file_size-{k} with the last {k} bytes cut", put(data, 16, "<Q", lay.file_size - k)[:-k]))
    ia, ib = lay.by_key.get("indexes/edge_insertion_order"), lay.by_key.get("indexes/edge_removal_order")
    if ia and ib and ia["array_len"] > 0:
        n = ia["array_len"]
        new = n + 1 if n % 2 else n - 1  # stays inside the same 8-aligned slot of an int32 array
        nd = put(put(data, HEADER + ia["j"] * DESC + 32, "<Q", new), HEADER + ib["j"] * DESC + 32, "<Q", new)
        combos.append((f"array_len of BOTH index arrays {n}->{new} (same aligned slot, {n} edges)", nd))
    for k, (desc, newdata) in enumerate(combos):
        if newdata is None:
            continue
        for loader in (loaders[(3 * k) % len(loaders)], "TableCollection.load", "tskit.load(fileobj)", "tskit.load(pipe fd)",
                       "tskit.load(skip_tables)"):
            t.step(f"arith-combo: {desc}; {loader}")
            st, obj = t.load(newdata, loader)
            ctx.count("arith-combo-edits")
            if st != "returned":
                continue
            if "appended, header unchanged" in desc:
                # bytes after the end of a complete store are the next object of a stream, not part of this one
                if not same_as(obj, orig, loader):
                    ctx.violation("trailing-bytes/changed-object", f"{loader}: {desc}: loads as a different object")
                continue
            if "index arrays" in desc and "skip_tables" in loader:
                continue  # the index items are not read on this path (known by-design class, nothing to add)
            ctx.violation("structural-accepted/two-field-edit/" + desc.split(" ")[0].split("=")[0].split("+")[0].split("-")[0],
                          f"{loader}: {desc}: file loaded")


def do_offsets(ctx, t, data, lay):
    """Systematic part of the data-region workload: every ragged offset column (also of EMPTY ragged columns, whose
    entries must all be zero) gets its first, second and last entries altered."""
    loaders = ["TableCollection.load", "tskit.load", "TableCollection.load(skip_reference_sequence)",
               "TableCollection.load(_tskit low-level)", "TableCollection.load(pipe fileobj)", REUSED]
    k = 0
    for it in lay.items:
        if not it["key"].endswith("_offset") or it["array_len"] == 0:
            continue
        ts_ = TYPE_SIZE[it["type"]]
        n = it["array_len"]
        for idx in sorted({0, 1, n // 2, n - 2, n - 1} & set(range(n))):
            off = it["array_start"] + idx * ts_
            for delta in (1, 7, 0x80):
                cur = int.from_bytes(data[off:off + ts_], "little")
                new = (cur + delta) % (1 << (8 * ts_))
                newdata = data[:off] + new.to_bytes(ts_, "little") + data[off + ts_:]
                loader = loaders[k % len(loaders)]
                k += 1
                desc = f"entry {idx} of {it['key']} ({n} entries) {cur}->{new}"
                t.step(f"offsets: {desc}; {loader}")
                st, obj = t.load(newdata, loader)
                ctx.count("offset-edits")
                if st == "returned":
                    why = well_formed(t, obj, loader)
                    ctx.count("data-accepted-wellformed-checks")
                    if why:
                        ctx.violation(f"data-accepted-malformed/{it['key']}", f"{loader}: {desc}: {why}")


def do_data(ctx, t, data, lay, orig):
    do_offsets(ctx, t, data, lay)
    rng = t.rng
    n = 300
    loaders = ["tskit.load", "TableCollection.load", "tskit.load", "TableCollection.load(skip_reference_sequence)",
               "tskit.load(int fd)", "TableCollection.load(raw fileobj)", "tskit.load(socket)", "TreeSequence.load",
               "tskit.load(_tskit low-level)"]
    start = lay.keys_end
    if start >= len(data):
        return
    for k in range(n):
        off = rng.randrange(start, len(data))
        ln = rng.choice([1, 1, 2, 4, 8])
        ln = min(ln, len(data) - off)
        mode = rng.randrange(4)
        chunk = bytearray(data[off:off + ln])
        if mode == 0:
            chunk[rng.randrange(ln)] ^= 1 << rng.randrange(8)
        elif mode == 1:
            chunk = bytearray(rng.choice([b"\x00", b"\xff", b"\x7f", b"\x80"]) * ln)
        elif mode == 2:
            chunk = bytearray(rng.randrange(256) for _ in range(ln))
        else:
            chunk[-1] ^= 0x80
        if bytes(chunk) == data[off:off + ln]:
            continue
        newdata = data[:off] + bytes(chunk) + data[off + ln:]
        loader = loaders[k % len(loaders)]
        region, field, key = lay.classify(off)
        desc = f"{ln} bytes at {off} ({region}/{key}) {data[off:off + ln].hex()}->{bytes(chunk).hex()}"
        t.step(f"data: {desc}; {loader}")
        st, obj = t.load(newdata, loader)
        ctx.count("data-edits")
        ctx.feature("data-outcome:" + st)
        if st == "returned":
            why = well_formed(t, obj, loader)
            ctx.count("data-accepted-wellformed-checks")
            if why:
                ctx.violation(f"data-accepted-malformed/{key}", f"{loader}: {desc}: {why}")


F64_SPECIAL = [struct.pack("<Q", v) for v in (
    0x7FF8000000000000, 0xFFF8000000000000, 0x7FF0000000000001, 0x7FF4000000000000, 0xFFFFFFFFFFFFFFFF,  # NaNs
    0x7FF0000000000000, 0xFFF0000000000000, 0x0000000000000000, 0x8000000000000000,  # +-inf, 0.0, -0.0
    0x0000000000000001, 0x7FEFFFFFFFFFFFFF, 0xBFF0000000000000, 0x7FF874736B697421,  # denormal, max, -1.0, UNKNOWN_TIME
)]


def typed_values(typ, n_hint):
    """Replacement byte strings for one element of a kastore array of type code `typ`."""
    size = TYPE_SIZE[typ]
    if typ == 9:
        return F64_SPECIAL
    if typ == 8:
        return [struct.pack("<I", v) for v in (0x7FC00000, 0xFFC00000, 0x7F800000, 0xFF800000, 0, 0x80000000)]
    signed = typ in (0, 2, 4, 6)
    bits = 8 * size
    if signed:
        vals = [-1, -2, 0, n_hint, n_hint + 1, (1 << (bits - 1)) - 1, -(1 << (bits - 1))]
    else:
        vals = [0, 1, n_hint, n_hint + 1, (1 << (bits - 1)), (1 << bits) - 1]
    return [(v % (1 << bits)).to_bytes(size, "little") for v in vals if -(1 << (bits - 1)) <= v < (1 << bits)]


def do_typed(ctx, t, data, lay):
    """Typed special values in every numeric array of the data region.  Same oracle as for random data edits: the
    loader raises, or what it returns is well formed and round-trips."""
    loaders = ALL_NAMES
    k = t.rng.randrange(len(loaders))
    n_hint = max((it["array_len"] for it in lay.items), default=0)
    for it in lay.items:
        typ, n = it["type"], it["array_len"]
        if typ >= len(TYPE_SIZE) or n == 0 or it["key"] in ("uuid", "format/name"):
            continue
        if typ in (0, 1) and not it["key"].endswith(("format/version",)):
            continue  # int8/uint8 arrays are text or opaque blobs: covered by the random data edits
        size = TYPE_SIZE[typ]
        for idx in sorted({0, n // 2, n - 1}):
            off = it["array_start"] + idx * size
            for val in typed_values(typ, n_hint):
                if data[off:off + size] == val:
                    continue
                newdata = data[:off] + val + data[off + size:]
                loader = loaders[k % len(loaders)]
                k += 1
                desc = f"element {idx} of {it['key']} ({n} x type {typ}) {data[off:off + size].hex()}->{val.hex()}"
                t.step(f"typed: {desc}; {loader}")
                st, obj = t.load(newdata, loader)
                ctx.count("typed-edits")
                ctx.feature(f"typed:{it['key']}:{st}")
                if st == "returned":
                    why = well_formed(t, obj, loader)
                    ctx.count("data-accepted-wellformed-checks")
                    if why:
                        ctx.violation(f"data-accepted-malformed/{it['key']}", f"{loader}: {desc}: {why}")


# which table's row count bounds the ids stored in a column (data-model documentation)
ID_REFERS = {"edges/parent": "nodes", "edges/child": "nodes", "mutations/node": "nodes", "mutations/site": "sites",
             "mutations/parent": "mutations", "nodes/population": "populations", "nodes/individual": "individuals",
             "individuals/parents": "individuals", "migrations/node": "nodes", "migrations/source": "populations",
             "migrations/dest": "populations", "indexes/edge_insertion_order": "edges", "indexes/edge_removal_order": "edges"}
ROWS_FROM = {"nodes": "nodes/flags", "edges": "edges/left", "sites": "sites/position", "mutations": "mutations/site",
             "individuals": "individuals/flags", "migrations": "migrations/left"}
OTHER_END = {"edges/left": "edges/right", "edges/right": "edges/left", "migrations/left": "migrations/right",
             "migrations/right": "migrations/left"}


def ulp_up(x):
    return math.nextafter(x, math.inf)


def ulp_down(x):
    return math.nextafter(x, -math.inf)


def do_boundary(ctx, t, data, lay):
    """Exact boundary values, computed from THIS file, in (nearly) every element of every numeric column."""
    rng = t.rng
    rows = {tn: lay.by_key[k]["array_len"] for tn, k in ROWS_FROM.items() if k in lay.by_key}
    if "populations/metadata_offset" in lay.by_key:
        rows["populations"] = lay.by_key["populations/metadata_offset"]["array_len"] - 1
    L = float(lay.array(data, "sequence_length")[0])
    node_times = sorted(set(float(x) for x in lay.array(data, "nodes/time"))) if "nodes/time" in lay.by_key else []
    edits = []  # (key, idx, raw value bytes, label, wants a tree-sequence loader)
    for it in lay.items:
        key, typ, n = it["key"], it["type"], it["array_len"]
        if n == 0 or typ not in (4, 5, 7, 9) or key in ("format/version",):
            continue
        arr = lay.array(data, key)
        which = list(range(n)) if n <= 6 else sorted({0, 1, n // 2, n - 2, n - 1} | set(rng.sample(range(n), 2)))
        for idx in which:
            cur = arr[idx]
            cand = []
            if typ == 9:
                cur = float(cur)
                cand += [(L, "=L"), (ulp_up(L), "=L+ulp"), (ulp_down(L), "=L-ulp"), (0.0, "=0")]
                if not math.isnan(cur):
                    cand += [(ulp_up(cur), "+ulp"), (ulp_down(cur), "-ulp")]
                if idx > 0:
                    cand.append((float(arr[idx - 1]), "=previous element"))
                if idx + 1 < n:
                    cand.append((float(arr[idx + 1]), "=next element"))
                if key in OTHER_END:
                    o = float(lay.array(data, OTHER_END[key])[idx])
                    cand += [(o, "=other end of the interval"), (ulp_up(o), "=other end+ulp"), (ulp_down(o), "=other end-ulp")]
                if key in ("nodes/time", "mutations/time", "migrations/time"):
                    cand += [(x, "=time of a node") for x in node_times]
                    if key == "mutations/time":
                        u = int(lay.array(data, "mutations/node")[idx])
                        if 0 <= u < len(node_times) + 10 ** 9 and u < rows.get("nodes", 0):
                            tu = float(lay.array(data, "nodes/time")[u])
                            cand += [(ulp_down(tu), "=time of its node-ulp"), (ulp_up(tu), "=time of its node+ulp")]
                if key == "sequence_length":
                    for k2 in ("edges/right", "sites/position"):
                        if k2 in lay.by_key and lay.by_key[k2]["array_len"]:
                            mx = float(max(lay.array(data, k2)))
                            cand += [(mx, f"=max {k2}"), (ulp_down(mx), f"=max {k2}-ulp"), (ulp_up(mx), f"=max {k2}+ulp")]
                for v, label in cand:
                    edits.append((it, idx, struct.pack("<d", v), label, True))
            else:
                cur = int(cur)
                size = TYPE_SIZE[typ]
                lim = 1 << (8 * size)
                if key in ID_REFERS:
                    nr = rows.get(ID_REFERS[key], 0)
                    cand += [(nr, f"=row count of {ID_REFERS[key]}"), (nr - 1, "=last row"), (nr + 1, "=row count+1"),
                             (-1, "=NULL"), (-2, "=-2"), (0, "=0"), (cur + 1, "+1"), (cur - 1, "-1")]
                    if key == "mutations/parent":
                        cand += [(idx, "=itself"), (idx + 1, "=the next mutation")]
                elif key.endswith("_offset"):
                    dk = key[:-7]
                    dl = lay.by_key[dk]["array_len"] if dk in lay.by_key else 0
                    cand += [(dl, "=data length"), (dl + 1, "=data length+1"), (dl - 1, "=data length-1"), (cur + 1, "+1"),
                             (cur - 1, "-1"), (0, "=0")]
                    if idx > 0:
                        cand.append((int(arr[idx - 1]) - 1, "=previous entry-1"))
                    if idx + 1 < n:
                        cand.append((int(arr[idx + 1]) + 1, "=next entry+1"))
                else:  # flags
                    cand += [(cur ^ 1, "sample flag toggled"), (cur | 0x80000000, "top bit set"), (lim - 1, "all ones")]
                for v, label in cand:
                    if typ == 4 and not (-(1 << 31) <= v < (1 << 31)):
                        continue
                    if typ != 4 and not (0 <= v < lim):
                        continue
                    edits.append((it, idx, (v % lim).to_bytes(size, "little"), label, key in ID_REFERS))
        # adjacent elements exchanged (same multiset of values, wrong order)
        size = TYPE_SIZE[typ]
        for idx in ([j for j in range(n - 1)] if n <= 7 else sorted({0, n // 2, n - 2})):
            a = data[it["array_start"] + idx * size: it["array_start"] + (idx + 1) * size]
            b = data[it["array_start"] + (idx + 1) * size: it["array_start"] + (idx + 2) * size]
            if a != b:
                edits.append((it, idx, b + a, "exchanged with the next element", True))
    if len(edits) > 2200:
        keep = set(rng.sample(range(len(edits)), 2200))
        edits = [e for j, e in enumerate(edits) if j in keep]
    k = rng.randrange(1000)
    for it, idx, val, label, want_ts in edits:
        size = TYPE_SIZE[it["type"]]
        off = it["array_start"] + idx * size
        if data[off:off + len(val)] == val:
            continue
        newdata = data[:off] + val + data[off + len(val):]
        k += 1
        # TableCollection.load does not look at ids, coordinates or times: two thirds of those edits go to the loaders that do
        loader = TS_NAMES[k % len(TS_NAMES)] if (want_ts and k % 3) else ALL_NAMES[k % len(ALL_NAMES)]
        desc = f"element {idx} of {it['key']} ({it['array_len']} x type {it['type']}) {label}: {data[off:off + len(val)].hex()}->{val.hex()}"
        t.step(f"boundary: {desc}; {loader}")
        st, obj = t.load(newdata, loader)
        ctx.count("boundary-edits")
        ctx.feature(f"boundary:{label.split(' of ')[0][:28]}:{st}")
        if st == "returned":
            why = well_formed(t, obj, loader)
            ctx.count("data-accepted-wellformed-checks")
            if why:
                ctx.violation(f"data-accepted-malformed/{it['key']}", f"{loader}: {desc}: {why}")


def do_repack(ctx, t, data, lay, orig):
    """Items altered and the file re-packed by the independent writer (see c10_ext)."""
    items = X.parse_items(data)
    ref_types = {k.decode(): typ for k, typ, _ in items}
    k = t.rng.randrange(1000)
    work = []
    for label, cls, new_items, sort, expect in X.repack_edits(items, ref_types, t.rng):
        k += 1
        lds = [ALL_NAMES[k % len(ALL_NAMES)]]
        if cls.startswith(("index-resize", "table-", "offset64", "drop-pair", "exchange")):
            # few edits of these classes exist per file: each goes through the plain loaders as well as the rotating one
            lds += [ld for ld in ("TableCollection.load", "tskit.load(fileobj)", "TableCollection.load(_tskit low-level)") if ld not in lds]
        for ld in lds:
            work.append((label, cls, new_items, sort, expect, ld))
    for label, cls, new_items, sort, expect, loader in work:
        newdata = X.pack(new_items, sort=sort)
        reasons = X.format_reasons(new_items, ref_types, OPTIONAL_KEYS, loader) if expect == "model" else []
        t.step(f"repack: {label}; {loader}")
        st, obj = t.load(newdata, loader)
        ctx.count("repack-edits")
        ctx.feature(f"repack:{cls}:{'must-raise' if reasons else expect}:{st}")
        if expect == "equal":
            # uint64 offset columns are the encoding dump() itself uses for big columns (and with TSK_DUMP_FORCE_OFFSET_64)
            if st == "raised":
                ctx.violation(f"baseline/valid-encoding-rejected/{cls}", f"{loader}: {label}: {obj!r}")
            elif not same_as(obj, orig, loader):
                ctx.violation(f"repack/valid-encoding-loaded-differently/{cls}", f"{loader}: {label}")
            continue
        if st != "returned":
            continue
        if reasons:
            r0 = reasons[0]
            ctx.violation(f"repack-accepted/{r0.split(':')[0]}/{r0.split(':')[1] if ':' in r0 else cls}",
                          f"{loader}: {label} (file re-packed, {len(newdata)} bytes): loaded although {reasons}")
            continue
        ctx.count("repack-accepted-wellformed-checks")
        why = well_formed(t, obj, loader)
        if why:
            ctx.violation(f"repack-accepted-malformed/{cls}", f"{loader}: {label}: {why}")
    # the same file with 64-bit offsets as a BASE for faults: the uint64 branch of the offset reader
    base = X.pack(X.to_offset64(items))
    lay64 = Layout(base)
    k = 0
    loaders = ["TableCollection.load", "tskit.load", "TableCollection.load(fileobj)", "tskit.load(pipe fd)",
               "TableCollection.load(_tskit low-level)", "TableCollection.load(skip_reference_sequence)"]
    for it in lay64.items:
        if not it["key"].endswith("_offset") or it["type"] != 7:
            continue
        n = it["array_len"]
        dl = lay64.by_key[it["key"][:-7]]["array_len"]
        for idx in sorted({0, n // 2, n - 1}):
            off = it["array_start"] + idx * 8
            cur = struct.unpack_from("<Q", base, off)[0]
            for v in (cur + 1, cur + 2 ** 32, dl + 2 ** 32, 2 ** 32, 2 ** 63, 2 ** 64 - 1, 2 ** 63 + cur, (cur - 1) % 2 ** 64):
                if v == cur:
                    continue
                newdata = base[:off] + struct.pack("<Q", v) + base[off + 8:]
                loader = loaders[k % len(loaders)]
                k += 1
                desc = f"entry {idx} of 64-bit {it['key']} ({n} entries, data length {dl}) {cur}->{v:#x}"
                t.step(f"offset64: {desc}; {loader}")
                st, obj = t.load(newdata, loader)
                ctx.count("offset64-edits")
                if st == "returned":
                    why = well_formed(t, obj, loader)
                    ctx.count("data-accepted-wellformed-checks")
                    if why:
                        ctx.violation(f"data-accepted-malformed/{it['key']}", f"{loader}: {desc}: {why}")
    for n in sorted({0, 1, 63, 64, lay64.keys_start, lay64.keys_end, len(base) - 37, len(base) - 1}
                    | {it["array_start"] + d for it in lay64.items if it["key"].endswith("_offset") for d in (0, 1, 8)}):
        if not (0 <= n < len(base)):
            continue
        loader = ALL_NAMES[n % len(ALL_NAMES)]
        t.step(f"offset64: truncate to {n} of {len(base)} bytes; {loader}")
        st, obj = t.load(base[:n], loader)
        ctx.count("truncations")
        if st == "returned":
            ctx.violation("truncated-accepted/offset64-file", f"{loader} loaded a {n}-byte prefix of a {len(base)}-byte file with 64-bit offsets")


MUST_RAISE_EDITS = (
    ("magic byte 0", lambda d, lay: put(d, 0, "<B", d[0] ^ 0x01)),
    ("magic byte 7", lambda d, lay: put(d, 7, "<B", d[7] ^ 0x80)),
    ("version_major+1", lambda d, lay: put(d, 8, "<H", 2)),
    ("version_major=0", lambda d, lay: put(d, 8, "<H", 0)),
    ("num_items+1", lambda d, lay: put(d, 12, "<I", lay.num_items + 1)),
    ("num_items-1", lambda d, lay: put(d, 12, "<I", lay.num_items - 1)),
    ("file_size+1", lambda d, lay: put(d, 16, "<Q", lay.file_size + 1)),
    ("file_size-1", lambda d, lay: put(d, 16, "<Q", lay.file_size - 1)),
    ("file_size=size of the whole stream", None),
    ("array_start of item 0 +8", lambda d, lay: put(d, HEADER + 24, "<Q", lay.items[0]["array_start"] + 8)),
    ("key_start of item 1 -1", lambda d, lay: put(d, HEADER + DESC + 8, "<Q", lay.items[1]["key_start"] - 1)),
    ("key 'sequence_length' altered", lambda d, lay: put(d, lay.by_key["sequence_length"]["key_start"], "<B", ord("t"))),
    ("key 'uuid' altered", lambda d, lay: put(d, lay.by_key["uuid"]["key_start"] + 3, "<B", ord("e"))),
    ("type of sequence_length = float32", lambda d, lay: put(d, HEADER + lay.by_key["sequence_length"]["j"] * DESC, "<B", 8)),
    ("sequence_length = NaN", lambda d, lay: put(d, lay.by_key["sequence_length"]["array_start"], "<Q", 0x7FF8000000000000)),
    ("sequence_length = 0", lambda d, lay: put(d, lay.by_key["sequence_length"]["array_start"], "<Q", 0)),
    ("format/name altered", lambda d, lay: put(d, lay.by_key["format/name"]["array_start"] + 2, "<B", ord("x"))),
    ("format/version major = 11", lambda d, lay: put(d, lay.by_key["format/version"]["array_start"], "<I", 11)),
)

# loaders that can be pointed at an object in the middle of a file: (name, callable(fileobj), reads tables, is ts)
STREAM_LOADERS = (
    ("TableCollection.load(fileobj)", lambda f: tskit.TableCollection.load(f), True),
    ("tskit.load(fileobj)", lambda f: tskit.load(f), True),
    ("TreeSequence.load(fileobj)", lambda f: tskit.TreeSequence.load(f), True),
    ("TableCollection.load(_tskit low-level)", lambda f: X._ll_tc(f), True),
    ("tskit.load(int fd)", lambda f: tskit.load(f.fileno()), True),
)
LAZY_STREAM_LOADERS = (
    ("tskit.load(fileobj,skip_tables)", lambda f: tskit.load(f, skip_tables=True)),
    ("TableCollection.load(fileobj,skip_reference_sequence)", lambda f: tskit.TableCollection.load(f, skip_reference_sequence=True)),
    ("TableCollection.load(fileobj,skip_tables,skip_reference_sequence)",
     lambda f: tskit.TableCollection.load(f, skip_tables=True, skip_reference_sequence=True)),
    ("tskit.load(fileobj,skip_reference_sequence)", lambda f: tskit.load(f, skip_reference_sequence=True)),
)


def do_stream(ctx, t, data, lay, tc, case):
    """Three DIFFERENT objects back to back; faults in object 1 or 2: the objects before it still load (and equal what was
    dumped), the faulty one raises - through the eager loaders reading on from where the previous load stopped, through
    the lazy (skip_*) loaders positioned at the object's offset, and through a pipe."""
    rng = t.rng
    f2 = case["file"] + 1
    m2, tc2 = make_file(case_rng({"file": f2, "seed": case["seed"], "tier": case["tier"]}), big=f2 % 4 == 0, variant=f2)
    f3 = case["file"] + 2
    m3, tc3 = make_file(case_rng({"file": f3, "seed": case["seed"], "tier": case["tier"]}), big=f3 % 4 == 0, variant=f3)
    objs = [(data, tc), (dump_bytes(tc2), tc2), (dump_bytes(tc3), tc3)]
    want = [tables_bytes(x[1]) for x in objs]

    def write(stream):
        with open(t.path, "wb") as f:
            f.write(stream)

    def check_prefix(f, nobj, name, fn, what):
        """load objects 0..nobj-1 from the open stream; False if anything was wrong"""
        for j in range(nobj):
            ctx.count("stream-loads")
            try:
                a = fn(f)
            except Exception as e:  # noqa: BLE001
                ctx.violation("stream/intact-object-rejected", f"{name}: object {j} (intact) of a stream rejected: {e!r} [{what}]")
                return False
            if tables_bytes(tables_of(a)) != want[j]:
                ctx.violation("stream/intact-object-differs", f"{name}: object {j} of the stream loaded differently [{what}]")
                return False
        return True

    def expect_fault(f, name, fn, what, empty):
        ctx.count("stream-loads")
        ctx.count("stream-fault-loads")
        try:
            obj = fn(f)
            if isinstance(obj, (tskit.TreeSequence, tskit.TableCollection)):
                ctx.violation("stream/faulty-object-accepted", f"{name}: {what}: loaded")
            else:
                ctx.violation("loader-returned-non-object/stream", f"{name}: {what}: returned {obj!r}")
        except EOFError:
            if not empty:
                ctx.violation("truncated/eof-for-nonempty-prefix", f"{name}: EOFError for {what}")
        except Exception:  # noqa: BLE001
            if empty:
                ctx.violation("stream/end-of-stream-not-eof", f"{name}: end of stream after complete objects did not raise EOFError [{what}]")

    # 0. the intact stream: all three objects, then end-of-stream, through every eager form
    whole = b"".join(x[0] for x in objs)
    write(whole)
    for name, fn, _ in STREAM_LOADERS:
        t.step(f"stream: intact 3-object stream; {name}")
        with open(t.path, "rb") as f:
            if check_prefix(f, 3, name, fn, "intact stream"):
                expect_fault(f, name, fn, "end of a 3-object stream", True)
    # ... and the lazy loaders positioned at each object's offset (they need a seekable file: documented)
    starts = [0, len(objs[0][0]), len(objs[0][0]) + len(objs[1][0])]
    lazy_ref = []
    for j, (d, _) in enumerate(objs):
        write(d)
        row = []
        for name, fn in LAZY_STREAM_LOADERS:
            with open(t.path, "rb") as f:
                row.append(tables_bytes(tables_of(fn(f))))
        lazy_ref.append(row)
    write(whole)
    for j in range(3):
        for li, (name, fn) in enumerate(LAZY_STREAM_LOADERS):
            t.step(f"stream: lazy load of object {j} at offset {starts[j]}; {name}")
            ctx.count("stream-loads")
            ctx.count("stream-lazy-at-offset")
            with open(t.path, "rb") as f:
                f.seek(starts[j])
                try:
                    got = tables_bytes(tables_of(fn(f)))
                except Exception as e:  # noqa: BLE001
                    ctx.violation("stream/lazy-at-offset-rejected", f"{name}: intact object {j} at offset {starts[j]} rejected: {e!r}")
                    continue
                if got != lazy_ref[j][li]:
                    ctx.violation("stream/lazy-at-offset-differs",
                                  f"{name}: object {j} read at offset {starts[j]} of a 3-object file differs from the same object read from its own file")
    # 1. truncation of object k
    k = 0
    for kobj in (1, 2):
        d = objs[kobj][0]
        layk = Layout(d)
        cuts = sorted({0, 1, 7, 8, 63, 64, 65, layk.keys_start, layk.keys_end, len(d) // 2, len(d) - 37, len(d) - 36, len(d) - 1}
                      | {rng.randrange(len(d)) for _ in range(10)})
        head = b"".join(x[0] for x in objs[:kobj])
        for cut in cuts:
            if not (0 <= cut < len(d)):
                continue
            write(head + d[:cut])
            what = f"object {kobj} truncated to {cut} of {len(d)} bytes after {kobj} complete object(s)"
            name, fn, _ = STREAM_LOADERS[k % len(STREAM_LOADERS)]
            k += 1
            t.step(f"stream: {what}; {name}")
            with open(t.path, "rb") as f:
                if check_prefix(f, kobj, name, fn, what):
                    expect_fault(f, name, fn, what, cut == 0)
            # lazy read path at the truncated object's offset
            name, fn = LAZY_STREAM_LOADERS[k % len(LAZY_STREAM_LOADERS)]
            with open(t.path, "rb") as f:
                f.seek(len(head))
                expect_fault(f, name + " at offset", fn, what, cut == 0)
            # the same bytes through a pipe (non-seekable)
            if k % 3 == 0 and len(head) + cut < 60000:
                r, w = os.pipe()
                try:
                    os.write(w, head + d[:cut])
                    os.close(w)
                    w = None
                    with os.fdopen(os.dup(r), "rb", buffering=0) as f:
                        if check_prefix(f, kobj, "TableCollection.load(pipe)", lambda g: tskit.TableCollection.load(g), what):
                            expect_fault(f, "tskit.load(pipe)", lambda g: tskit.load(g), what, cut == 0)
                    ctx.count("stream-pipe-loads")
                finally:
                    if w is not None:
                        os.close(w)
                    os.close(r)
    # 2. structural / data faults that every read path must refuse, in object 1 (object 2 follows it intact)
    d1 = objs[1][0]
    lay1 = Layout(d1)
    for label, edit in MUST_RAISE_EDITS:
        bad = put(d1, 16, "<Q", len(whole)) if edit is None else edit(d1, lay1)
        write(objs[0][0] + bad + objs[2][0])
        what = f"object 1 of 3 with {label}"
        name, fn, _ = STREAM_LOADERS[k % len(STREAM_LOADERS)]
        k += 1
        t.step(f"stream: {what}; {name}")
        with open(t.path, "rb") as f:
            if check_prefix(f, 1, name, fn, what):
                expect_fault(f, name, fn, what, False)
        name, fn = LAZY_STREAM_LOADERS[k % len(LAZY_STREAM_LOADERS)]
        with open(t.path, "rb") as f:
            f.seek(starts[1])
            expect_fault(f, name + " at offset", fn, what, False)


def do_large(case, ctx):
    """Structurally large file: sampled truncation, 16/32-bit-aware descriptor edits, offsets around 2^16."""
    rng = case_rng(case)
    tc = X.large_tables(rng)
    data = dump_bytes(tc)
    lay = Layout(data)
    ctx.sig(("large", len(data), tc.sites.num_rows, tc.populations.num_rows), nontrivial=True)
    ctx.feature("kind:large")
    assert X.pack(X.parse_items(data)) == data
    t = Tester(ctx, case, rng)
    try:
        t.set_good(data)
        loaders = ["tskit.load", "TableCollection.load", "TableCollection.load(fileobj)", "tskit.load(skip_tables)",
                   "TableCollection.load(skip_reference_sequence)", "tskit.load(int fd)", "TableCollection.load(_tskit low-level)",
                   "tskit.load(pipe fd)", "TableCollection.load(pipe fileobj)", REUSED]
        st, obj = t.load(data, "tskit.load(pipe fd)")
        if st != "returned":
            # the pipe cannot be made big enough on this machine (F_SETPIPE_SZ limit): leave the pipe forms out
            loaders = [ld for ld in loaders if "pipe" not in ld]
            ctx.feature("large:pipe-unavailable")
        orig = baseline(ctx, t, data, loaders)
        if orig is None:
            return
        big = [it for it in lay.items if it["nbytes"] > 60000]
        ctx.feature("large:arrays-over-60000-bytes", len(big))
        # truncation: every array boundary +-1, sizes around powers of two, a few random ones
        cuts = {0, 1, 63, 64, lay.keys_start, lay.keys_end, len(data) - 1, len(data) - 36, len(data) - 37}
        for it in lay.items:
            for dlt in (-1, 0, 1):
                cuts.add(it["array_start"] + dlt)
                cuts.add(it["array_start"] + it["nbytes"] + dlt)
        for p in (4096, 8192, 65535, 65536, 65537, 131072, 262144, 524288, 1048576):
            for dlt in (-1, 0, 1):
                cuts.add(p + dlt)
        for it in big:
            cuts.add(it["array_start"] + 65536)
            cuts.add(it["array_start"] + it["nbytes"] - 65536)
            cuts.add(it["array_start"] + it["nbytes"] // 2)
        cuts |= {rng.randrange(len(data)) for _ in range(20)}
        for k, n in enumerate(sorted(c for c in cuts if 0 <= c < len(data))):
            loader = loaders[k % len(loaders)]
            t.step(f"large: truncate to {n} of {len(data)} bytes; {loader}")
            st, obj = t.load(data[:n], loader)
            ctx.count("truncations")
            ctx.count("large-truncations")
            if st == "returned":
                ctx.violation("truncated-accepted/large/" + lay.classify(n)[0], f"{loader} loaded a {n}-byte prefix of a {len(data)}-byte file")
            elif n > 0 and isinstance(obj, EOFError):
                ctx.violation("truncated/eof-for-nonempty-prefix", f"{loader} raised EOFError for a non-empty {n}-byte prefix")
        # descriptor edits that a 16- or 32-bit intermediate would not notice
        edits = []
        for it in big:
            base = HEADER + it["j"] * DESC
            for fld, o, cur in (("array_start", 24, it["array_start"]), ("array_len", 32, it["array_len"])):
                for v in (cur & 0xFFFF, cur + 65536, cur - 65536, cur + 2 ** 32, cur ^ 0x10000, cur - 1, cur + 1):
                    if v != cur and v >= 0:
                        edits.append((base + o, v, f"{fld} of {it['key']} {cur}->{v}"))
        for v in (lay.file_size & 0xFFFF, lay.file_size & 0xFFFFF, lay.file_size + 65536, lay.file_size - 65536, lay.file_size + 2 ** 32):
            if v != lay.file_size:
                edits.append((16, v, f"file_size {lay.file_size}->{v}"))
        for k, (off, v, desc) in enumerate(edits):
            loader = loaders[k % len(loaders)]
            t.step(f"large: {desc}; {loader}")
            newdata = put(data, off, "<Q", v)
            st, obj = t.load(newdata, loader)
            ctx.count("arith-edits")
            ctx.count("large-arith-edits")
            if st == "returned":
                on_structural_accept(ctx, t, lay, off, "arith", obj, loader, orig, desc, data, newdata)
        # entries of the big offset columns around the 16-bit limit
        k = 0
        for it in big:
            if not it["key"].endswith("_offset"):
                continue
            size = TYPE_SIZE[it["type"]]
            n = it["array_len"]
            dl = lay.by_key[it["key"][:-7]]["array_len"]
            for idx in sorted({0, 1, 65535, 65536, 65537, n - 2, n - 1} & set(range(n))):
                off = it["array_start"] + idx * size
                cur = int.from_bytes(data[off:off + size], "little")
                for v in (cur + 1, cur - 1, cur & 0xFFFF, cur + 65536, 0, dl, dl + 1, 2 ** 31, 2 ** 32 - 1):
                    if v == cur or not (0 <= v < (1 << (8 * size))):
                        continue
                    newdata = data[:off] + v.to_bytes(size, "little") + data[off + size:]
                    loader = loaders[k % len(loaders)]
                    k += 1
                    desc = f"entry {idx} of {it['key']} ({n} entries, data length {dl}) {cur}->{v}"
                    t.step(f"large: {desc}; {loader}")
                    st, obj = t.load(newdata, loader)
                    ctx.count("offset-edits")
                    ctx.count("large-offset-edits")
                    if st == "returned":
                        why = well_formed(t, obj, loader, large=True)
                        ctx.count("data-accepted-wellformed-checks")
                        if why:
                            ctx.violation(f"data-accepted-malformed/{it['key']}", f"{loader}: {desc}: {why}")
    finally:
        t.close()
