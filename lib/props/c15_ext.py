"""C15 audit extension (lib/AUDIT-BRIEF.md, gap list in lib/props/AUDIT-C15.md).

New families, all dispatched from lib/props/c15.py:

* ``life``     — tree sequences built from scripted per-node LIFE CYCLES for the incremental
                 TreeSequence.count_topologies: a non-sample node that is internal with set samples below, then absent
                 from one or more trees (or a whole gap), then back as a CHILDLESS leaf / as an internal node / as a
                 root (seeded C15-5 was only met by chance); children moving between parents, parents that lose and gain
                 children at the same breakpoint, gaps at the start / middle / end, unsquashed edges, permuted node ids;
                 the same inputs after delete_intervals / keep_intervals / decapitate.  Every case is checked through
                 Tree.count_topologies on every tree (two ways of getting at the tree), the incremental generator in
                 three consumption styles, several argument forms of ``sample_sets`` and of the TopologyCounter key.
* ``bigcount`` — structurally extreme counting instances (>= 256 children, depth 300-600, 120-250 trees, large sets, k = 5)
                 against a contraction + class-weight reference (cross-checked against the plain brute force on every
                 ``life`` case).
* ``rforms``   — argument forms of Tree.unrank / all_trees / all_tree_shapes / all_tree_labellings, the Rank named tuple,
                 rank() on trees obtained in nine different ways, leaves whose ids are not 0..n-1 (internal ids below leaf
                 ids), the reused Tree object.

Reference semantics are the ones of c15.py (canonical nested tuples from the EDGE ROWS, ranks defined by the position in
all_trees); nothing of tskit.combinatorics is used.

EITHER zones (docs silent, never asserted):
* which exception class an invalid node id in ``sample_sets`` raises (documented: ValueError; the incremental entry point
  raises IndexError for ids >= num_nodes on the unchanged tree) — only "must not return counts" is asserted;
* bool / float / None / str entries of a sample set, duplicated ids, overlapping sets;
* ``TopologyCounter.__eq__`` (looking a key up inserts an empty Counter): equality is only recorded as a feature;
* root_threshold != 1 trees.
"""
import collections
import itertools
import math
import re

import numpy as np
import tskit

from lib.harness import case_rng
from lib.model import NODE_IS_SAMPLE, NULL, RowModel, sort_edges_key
from lib.tsk import to_ts


def B():
    from lib.props import c15

    return c15


# ------------------------------------------------------------------------------------------- raw-row view


class View:
    """What the reference needs of a tree sequence, read from the raw node / edge columns only."""

    def __init__(self, ts):
        self.L = float(ts.sequence_length)
        self.rows = [(float(l), float(r), int(p), int(c)) for l, r, p, c in
                     zip(ts.edges_left, ts.edges_right, ts.edges_parent, ts.edges_child)]
        self.flags = [int(f) for f in ts.nodes_flags]
        self.times = [float(t) for t in ts.nodes_time]
        self.pops = [int(p) for p in ts.nodes_population]
        self.num_nodes = len(self.flags)

    def samples(self):
        return [u for u, f in enumerate(self.flags) if f & NODE_IS_SAMPLE]

    def breakpoints(self):
        bp = {0.0, self.L}
        for l, r, _, _ in self.rows:
            bp.add(l)
            bp.add(r)
        return sorted(bp)

    def forest_at(self, x):
        return {c: p for l, r, p, c in self.rows if l <= x < r}

    def to_json(self):
        return {"L": self.L, "nodes(flags,time,population)": list(zip(self.flags, self.times, self.pops)),
                "edges(left,right,parent,child)": self.rows}


def kids_of(par):
    kids = {}
    for c, p in par.items():
        kids.setdefault(p, []).append(c)
    return kids


# ------------------------------------------------------------------------------------------- fast reference


def fast_counts(par, sets, tabs):
    """{key: {rank: count}} like c15.brute_counts, for big instances: (1) the forest is first reduced to ALL set
    samples (nodes with no set sample below dropped, unary nodes suppressed — reducing to a superset and then to a
    choice is the same as reducing to the choice), iteratively, so depth does not matter; (2) set samples that are
    leaves under the same reduced parent and belong to the same set are interchangeable (swapping them is an
    automorphism fixing everything else), so one representative is enumerated and weighted by the class size."""
    base = B()
    k = len(sets)
    set_of = {}
    for i, s in enumerate(sets):
        for u in s:
            set_of[u] = i
    rel = {}
    seen = set()
    for u in set_of:
        v = u
        while v not in seen:
            seen.add(v)
            p = par.get(v)
            if p is None:
                break
            rel.setdefault(p, []).append(v)
            v = p
    for u in set_of:
        if u in rel:
            raise AssertionError("reference precondition: a set sample has set samples below it")
    root_memo = {}

    def root(u):
        path = []
        while u in par and u not in root_memo:
            path.append(u)
            u = par[u]
        r = root_memo.get(u, u)
        for v in path:
            root_memo[v] = r
        return r

    def down(u):
        while u not in set_of and len(rel[u]) == 1:
            u = rel[u][0]
        return u

    croot = {}
    wkids = {}
    weight = {}
    reps = [[] for _ in range(k)]
    for r in sorted({root(u) for u in set_of}):
        top = down(r)
        stack = [top]
        members = []
        while stack:
            u = stack.pop()
            if u in set_of:
                continue
            inner, cls = [], {}
            for c in (down(c) for c in rel[u]):
                if c in set_of:
                    cls.setdefault(set_of[c], []).append(c)
                else:
                    inner.append(c)
            ch = list(inner)
            for i, mem in sorted(cls.items()):
                weight[mem[0]] = len(mem)
                ch.append(mem[0])
                members.append(mem[0])
            wkids[u] = ch
            stack.extend(inner)
        if top in set_of:
            weight[top] = 1
            members.append(top)
        for x in members:
            croot[x] = top
            reps[set_of[x]].append(x)
    out = {}
    for size in range(1, k + 1):
        for key in itertools.combinations(range(k), size):
            cnt = collections.Counter()
            for choice in itertools.product(*(reps[i] for i in key)):
                rs = {croot[u] for u in choice}
                if len(rs) != 1:
                    continue
                lab = {u: j for j, u in enumerate(choice)}
                f = base.restrict(wkids, rs.pop(), lab)
                w = 1
                for u in choice:
                    w *= weight[u]
                cnt[tabs[size][f]] += w
            out[key] = dict(cnt)
    return out


# ------------------------------------------------------------------------------------------- building inputs


def model_from_forests(bounds, times, flags, pars, pops=None, rng=None, split=0.0):
    """RowModel from per-interval {child: parent} maps: maximal runs per (child, parent), optionally cut again at
    interior breakpoints (``split``: the same edge leaves and re-enters at one breakpoint)."""
    m = RowModel(bounds[-1])
    n = len(times)
    m.nodes = [(flags[u], times[u], NULL if pops is None else pops[u], NULL, b"") for u in range(n)]
    edges = []
    nsplit = 0
    for c in range(n):
        start, cur = None, NULL
        for i in range(len(pars) + 1):
            p = pars[i].get(c, NULL) if i < len(pars) else NULL
            brk = p != cur
            if not brk and cur != NULL and split and rng.random() < split:
                brk = True
                nsplit += 1
            if brk:
                if cur != NULL:
                    edges.append((start, bounds[i], cur, c, b""))
                start, cur = bounds[i], p
    m.edges = sorted(edges, key=sort_edges_key(m))
    return m, nsplit


def gen_life(rng, T=None, ns=None, ni=None, force=True, ks=(1, 2, 2, 3, 3, 3, 4, 4), flicker=0.3):
    """Per-tree forests from per-node state scripts.  Internal (non-sample) nodes are, per tree, W (has children),
    D (childless but attached to a parent) or A (in no edge); the forest of tree t keeps the parent of tree t-1 where
    that is still possible (small edge diffs).  One or two FOCUS nodes get a forced script containing
    W(with a set sample below) A+ D / W A+ W / W D W / root A+ root.  Returns a dict."""
    ns = ns or rng.randint(3, 8)
    ni = ni or rng.randint(3, 7)
    nx = rng.choice([0, 0, 1, 2])
    N = ns + ni + nx
    ids = list(range(N))
    id_mode = rng.choice(["leaves-first", "leaves-first", "shuffled", "internals-first"])
    if id_mode == "shuffled":
        rng.shuffle(ids)
    elif id_mode == "internals-first":
        ids = ids[ns:] + ids[:ns]
    samples = sorted(ids[:ns])
    internals = ids[ns:ns + ni]            # internals[j] is the j-th youngest
    junk = ids[ns + ni:]
    T = T or rng.randint(3, 7)
    times = [0.0] * N
    scale = rng.choice([1.0, 0.5, 8.0])
    leaf_mode = rng.choice(["zero", "zero", "mixed"])
    for u in samples:
        times[u] = 0.0 if leaf_mode == "zero" else rng.choice([0.0, -1.0, 0.25])
    for j, u in enumerate(internals):
        times[u] = (j + 1) * scale
    for u in junk:
        times[u] = rng.choice([0.0, 2.0 * scale, 100.0])
    flags = [0] * N
    for u in samples:
        flags[u] = NODE_IS_SAMPLE
    for u in junk:
        # isolated everywhere; a sample-flagged one is an isolated root in every tree
        flags[u] = rng.choice([0, 0, NODE_IS_SAMPLE])
    # sample sets first: the focus scripts need a *set* sample below the focus node
    k = rng.choice(ks)
    pool = [u for u in range(N) if flags[u] & NODE_IS_SAMPLE]
    rng.shuffle(pool)
    sets = [[] for _ in range(k)]
    for u in pool:
        if rng.random() < 0.15:
            continue
        sets[rng.randrange(k)].append(u)
    marked = [u for s in sets for u in s if u in samples]
    if not marked:
        sets[0].append(samples[0])
        marked = [samples[0]]
    # state scripts
    scripts = {}
    for u in internals:
        st = rng.choice("WWDA")
        row = []
        for _ in range(T):
            if rng.random() > 0.6:
                st = rng.choice("WWWWWDDAAA")
            row.append(st)
        scripts[u] = row
    gap_at = set()
    if rng.random() < 0.4:
        gap_at.add(rng.choice([0, T - 1] + list(range(T))))
    focus = {}
    if force and T >= 3 and len(internals) >= 2:
        cand = list(internals[:-1])
        rng.shuffle(cand)
        for f in cand[:rng.choice([1, 1, 2])]:
            pat = rng.choice(["WAD", "WAD", "WAD", "WAW", "WDW", "RAR", "WADW", "DAW"])
            i = rng.randint(0, T - 3)
            a = rng.randint(1, T - 2 - i)
            sc = scripts[f]
            head, tail = pat[0], pat[2:]
            sc[i] = head
            for t in range(i + 1, i + 1 + a):
                sc[t] = "A" if pat[1] == "A" else "D"
            for j, ch in enumerate(tail):
                if i + 1 + a + j < T:
                    sc[i + 1 + a + j] = ch
            if pat[1] == "A" and rng.random() < 0.3:
                gap_at.add(rng.randint(i + 1, i + a))
            focus[f] = pat
    for t in gap_at:
        for u in internals:
            scripts[u][t] = "A"
    oldest = internals[-1]
    for t in range(T):
        if t in gap_at:
            continue
        for f in focus:
            if scripts[f][t] == "D" and not any(scripts[p][t] in "WR" and times[p] > times[f] for p in internals):
                scripts[rng.choice([p for p in internals if times[p] > times[f]])][t] = "W"
    pars = []
    prev = {}
    persist = rng.choice([0.5, 0.75, 0.9])
    for t in range(T):
        par = {}
        if t in gap_at:
            pars.append(par)
            prev = par
            continue
        st = {u: scripts[u][t] for u in internals}
        act = [u for u in internals if st[u] in "WR"]
        order = list(samples) + [u for u in internals if st[u] in "WRD"]
        for x in order:
            if x in st and st[x] == "R":
                continue
            cands = [p for p in act if times[p] > times[x]]
            if not cands:
                continue
            keep = prev.get(x)
            if keep in cands and rng.random() < persist:
                par[x] = keep
            elif x not in st:
                if rng.random() < 0.88:
                    par[x] = rng.choice(cands)
            elif st[x] == "D" or rng.random() < 0.7:
                par[x] = rng.choice(cands)
        used = set(par.values())
        for p in act:
            if p not in used and (p in focus or rng.random() < 0.8):
                par[rng.choice(marked if (p in focus or rng.random() < 0.7) else samples)] = p
                used = set(par.values())
        for f in focus:
            # a focus node in state W / R carries a set sample directly
            if st[f] in "WR" and not any(par.get(s) == f for s in marked):
                par[rng.choice(marked)] = f
        pars.append(par)
        prev = par
    bounds = [0.0]
    for _ in range(T):
        bounds.append(bounds[-1] + rng.choice([1.0, 0.5, 2.0]))
    flick = rng.random() < flicker
    if flick:
        # breakpoints at which NOTHING changes for the set samples: an edge between two extra nodes is present in the
        # first half of a tree only, so whatever the incremental algorithm keeps for the real roots is carried over
        # untouched (and a yielded counter that aliases that state would show when the caller doctors it)
        j1, j2 = N, N + 1
        times += [0.0, 1000.0 * scale]
        flags += [rng.choice([0, NODE_IS_SAMPLE]), 0]
        pars2, bounds2 = [], [bounds[0]]
        for i, par in enumerate(pars):
            if par and rng.random() < 0.7:
                a = dict(par)
                a[j1] = j2
                halves = [a, dict(par)]
                if rng.random() < 0.3:
                    halves.reverse()
                pars2 += halves
                bounds2 += [(bounds[i] + bounds[i + 1]) / 2, bounds[i + 1]]
            else:
                pars2.append(par)
                bounds2.append(bounds[i + 1])
        pars, bounds = pars2, bounds2
    return {"pars": pars, "bounds": bounds, "times": times, "flags": flags, "sets": sets, "samples": samples,
            "internals": internals, "focus": focus, "id_mode": id_mode, "k": k, "flicker": flick}


PATTERNS = [
    ("life:with-absent-deadleaf", re.compile(r"[WR]A+D")),          # the seeded C15-5 class
    ("life:with-deadleaf", re.compile(r"[WR]D")),
    ("life:with-absent-with", re.compile(r"[WR]A+[WR]")),
    ("life:root-absent-root", re.compile(r"[RM]A+[RM]")),
    ("life:deadleaf-then-with", re.compile(r"DA*[WR]")),
    ("life:counter-goes-none", re.compile(r"[WR][NM]")),
    ("life:counter-comes-back", re.compile(r"[NM][WR]")),
    ("life:deadleaf-moves", re.compile(r"DD")),
]


def life_features(view, marked):
    """Feature tags measured on the rows (never on the generator's intentions)."""
    tags = set()
    bps = view.breakpoints()
    marked = set(marked)
    nonsample = [u for u in range(view.num_nodes) if not view.flags[u] & NODE_IS_SAMPLE]
    seq = {u: [] for u in nonsample}
    forests = []
    relevant = []        # per tree: the edges on the paths from the set samples to their roots
    for i in range(len(bps) - 1):
        par = view.forest_at((bps[i] + bps[i + 1]) / 2)
        forests.append(par)
        kids = kids_of(par)
        withm = set()
        rel = set()
        for s in marked:
            v = s
            while v in par:
                rel.add((v, par[v]))
                v = par[v]
                withm.add(v)
        relevant.append(rel)
        for u in nonsample:
            if u in kids:
                ch = ("W" if u in par else "R") if u in withm else ("N" if u in par else "M")
            else:
                ch = "D" if u in par else "A"
            seq[u].append(ch)
        if not par:
            tags.add("life:gap-" + ("start" if i == 0 else "end" if i == len(bps) - 2 else "middle"))
    for u in nonsample:
        s = "".join(seq[u])
        for tag, rx in PATTERNS:
            if rx.search(s):
                tags.add(tag)
    kidsl = [kids_of(f) for f in forests]
    for j, (a, b) in enumerate(zip(forests, forests[1:])):
        lost, gained = set(), set()
        for c in set(a) | set(b):
            pa, pb = a.get(c), b.get(c)
            if pa != pb:
                if pa is not None:
                    lost.add(pa)
                if pb is not None:
                    gained.add(pb)
                if pa is not None and pb is not None:
                    tags.add("life:child-moves-between-parents")
                if pa is None and c in kidsl[j]:
                    tags.add("life:root-becomes-child")
                if pb is None and c in kidsl[j + 1]:
                    tags.add("life:child-becomes-root")
        if lost & gained:
            tags.add("life:parent-loses-and-gains-at-one-breakpoint")
        for p in lost | gained:
            d, v = 0, p
            while v in b:
                v = b[v]
                d += 1
            if d >= 2:
                tags.add("life:change-two-or-more-levels-below-root")
        if a == b:
            tags.add("life:identical-adjacent-trees")
        elif relevant[j] == relevant[j + 1] and relevant[j]:
            tags.add("life:adjacent-trees-differ-only-away-from-the-set-samples")
    return tags


# ------------------------------------------------------------------------------------------- count checks


SET_FORMS = ["list", "tuple", "np32", "np64", "npscalars", "mixed"]


def sets_as(form, sets):
    if form == "list":
        return [list(s) for s in sets]
    if form == "tuple":
        return tuple(tuple(s) for s in sets)
    if form == "np32":
        return [np.array(s, dtype=np.int32) for s in sets]
    if form == "np64":
        return [np.array(s, dtype=np.int64) for s in sets]
    if form == "npscalars":
        return [[np.int64(u) for u in s] for s in sets]
    if form == "mixed":
        return [np.array(s, dtype=np.uint32) if i % 2 else tuple(s) for i, s in enumerate(sets)]
    raise AssertionError(form)


def key_forms(rng, key):
    """Spellings of one combination of sample-set indexes (a combination is unordered)."""
    if len(key) == 1:
        i = key[0]
        return [("int", i), ("tuple1", (i,)), ("list1", [i]), ("npint", np.int64(i))]
    rev = tuple(reversed(key))
    sh = list(key)
    rng.shuffle(sh)
    return [("tuple", tuple(key)), ("reversed", rev), ("list", list(key)), ("shuffled-list", sh),
            ("nparray", np.array(key)), ("npints", tuple(np.int32(i) for i in key))]


def counter_content(tc, k, rng=None, forms=False, ctx=None):
    """{key: {rank: count}} without zero counts, every key looked up; with ``forms`` every spelling of the key must
    give the same Counter."""
    out = {}
    bad = []
    for size in range(1, k + 1):
        for key in itertools.combinations(range(k), size):
            got = tc[key] if size > 1 else tc[key[0]]
            out[key] = {tuple(r): c for r, c in got.items() if c != 0}
            if forms:
                for name, spelled in key_forms(rng, key):
                    ctx.count("topology-counter-key-forms")
                    try:
                        g2 = tc[spelled]
                        c2 = {tuple(r): c for r, c in g2.items() if c != 0}
                    except Exception as e:
                        c2 = f"<{type(e).__name__}: {e}>"
                    if c2 != out[key]:
                        bad.append((name, repr(spelled), c2, out[key]))
    return out, bad


def compare_tc(ctx, tc, exp, k, how, where, sets, detail, rng=None, forms=False):
    for key in list(tc.topologies.keys()):
        if tuple(sorted(key)) != tuple(key) or not set(key) <= set(range(k)) or len(set(key)) != len(key):
            ctx.violation("count_topologies/bad-key", f"[{how}] {where}: counter exposes key {key}", detail)
            return False
    got, bad = counter_content(tc, k, rng, forms, ctx)
    for key, e in exp.items():
        if got[key] != e:
            ctx.violation("count_topologies/wrong-count",
                          f"[{how}] {where} sample_sets={sets} key={key}: got {got[key]}, brute force {e}", detail)
            return False
        for r, c in got[key].items():
            if not isinstance(c, (int, np.integer)):
                ctx.violation("count_topologies/count-type", f"[{how}] {where}: count {c!r} for rank {r} is no integer",
                              detail)
                return False
    if bad:
        name, spelled, c2, want = bad[0]
        ctx.violation("count_topologies/key-form",
                      f"[{how}] {where}: TopologyCounter[{spelled}] ({name}) gives {c2}, the sorted tuple key gives {want}",
                      detail)
        return False
    return True


TREE_SOURCES = ["at", "at_index", "copy", "aslist", "seek", "seek_index", "ctor-sample-lists", "reversed",
                "prev-walk", "tracked", "neg-index"]


def trees_via(ts, source, bps, rng):
    """Yield (index, tree) for every tree of ts, obtained through ``source``."""
    n = len(bps) - 1
    if source == "at":
        for i in range(n):
            yield i, ts.at(rng.choice([bps[i], (bps[i] + bps[i + 1]) / 2]))
    elif source == "at_index":
        for i in range(n):
            yield i, ts.at_index(i)
    elif source == "neg-index":
        for i in range(n):
            yield i, ts.at_index(i - n)
    elif source == "copy":
        for i, t in enumerate(ts.trees()):
            yield i, t.copy()
    elif source == "aslist":
        lst = ts.aslist()
        order = list(range(n))
        rng.shuffle(order)
        for i in order:
            yield i, lst[i]
    elif source == "seek":
        t = tskit.Tree(ts)
        order = list(range(n))
        rng.shuffle(order)
        for i in order:
            t.seek((bps[i] + bps[i + 1]) / 2)
            yield i, t
    elif source == "seek_index":
        t = tskit.Tree(ts)
        order = list(range(n))
        rng.shuffle(order)
        for i in order:
            t.seek_index(i)
            yield i, t
    elif source == "ctor-sample-lists":
        t = tskit.Tree(ts, sample_lists=True)
        t.first()
        for i in range(n):
            yield i, t
            t.next()
    elif source == "reversed":
        for j, t in enumerate(reversed(ts.trees())):
            yield n - 1 - j, t
    elif source == "prev-walk":
        t = ts.last()
        for i in range(n - 1, -1, -1):
            yield i, t
            t.prev()
    elif source == "tracked":
        tr = [int(u) for u in ts.samples()[::2]]
        for i, t in enumerate(ts.trees(tracked_samples=tr)):
            yield i, t
    else:
        raise AssertionError(source)


def check_counts(ctx, rng, ts, view, sets, detail, tag, expected=None, tree_share=1.0, default_ok=False, fast=False,
                 prefer_style=None):
    """All count_topologies monitors on one tree sequence + one family of sample sets.  ``expected`` (per tree) may be
    supplied by the caller (big instances); otherwise it is the plain brute force of c15."""
    base = B()
    k = len(sets)
    bps = view.breakpoints()
    ntrees = len(bps) - 1
    detail = dict(detail)
    detail["sample_sets"] = sets
    if ts.num_trees != ntrees:
        ctx.violation("count_topologies/num-trees", f"{tag}: ts.num_trees={ts.num_trees}, the rows have {ntrees} "
                                                    f"intervals", detail)
        return
    if expected is None:
        tabs = {j: base.rank_table(j) for j in range(1, k + 1)}
        expected = [base.brute_counts(view, (bps[i] + bps[i + 1]) / 2, sets, tabs) for i in range(ntrees)]
    where = lambda i: f"tree {i} interval [{bps[i]},{bps[i + 1]})"  # noqa: E731

    # ---- how the sample sets are passed
    form = rng.choice(SET_FORMS)
    positional = rng.random() < 0.5
    use_default = default_ok and rng.random() < 0.6
    ctx.feature(f"{tag}:sets-as:" + ("default(None)" if use_default else form))
    ctx.feature(f"{tag}:call:" + ("default" if use_default else "positional" if positional else "keyword"))

    def call(obj):
        if use_default:
            return obj.count_topologies() if rng.random() < 0.5 else obj.count_topologies(sample_sets=None)
        arg = sets_as(form, sets)
        return obj.count_topologies(arg) if positional else obj.count_topologies(sample_sets=arg)

    # ---- Tree.count_topologies on every tree, reused Tree object of trees()
    for i, tree in enumerate(ts.trees()):
        if tree_share < 1.0 and rng.random() > tree_share and i not in (0, ntrees - 1):
            continue
        ctx.count("count-topologies-bruteforce")
        ctx.count("count-topologies-bruteforce:" + tag)
        try:
            tc = call(tree)
        except Exception as e:
            ctx.violation("count_topologies/raises", f"{tag}: Tree.count_topologies({sets}) [{form}] raised "
                                                     f"{type(e).__name__}: {e} on {where(i)}", detail)
            continue
        if not compare_tc(ctx, tc, expected[i], k, "Tree.count_topologies", where(i), sets, detail, rng,
                          forms=(i == 0 or rng.random() < 0.2)):
            break
    # ---- the same through another way of getting at the trees
    source = rng.choice(TREE_SOURCES)
    ctx.feature(f"{tag}:tree-via:{source}")
    try:
        for i, tree in trees_via(ts, source, bps, rng):
            if tree_share < 1.0 and rng.random() > tree_share:
                continue
            ctx.count("count-topologies-tree-sources")
            tc = call(tree)
            if not compare_tc(ctx, tc, expected[i], k, f"Tree.count_topologies, tree via {source}", where(i), sets,
                              detail):
                break
    except Exception as e:
        ctx.violation("count_topologies/raises", f"{tag}: Tree.count_topologies on trees via {source} raised "
                                                 f"{type(e).__name__}: {e}", detail)

    # ---- incremental, three consumption styles
    style = rng.choice(["list", "list", "lazy-mutating", "lazy-mutating", "interleaved", "zip-trees"])
    if prefer_style and rng.random() < 0.6:
        style = prefer_style
    ctx.feature(f"{tag}:incremental:{style}")
    ctx.count("count-topologies-incremental")
    ctx.count("count-topologies-incremental:" + tag)
    try:
        if style == "list":
            seq = list(call(ts))
            if len(seq) != ntrees:
                ctx.violation("count_topologies/incremental-length",
                              f"{tag}: TreeSequence.count_topologies yielded {len(seq)} counters for {ntrees} trees",
                              detail)
                seq = []
            for i, tc in enumerate(seq):
                ctx.count("count-topologies-incremental:trees")
                if not compare_tc(ctx, tc, expected[i], k, "TreeSequence.count_topologies (incremental)", where(i),
                                  sets, detail, rng, forms=rng.random() < 0.15):
                    break
        elif style == "zip-trees":
            # the documented pairing with trees(); a second, independent Tree walks next to the generator
            i = -1
            stopped = False
            for i, (tree, tc) in enumerate(zip(ts.trees(), call(ts))):
                ctx.count("count-topologies-incremental:trees")
                if tuple(tree.interval) != (bps[i], bps[i + 1]):
                    ctx.violation("count_topologies/incremental-order", f"{tag}: counter {i} pairs with tree interval "
                                                                        f"{tuple(tree.interval)}", detail)
                    stopped = True
                    break
                if not compare_tc(ctx, tc, expected[i], k, "TreeSequence.count_topologies (zip with trees())",
                                  where(i), sets, detail):
                    stopped = True
                    break
            if i != ntrees - 1 and not stopped:
                ctx.violation("count_topologies/incremental-length",
                              f"{tag}: TreeSequence.count_topologies stopped after {i + 1} of {ntrees} trees", detail)
        elif style == "lazy-mutating":
            # every yielded counter is a RESULT: emptying or doctoring it must not leak into the next ones
            gen = call(ts)
            for i in range(ntrees):
                ctx.count("count-topologies-incremental:trees")
                tc = next(gen)
                ok = compare_tc(ctx, tc, expected[i], k, "TreeSequence.count_topologies (results doctored between "
                                                          "next() calls)", where(i), sets, detail)
                if not ok:
                    break
                how = rng.choice(["clear-dict", "clear-counters", "inflate", "negate"])
                if how == "clear-dict":
                    tc.topologies.clear()
                elif how == "clear-counters":
                    for c in tc.topologies.values():
                        c.clear()
                elif how == "inflate":
                    for c in tc.topologies.values():
                        for r in list(c):
                            c[r] += 1000
                else:
                    for c in tc.topologies.values():
                        for r in list(c):
                            c[r] = -c[r]
            else:
                ctx.count("count-topologies-incremental-exhausted")
                try:
                    extra = next(gen)
                    ctx.violation("count_topologies/incremental-length",
                                  f"{tag}: TreeSequence.count_topologies yields more than {ntrees} counters "
                                  f"({dict(extra.topologies)})", detail)
                except StopIteration:
                    pass
        else:
            # two generators advanced alternately; the second one sees the sets in reverse order
            rsets = list(reversed(sets))
            tabs = {j: base.rank_table(j) for j in range(1, k + 1)}
            g1 = call(ts)
            g2 = ts.count_topologies(sets_as("list", rsets))
            for i in range(ntrees):
                ctx.count("count-topologies-incremental:trees")
                a = next(g1)
                b = next(g2)
                if not compare_tc(ctx, a, expected[i], k, "TreeSequence.count_topologies (two generators "
                                                           "interleaved, first)", where(i), sets, detail):
                    break
                if fast or ntrees * k <= 24:
                    x = (bps[i] + bps[i + 1]) / 2
                    exp2 = fast_counts(view.forest_at(x), rsets, tabs) if fast else base.brute_counts(view, x, rsets,
                                                                                                     tabs)
                    if not compare_tc(ctx, b, exp2, k, "TreeSequence.count_topologies (two generators interleaved, "
                                                        "second, sets reversed)", where(i), rsets, detail):
                        break
    except Exception as e:
        ctx.violation("count_topologies/raises", f"{tag}: TreeSequence.count_topologies({sets}) [{form}, {style}] "
                                                 f"raised {type(e).__name__}: {e}", detail)


def check_invalid_ids(ctx, rng, ts, view, sets, detail, tag):
    """Documented: 'raises ValueError if nodes in sample_sets are invalid'.  Which class is raised is an EITHER zone
    (see module docstring); returning counts is not.  Negative ids that Python indexing would map onto a sample
    (-1 = last node, -num_nodes = node 0) are the boundary."""
    N = view.num_nodes
    samples = view.samples()
    cands = [-1, -N, N, N + rng.randint(1, 5), 2 ** 31 - 1, 2 ** 31, 2 ** 32 + (samples[0] if samples else 0),
             -2 ** 31 - 1, 2 ** 63]
    cands += [s - N for s in samples[:3]]          # aliases of real samples under negative indexing
    bad_id = rng.choice(cands)
    bad = [list(s) for s in sets] or [[]]
    j = rng.randrange(len(bad))
    bad[j].insert(rng.randint(0, len(bad[j])), bad_id)
    ctx.feature(f"{tag}:invalid-id:" + ("negative-alias" if -N <= bad_id < 0 else "beyond" if bad_id >= N else "far"))
    calls = [("Tree", lambda: ts.first().count_topologies(bad)),
             ("TreeSequence", lambda: list(ts.count_topologies(bad)))]
    if abs(bad_id) < 2 ** 62:
        calls.append(("TreeSequence(int64 arrays)",
                      lambda: list(ts.count_topologies([np.array(s, dtype=np.int64) for s in bad]))))
        calls.append(("Tree(int64 arrays)",
                      lambda: ts.last().count_topologies(sample_sets=[np.array(s, dtype=np.int64) for s in bad])))
    for how, fn in calls:
        ctx.count("count-topologies-rejects-invalid-id")
        try:
            res = fn()
        except Exception:
            continue
        ctx.violation("count_topologies/invalid-id-accepted",
                      f"{tag}: {how}.count_topologies({bad}) returned {res!r:.300} for a {N}-node tree sequence "
                      f"(node {bad_id} does not exist; documented: ValueError)", detail)


# ------------------------------------------------------------------------------------------- family: life


def run_life(case, ctx):
    base = B()
    rng = case_rng(case)
    g = gen_life(rng)
    sets = g["sets"]
    k = g["k"]
    N = len(g["times"])
    pops = None
    style = rng.choice(["explicit", "explicit", "explicit", "by-pop"])
    if style == "by-pop":
        # documented default: all samples grouped by population, in id order; NULL-population samples belong to no
        # set, non-sample nodes with a population do not count, trailing populations may be empty
        pops = [NULL] * N
        for i, s in enumerate(sets):
            for u in s:
                pops[u] = i
        for u in range(N):
            if not g["flags"][u] & NODE_IS_SAMPLE and rng.random() < 0.5:
                pops[u] = rng.randrange(k)
        extra = rng.choice([0, 0, 1, 2]) if k <= 3 else 0
        k += extra
        sets = [sorted(u for u in range(N) if g["flags"][u] & NODE_IS_SAMPLE and pops[u] == p) for p in range(k)]
    elif rng.random() < 0.5:
        sets = [sorted(s) for s in sets]
    split = rng.choice([0.0, 0.0, 0.0, 0.3])
    m, nsplit = model_from_forests(g["bounds"], g["times"], g["flags"], g["pars"], pops, rng, split)
    if style == "by-pop":
        m.populations = [(b"",) for _ in range(k)]
    ts = to_ts(m)
    derive = rng.choice(["none", "none", "none", "delete_intervals", "keep_intervals", "decapitate"])
    L = g["bounds"][-1]
    if derive == "delete_intervals":
        a = rng.choice(g["bounds"][:-1] + [L / 4])
        b = rng.choice([x for x in g["bounds"][1:] + [a + 0.25] if x > a])
        ts = ts.delete_intervals([[a, b]], simplify=False)
    elif derive == "keep_intervals":
        a = rng.choice(g["bounds"][:-1] + [L / 4])
        b = rng.choice([x for x in g["bounds"][1:] + [a + 0.25] if x > a])
        iv = [[a, b]]
        if b < L and rng.random() < 0.5:
            iv.append([(b + L) / 2, L])
        ts = ts.keep_intervals(iv, simplify=False)
    elif derive == "decapitate":
        ts = ts.decapitate(rng.choice(sorted(set(g["times"]))) + rng.choice([0.0, 0.25]))
    view = View(ts)
    marked = [u for s in sets for u in s]
    tags = life_features(view, marked)
    for t in tags:
        ctx.feature(t)
    ctx.feature("life:derive:" + derive)
    ctx.feature("life:ids:" + g["id_mode"])
    ctx.feature(f"life:k={k}")
    if nsplit:
        ctx.feature("life:unsquashed")
    for f, pat in g["focus"].items():
        ctx.feature("life:script:" + pat)
    detail = {"rows": view.to_json(), "focus": {str(f): p for f, p in g["focus"].items()}, "derived_by": derive}
    ctx.sig(("life", tuple(view.rows), tuple(view.flags), tuple(map(tuple, sets))),
            nontrivial=len(view.breakpoints()) > 2 and any(sets))
    if case["k"] < 16:
        ctx.sample({"case": case, "edges": len(view.rows), "trees": len(view.breakpoints()) - 1, "sample_sets": sets,
                    "focus": detail["focus"]})
    # the reference's own precondition: samples are leaves everywhere
    parents = {p for _, _, p, _ in view.rows}
    assert not parents & set(view.samples())
    # oracle self-check: the contraction + class-weight reference of the big family == the plain brute force
    bps = view.breakpoints()
    tabs = {j: base.rank_table(j) for j in range(1, k + 1)}
    if k <= 4 and rng.random() < 0.3:
        for i in range(len(bps) - 1):
            x = (bps[i] + bps[i + 1]) / 2
            par = view.forest_at(x)
            if fast_counts(par, sets, tabs) != base.brute_counts(view, x, sets, tabs):
                raise AssertionError(f"fast reference != brute force at {x}")
        ctx.count("oracle-self-check(fast==brute)")
    check_counts(ctx, rng, ts, view, sets, detail, "life", default_ok=(style == "by-pop"),
                 prefer_style="lazy-mutating" if g["flicker"] else None)
    r = rng.random()
    if r < 0.2:
        check_invalid_ids(ctx, rng, ts, view, sets, detail, "life")
    elif r < 0.3:
        # no sets at all / only empty sets: every counter is empty
        for arg in ([], [[] for _ in range(rng.randint(1, 3))]):
            for how, fn in (("Tree", lambda: [t.count_topologies(arg) for t in ts.trees()]),
                            ("TreeSequence", lambda: list(ts.count_topologies(arg)))):
                ctx.count("count-topologies-empty-sets")
                try:
                    res = fn()
                except Exception as e:
                    ctx.violation("count_topologies/raises", f"{how}.count_topologies({arg}) raised "
                                                             f"{type(e).__name__}: {e}", detail)
                    continue
                if len(res) != ts.num_trees or any(any(c != 0 for cn in tc.topologies.values() for c in cn.values())
                                                   for tc in res):
                    ctx.violation("count_topologies/wrong-count", f"{how}.count_topologies({arg}) reports topologies "
                                                                  f"for empty sample sets", detail)


# ------------------------------------------------------------------------------------------- family: bigcount


def run_bigcount(case, ctx):
    base = B()
    rng = case_rng(case)
    mode = case.get("mode") or rng.choice(["wide", "deep", "manytrees", "bigsets"])
    ctx.feature("bigcount:" + mode)
    tree_share = 1.0
    if mode == "manytrees":
        T = rng.randint(120, 250)
        g = gen_life(rng, T=T, ns=rng.randint(5, 8), ni=rng.randint(5, 8), force=True, ks=(2, 3, 3, 4))
        sets, k = g["sets"], g["k"]
        m, _ = model_from_forests(g["bounds"], g["times"], g["flags"], g["pars"], None, rng, 0.0)
        tree_share = 0.3
    elif mode == "bigsets":
        # few internal nodes, 60-90 samples in k = 2 (sizes ~40 x ~40) or k = 5 sets
        k = rng.choice([2, 2, 5])
        ns = rng.randint(60, 90) if k == 2 else rng.randint(15, 22)
        ni = rng.randint(4, 8)
        T = rng.randint(1, 3)
        N = ns + ni
        times = [0.0] * ns + [float(j + 1) for j in range(ni)]
        flags = [NODE_IS_SAMPLE] * ns + [0] * ni
        sets = [[] for _ in range(k)]
        for u in range(ns):
            if rng.random() < 0.9:
                sets[rng.randrange(k)].append(u)
        pars = []
        par = {}
        for t in range(T):
            par = dict(par)
            for u in range(ns):
                if u not in par or rng.random() < 0.1:
                    par[u] = ns + rng.randrange(ni)
            for j in range(ni - 1):
                if rng.random() < 0.8:
                    par[ns + j] = ns + rng.randint(j + 1, ni - 1)
                else:
                    par.pop(ns + j, None)
            pars.append(par)
        bounds = [float(i) for i in range(T + 1)]
        m, _ = model_from_forests(bounds, times, flags, pars)
    elif mode == "wide":
        # one node with 256-300 children: set samples, other samples, dead-end leaves, cherries and one deep child;
        # in the second tree a block of children moves to another root (two roots contributing the same ranks)
        k = rng.choice([2, 3, 3])
        W = rng.choice([256, 257, 260, 300])
        nodes_t, flags = [], []

        def add(t, f):
            nodes_t.append(t)
            flags.append(f)
            return len(nodes_t) - 1

        hub = add(10.0, 0)
        other = add(11.0, 0)
        sets = [[] for _ in range(k)]
        par0 = {}
        kidsl = []
        for j in range(W):
            kind = rng.choice(["set"] * 8 + ["free"] * 3 + ["dead"] * 3 + ["cherry"])
            if kind in ("set", "free"):
                u = add(0.0, NODE_IS_SAMPLE)
                if kind == "set":
                    sets[rng.randrange(k)].append(u)
            elif kind == "dead":
                u = add(rng.choice([0.0, 1.0]), 0)
            else:
                u = add(2.0, 0)
                for _ in range(2):
                    s = add(0.0, NODE_IS_SAMPLE)
                    sets[rng.randrange(k)].append(s)
                    par0[s] = u
            par0[u] = hub
            kidsl.append(u)
        par1 = dict(par0)
        for u in rng.sample(kidsl, rng.randint(3, 40)):
            par1[u] = other
        par2 = dict(par1)
        par2[hub] = other
        pars = [par0, par1, par2][:rng.randint(2, 3)]
        times = nodes_t
        bounds = [float(i) for i in range(len(pars) + 1)]
        m, _ = model_from_forests(bounds, times, flags, pars)
    else:
        # deep: a chain of 300-600 nodes; set samples hang off it at random depths (mostly unary stretches between
        # them); the bottom of the chain changes from tree to tree, so every update travels the whole chain
        k = rng.choice([2, 3, 3, 4])
        D = rng.randint(300, 600)
        nsamp = rng.randint(8, 14)
        times = [0.0] * nsamp + [float(j + 1) for j in range(D)]
        flags = [NODE_IS_SAMPLE] * nsamp + [0] * D
        sets = [[] for _ in range(k)]
        for u in range(nsamp):
            sets[rng.randrange(k)].append(u)
        chain = {nsamp + j: nsamp + j + 1 for j in range(D - 1)}
        T = rng.randint(2, 3)
        pars = []
        attach = {u: nsamp + rng.choice([0, 0, 1, 2, rng.randrange(D), rng.randrange(D), D - 1]) for u in range(nsamp)}
        for t in range(T):
            if t:
                for u in rng.sample(range(nsamp), 2):
                    attach[u] = nsamp + rng.choice([0, 1, rng.randrange(D)])
            par = dict(chain)
            par.update(attach)
            if t == 1 and rng.random() < 0.5:
                cut = nsamp + rng.randrange(D - 1)
                del par[cut]                       # the chain breaks: two roots
            pars.append(par)
        bounds = [float(i) for i in range(T + 1)]
        m, _ = model_from_forests(bounds, times, flags, pars)
    ts = to_ts(m)
    view = View(ts)
    bps = view.breakpoints()
    ctx.feature(f"bigcount:k={k}")
    ctx.sig(("bigcount", mode, len(view.rows), tuple(map(tuple, sets)), case["k"]), nontrivial=True)
    tabs = {j: base.rank_table(j) for j in range(1, k + 1)}
    expected = [fast_counts(view.forest_at((bps[i] + bps[i + 1]) / 2), sets, tabs) for i in range(len(bps) - 1)]
    mx = 0
    for i in range(len(bps) - 1):
        kd = kids_of(view.forest_at((bps[i] + bps[i + 1]) / 2))
        mx = max([mx] + [len(c) for c in kd.values()])
    if mx >= 256:
        ctx.feature("bigcount:node-with->=256-children")
    if len(bps) - 1 >= 100:
        ctx.feature("bigcount:>=100-trees")
    if max(len(s) for s in sets) >= 30:
        ctx.feature("bigcount:set-of->=30-samples")
    detail = {"mode": mode, "nodes": view.num_nodes, "edges": len(view.rows), "trees": len(bps) - 1}
    if view.num_nodes <= 40:
        detail["rows"] = view.to_json()
    check_counts(ctx, rng, ts, view, sets, detail, "bigcount", expected=expected, tree_share=tree_share, fast=True)


# ------------------------------------------------------------------------------------------- family: rforms


def spread_leaf_ids(rng, par, n):
    """Renumber a topology ({child: parent}, leaves 0..n-1) so that leaf i gets the i-th smallest of n ids drawn from
    0..N-1 (order preserving on the leaves) and the internal nodes fill the other ids in random order.  Returns
    (tree sequence, model, leaf ids)."""
    internal = sorted(set(par.values()))
    N = n + len(internal) + rng.choice([0, 1, 2])
    leaf_ids = sorted(rng.sample(range(N), n))
    rest = [u for u in range(N) if u not in set(leaf_ids)]
    rng.shuffle(rest)
    newid = {i: leaf_ids[i] for i in range(n)}
    for j, u in enumerate(internal):
        newid[u] = rest[j]
    kids = kids_of(par)
    times = [0.0] * N
    scale = rng.choice([1.0, 0.25, 16.0])

    def settime(u):
        if u not in kids:
            return 0.0
        t = max(settime(c) for c in kids[u]) + rng.randint(1, 4) * scale
        times[newid[u]] = t
        return t

    for r in [p for p in kids if p not in par]:
        settime(r)
    m = RowModel(rng.choice([1.0, 3.0]))
    m.nodes = [(NODE_IS_SAMPLE if u in set(leaf_ids) else 0, times[u], NULL, NULL, b"") for u in range(N)]
    m.edges = sorted(((0.0, m.L, newid[p], newid[c], b"") for c, p in par.items()), key=sort_edges_key(m))
    return to_ts(m), m, leaf_ids


def run_rforms(case, ctx):
    base = B()
    rng = case_rng(case)
    mode = ("argforms", "leafids", "treesrc", "labellings", "argforms", "leafids")[(case["k"] // 9) % 6]
    ctx.feature("rforms:" + mode)
    nmax = 5 if case["tier"] == "quick" else 6
    n = rng.randint(1, nmax) if mode != "leafids" else rng.randint(2, nmax)
    tab = base.rank_table(n)
    forms = list(tab.items())
    f, (s, l) = forms[rng.randrange(len(forms))]
    S = base.A000669[n]
    Ls = sum(1 for _, r in forms if r[0] == s)
    ctx.sig(("rforms", mode, n, s, l, case["k"]), nontrivial=n >= 3)
    if mode == "argforms":
        R = tskit.Rank
        spellings = [
            ("tuple", lambda: tskit.Tree.unrank(n, (s, l))),
            ("keywords", lambda: tskit.Tree.unrank(num_leaves=n, rank=(s, l))),
            ("keywords-swapped", lambda: tskit.Tree.unrank(rank=(s, l), num_leaves=n)),
            ("list", lambda: tskit.Tree.unrank(n, [s, l])),
            ("Rank", lambda: tskit.Tree.unrank(n, R(s, l))),
            ("Rank-keywords", lambda: tskit.Tree.unrank(n, R(label=l, shape=s))),
            ("numpy-int64", lambda: tskit.Tree.unrank(np.int64(n), (np.int64(s), np.int64(l)))),
            ("numpy-int32", lambda: tskit.Tree.unrank(np.int32(n), (np.int32(s), np.int32(l)))),
            ("numpy-uint8-n", lambda: tskit.Tree.unrank(np.uint8(n), (s, l))),
            ("numpy-array-rank", lambda: tskit.Tree.unrank(n, np.array([s, l]))),
            ("rank()-of-a-tree", lambda: tskit.Tree.unrank(n, tskit.Tree.unrank(n, (s, l)).rank())),
            ("span+branch_length", lambda: tskit.Tree.unrank(n, (s, l), span=2.5, branch_length=0.5)),
            ("via-instance", lambda: tskit.Tree.unrank(1, (0, 0)).unrank(n, (s, l))),
        ]
        rng.shuffle(spellings)
        for name, fn in spellings[:7]:
            ctx.count("unrank-argument-forms")
            ctx.feature("rforms:unrank:" + name)
            try:
                t = fn()
            except Exception as e:
                ctx.violation("unrank/valid-rank-rejected",
                              f"Tree.unrank(n={n}, rank=({s}, {l})) spelled as {name} raised {type(e).__name__}: {e}")
                continue
            kw = {"span": 2.5, "branch_length": 0.5} if name == "span+branch_length" else {}
            ft = base.tree_form(ctx, t, n, **kw)
            if ft is None:
                continue
            if ft != f:
                ctx.violation("unrank/argument-form", f"Tree.unrank(n={n}, rank=({s}, {l})) spelled as {name} gives "
                                                      f"{base.fmt(ft)}; item ({s}, {l}) of all_trees({n}) is "
                                                      f"{base.fmt(f)}")
            r = t.rank()
            ctx.count("rank-result-type")
            ok = (isinstance(r, tskit.Rank) and isinstance(r, tuple) and len(r) == 2 and r == (s, l)
                  and r.shape == s and r.label == l and hash(r) == hash((s, l))
                  and isinstance(r.shape, (int, np.integer)) and isinstance(r.label, (int, np.integer)))
            if not ok:
                ctx.violation("rank/result-type", f"rank() of Tree.unrank({n}, ({s}, {l})) [{name}] is {r!r} "
                                                  f"(type {type(r).__name__}); documented: tskit.Rank(shape={s}, "
                                                  f"label={l}), a tuple usable as a Counter key")
        # boundaries through the other spellings
        for name, fn in (("Rank", lambda: tskit.Tree.unrank(n, tskit.Rank(S, 0))),
                         ("keywords", lambda: tskit.Tree.unrank(num_leaves=n, rank=(s, Ls))),
                         ("list", lambda: tskit.Tree.unrank(n, [s, Ls])),
                         ("numpy", lambda: tskit.Tree.unrank(np.int64(n), (np.int64(S), np.int64(0)))),
                         ("numpy-negative", lambda: tskit.Tree.unrank(n, (np.int64(-1), 0)))):
            ctx.count("out-of-range-probe")
            ctx.count("out-of-range-probe:forms")
            try:
                t = fn()
            except ValueError:
                continue
            except Exception as e:
                ctx.violation("unrank/out-of-range-wrong-exception",
                              f"out-of-range rank for n={n} (shapes {S}, labellings of shape {s}: {Ls}) spelled as "
                              f"{name} raised {type(e).__name__}: {e}; documented: ValueError")
                continue
            ctx.violation("unrank/out-of-range-accepted",
                          f"out-of-range rank for n={n} (shapes {S}, labellings of shape {s}: {Ls}) spelled as {name} "
                          f"returned a tree with rank() {tuple(t.rank())}")
        # generators: keyword / numpy spellings give the same enumeration (first items compared by canonical form)
        want = [ff for ff, _ in sorted(forms, key=lambda it: it[1])]
        gens = [("all_trees(num_leaves=)", lambda: tskit.all_trees(num_leaves=n)),
                ("all_trees(np.int64)", lambda: tskit.all_trees(np.int64(n))),
                ("all_trees(n, span=)", lambda: tskit.all_trees(n, span=3)),
                ("all_trees(n, 3)", lambda: tskit.all_trees(n, 3))]
        name, fn = rng.choice(gens)
        span = 3 if "3" in name or "span" in name else 1
        ctx.count("generator-argument-forms")
        try:
            got = []
            for t in itertools.islice(fn(), 40):
                ft = base.tree_form(ctx, t, n, span=span, what="all_trees")
                got.append(ft)
            if got != want[:len(got)] or len(got) != min(40, len(want)):
                ctx.violation("all_trees/argument-form", f"{name} with n={n}: first items differ from all_trees({n})")
        except Exception as e:
            ctx.violation("all_trees/argument-form", f"{name} with n={n} raised {type(e).__name__}: {e}")
        ctx.count("generator-argument-forms")
        try:
            sforms = [base.tree_form(ctx, t, n, span=2, what="all_tree_shapes")
                      for t in tskit.all_tree_shapes(num_leaves=n, span=2)]
            shapes = [base.shape_of(ff) for ff in sforms if ff is not None]
            if sorted(shapes) != sorted({base.shape_of(ff) for ff in want}) or len(shapes) != S:
                ctx.violation("all_tree_shapes/cardinality",
                              f"all_tree_shapes(num_leaves={n}, span=2) yields {len(shapes)} shapes, expected {S}")
        except Exception as e:
            ctx.violation("all_tree_shapes/argument-form", f"all_tree_shapes(num_leaves={n}, span=2) raised "
                                                           f"{type(e).__name__}: {e}")
        return
    par0 = forest_par(tskit.Tree.unrank(n, (s, l)))
    if mode == "leafids":
        # order-preserving renumbering of the leaves, internal ids anywhere (also below the leaf ids)
        ts, m, leaf_ids = spread_leaf_ids(rng, par0, n)
        ctx.count("rank-invariance")
        ctx.count("rank-invariance:spread-leaf-ids")
        if leaf_ids != list(range(n)):
            ctx.feature("rforms:leaf-ids-not-0..n-1")
        if min(set(range(ts.num_nodes)) - set(leaf_ids), default=10 ** 9) < max(leaf_ids):
            ctx.feature("rforms:internal-id-below-a-leaf-id")
        try:
            r = tuple(ts.first().rank())
        except Exception as e:
            ctx.violation("rank/raises-on-valid-tree", f"rank() raised {type(e).__name__}: {e} on a copy of "
                                                       f"Tree.unrank({n}, ({s}, {l})) with leaf ids {leaf_ids}",
                          {"model": m.to_json()})
            return
        if r != (s, l):
            ctx.violation("rank/not-invariant",
                          f"rank() = {r} on a copy of Tree.unrank({n}, ({s}, {l})) whose leaves were renumbered "
                          f"order-preservingly to {leaf_ids} (internal ids "
                          f"{sorted(set(range(ts.num_nodes)) - set(leaf_ids))})", {"model": m.to_json()})
        return
    if mode == "labellings":
        # all_tree_labellings of a tree taken out of a multi-tree sequence / with spread leaf ids
        if rng.random() < 0.5 and n >= 2:
            ts, m, _ = spread_leaf_ids(rng, par0, n)
            src = ts.first()
            how = "spread leaf ids"
        else:
            other = forest_par(tskit.Tree.unrank(n, forms[rng.randrange(len(forms))][1]))
            ts, m = base.rebuild(rng, [(other, n), (par0, n)], n)
            src = ts.last() if rng.random() < 0.5 else ts.at_index(ts.num_trees - 1).copy()
            how = "second tree of a two-tree sequence"
        ctx.feature("rforms:labellings:" + how.replace(" ", "-"))
        span = rng.choice([1, 2])
        fn = (lambda: tskit.all_tree_labellings(tree=src, span=span)) if rng.random() < 0.5 else \
            (lambda: tskit.all_tree_labellings(src, span))
        want = sorted(ff for ff, r in forms if r[0] == s)
        got = []
        try:
            for t in itertools.islice(fn(), Ls + 3):
                ctx.count("all_tree_labellings")
                ft = base.tree_form(ctx, t, n, span=span, what="all_tree_labellings")
                if ft is None:
                    return
                got.append(ft)
        except Exception as e:
            ctx.violation("all_tree_labellings/raises", f"all_tree_labellings({how}, shape {s} of n={n}) raised "
                                                        f"{type(e).__name__}: {e}", {"model": m.to_json()})
            return
        if sorted(got) != want:
            ctx.violation("all_tree_labellings/set",
                          f"all_tree_labellings({how}; shape {s} of n={n}) yields {len(got)} trees "
                          f"({len(set(got))} distinct); the shape has {Ls} labellings", {"model": m.to_json()})
        return
    # treesrc: rank() on the trees of a multi-tree sequence obtained in different ways; the reused Tree object
    ntrees = rng.choice([2, 3, 4])
    want, tops = [], []
    for _ in range(ntrees):
        ff, r = forms[rng.randrange(len(forms))]
        want.append(r)
        tops.append((forest_par(tskit.Tree.unrank(n, r)), n))
    ts, m = base.rebuild(rng, tops, n)
    bps = m.breakpoints()
    if ts.num_trees != ntrees:
        return
    source = rng.choice(TREE_SOURCES)
    ctx.feature("rforms:tree-via:" + source)
    try:
        for i, t in trees_via(ts, source, bps, rng):
            ctx.count("rank-invariance")
            ctx.count("rank-tree-sources")
            r = tuple(t.rank())
            r2 = tuple(t.rank())
            if r != want[i] or r2 != r:
                ctx.violation("rank/not-invariant", f"rank() = {r} (second call {r2}) on tree {i} obtained via {source}; "
                                                    f"it is a copy of Tree.unrank({n}, {want[i]})",
                              {"model": m.to_json()})
                break
    except Exception as e:
        ctx.violation("rank/raises-on-valid-tree", f"rank() on trees via {source} raised {type(e).__name__}: {e}",
                      {"model": m.to_json()})


def forest_par(tree):
    par, _ = B().forest_of(tree.tree_sequence, 0)
    return par


# ------------------------------------------------------------------------------------------- wide topologies (big)


def wide_topology(rng):
    """Root with >= 255 children: leaves plus a few cherries / 3-stars (the partition [1^a 2^b 3^c] is reached after
    p(2b+3c-1)+few partitions, so tskit's rank/unrank stay fast)."""
    W = rng.choice([255, 256, 257, 300, 400])
    b = rng.choice([0, 0, 1, 2, 3])
    c = rng.choice([0, 0, 1, 2])
    n = W + b + 2 * c              # W children in total
    labels = list(range(n))
    rng.shuffle(labels)
    par = {}
    root = n
    nxt = n + 1
    pos = 0
    for size, cnt in ((2, b), (3, c)):
        for _ in range(cnt):
            for x in labels[pos:pos + size]:
                par[x] = nxt
            par[nxt] = root
            nxt += 1
            pos += size
    for x in labels[pos:]:
        par[x] = root
    return par, n
