"""Generators and the fast reference used by lib/props/c03.py (audit round: boundary and large instances).

Everything here is pure model code (RowModel rows), shares nothing with the C library and draws all its
randomness from the `rng` passed in.

  fast_site_states   top-down evaluation of the nearest-mutation rule for ALL nodes of one site in
                     O(nodes log nodes + edges + mutations); lib.model.allele_at / is_missing walk up from
                     every node separately, which is quadratic on 1000-deep chains.  c03.GenoRef cross-checks
                     the two on small models.
  build_edge         small models whose sites sit ON the places where an off-by-one hides: position 0,
                     exactly L/2 (seek-from-null picks its direction there), exactly on / just before a
                     breakpoint, the last position of the sequence; with isolated samples that carry 0, 1 or
                     2 mutations, sites where every isolated sample is "rescued" by a mutation, 2-4 stacked
                     mutations on one node and sites with 4/5, 8/9, 16/17, 32/33, 64/65 distinct states
                     (the allele table of a Variant doubles at 4, 8, 16, ...).
  build_big          structurally extreme trees: stars and root sets with 255..700 children / roots, combs
                     and unary chains of depth 1000+, 256/512-leaf binary trees, two-level fans; sites with
                     129..300 distinct states, alleles of 256..70000 characters.
"""
import math

from lib import gen
from lib.model import NODE_IS_SAMPLE, NULL, RowModel, mutation_parents, sort_edges_key

SIMPLE = ["A", "C", "G", "T"]
MIXED = ["A", "C", "G", "T", "", "AC", "GGT", "é", "0", "1"]


# ------------------------------------------------------------------------------------ fast reference


def fast_site_states(m, j):
    """(allele[u], missing[u]) for every node u at site j.

    Definition used (data model, "Missing data" and Variant docs): the state of a node is the derived state
    of the nearest mutation on the path to its root - the LAST listed one when several sit on the same node -
    else the ancestral state; a node is missing iff it is a sample, has neither parent nor children in the
    tree covering the site, and carries no mutation at the site.  Parents are strictly older than children,
    so visiting nodes by decreasing time sees every parent before its children."""
    pos, anc, _ = m.sites[j]
    parent = {}
    for e in m.edges:
        if e[0] <= pos < e[1]:
            parent[e[3]] = e[2]
    has_child = set(parent.values())
    last = {}
    for mu in m.mutations:
        if mu[0] == j:
            last[mu[1]] = mu[2]
    n = m.num_nodes
    allele = [None] * n
    for u in sorted(range(n), key=lambda v: -m.nodes[v][1]):
        if u in last:
            allele[u] = last[u]
        elif u in parent:
            allele[u] = allele[parent[u]]
        else:
            allele[u] = anc
    missing = [bool(m.nodes[u][0] & NODE_IS_SAMPLE) and u not in parent and u not in has_child
               and u not in last for u in range(n)]
    return allele, missing


def isolated_samples_at(m, pos):
    parent = {}
    for e in m.edges:
        if e[0] <= pos < e[1]:
            parent[e[3]] = e[2]
    has_child = set(parent.values())
    return [u for u in range(m.num_nodes)
            if (m.nodes[u][0] & NODE_IS_SAMPLE) and u not in parent and u not in has_child]


def any_isolated_sample(m):
    bps = m.breakpoints()
    for a, b in zip(bps, bps[1:]):
        if isolated_samples_at(m, (a + b) / 2):
            return True
    return False


# ------------------------------------------------------------------------------------ site decoration


def _finish_sites(m, sites, per_site):
    """per_site[j] = [(node, derived), ...] in the order 'older first on the same node'.  Rows are ordered
    so that a mutation on an ancestor comes before those below it (node time decreasing; Python's sort is
    stable, so the order on one node is kept), times are unknown, parents come from the reference."""
    muts = []
    for j, lst in enumerate(per_site):
        for u, d in sorted(lst, key=lambda z: -m.nodes[z[0]][1]):
            muts.append((j, u, d, NULL, None, b""))
    m.sites = sites
    m.mutations = muts
    par = mutation_parents(m)
    m.mutations = [(s, u, d, par[k], t, md) for k, (s, u, d, _, t, md) in enumerate(m.mutations)]
    return m


def distinct_alleles(k, pool):
    """k distinct strings, the first ones from `pool`."""
    out = list(dict.fromkeys(pool))[:k]
    i = 0
    while len(out) < k:
        s = f"x{i}" if i % 3 else chr(ord("a") + (i // 3) % 26) + str(i)
        if s not in out:
            out.append(s)
        i += 1
    return out


ALLELE_COUNT_BOUNDARIES = [4, 5, 8, 9, 16, 17, 32, 33, 64, 65]


def isolate_some(rng, m):
    """Cut a leaf sample loose over one or two whole trees (so that it is an isolated sample there)."""
    bps = m.breakpoints()
    parents = {e[2] for e in m.edges}
    cands = [u for u in m.samples() if u not in parents]
    if not cands or len(bps) < 2:
        return False
    done = False
    for _ in range(rng.randint(1, 2)):
        u = rng.choice(cands)
        i = rng.randrange(len(bps) - 1)
        a, b = bps[i], bps[min(len(bps) - 1, i + rng.randint(1, 2))]
        new = []
        for e in m.edges:
            if e[3] != u or e[1] <= a or e[0] >= b:
                new.append(e)
                continue
            done = True
            if e[0] < a:
                new.append((e[0], a) + tuple(e[2:]))
            if e[1] > b:
                new.append((b, e[1]) + tuple(e[2:]))
        m.edges = new
    m.edges = sorted(m.edges, key=sort_edges_key(m))
    return done


def edge_positions(rng, m, discrete):
    L = m.L
    bps = [b for b in m.breakpoints() if 0 < b < L]
    forced = [0.0, L / 2]
    rng.shuffle(bps)
    for b in bps[:4]:
        forced.append(b)
        forced.append(b - 1 if discrete else math.nextafter(b, 0))
    if discrete:
        forced += [L - 1, L / 2 - 1]
    else:
        forced += [math.nextafter(L, 0), math.nextafter(L / 2, 0), math.nextafter(L / 2, L), 5e-324]
    forced = [p for p in dict.fromkeys(forced) if 0 <= p < L and (not discrete or float(p).is_integer())]
    rng.shuffle(forced)
    keep = forced[: rng.randint(2, 8)]
    if discrete:
        extra = [float(rng.randrange(int(L))) for _ in range(rng.randint(0, 3))]
    else:
        extra = [rng.randint(0, 63) * L / 64 for _ in range(rng.randint(0, 3))]
    return sorted(set(float(p) for p in keep + extra))


def decorate_sites_edge(rng, m, discrete, pool):
    n = m.num_nodes
    positions = edge_positions(rng, m, discrete)
    sites, per_site = [], []
    many_site = rng.randrange(len(positions)) if rng.random() < 0.5 else -1
    for j, pos in enumerate(positions):
        anc = rng.choice(pool)
        sites.append((pos, anc, b""))
        iso = isolated_samples_at(m, pos)
        parent = m.forest_at(pos)
        roots = sorted({u for u in range(n) if u not in parent and u in set(parent.values())})
        lst = []
        mode = rng.choice(["isolated", "isolated", "isolated-all", "roots", "stack", "random", "random", "none"])
        if j == many_site:
            mode = "many"
        if mode.startswith("isolated") and not iso:
            mode = "random"
        if mode == "roots" and not roots:
            mode = "random"
        if mode == "isolated":
            for u in rng.sample(iso, rng.randint(1, len(iso))):
                for _ in range(rng.choice([1, 1, 2, 3])):
                    lst.append((u, rng.choice(pool)))
        elif mode == "isolated-all":
            # every isolated sample carries a mutation: the site has NO missing data although samples are isolated
            for u in iso:
                for _ in range(rng.choice([1, 1, 2])):
                    lst.append((u, rng.choice(pool)))
        elif mode == "roots":
            for u in roots:
                lst.append((u, rng.choice(pool)))
        elif mode == "stack":
            u = rng.randrange(n)
            for _ in range(rng.randint(2, 4)):
                lst.append((u, rng.choice(pool + [anc])))
        elif mode == "many":
            k = rng.choice(ALLELE_COUNT_BOUNDARIES)
            names = distinct_alleles(k, [anc] + [a for a in pool if a != anc])
            # names[0] is the ancestral state; one mutation per further state, on random nodes (stacking allowed)
            for a in names[1:]:
                lst.append((rng.randrange(n), a))
        elif mode == "random":
            for _ in range(rng.choice([1, 1, 2, 3, 5])):
                lst.append((rng.randrange(n), rng.choice(pool)))
        if mode != "none" and rng.random() < 0.3:
            lst.append((rng.randrange(n), rng.choice(pool)))
        per_site.append(lst)
    return _finish_sites(m, sites, per_site)


def build_edge(rng):
    discrete = rng.random() < 0.6
    L = rng.choice([4.0, 8.0, 16.0, 32.0]) if discrete else rng.choice([1.0, 2.0, 8.0, 100.0])
    m = gen.gen_topology(rng, n=rng.randint(2, 12), max_bp=rng.choice([3, 7, 15]), L=L, discrete=discrete,
                         sample_mode=rng.choice(["young", "young", "all", "any"]), gaps=rng.random() < 0.25)
    if rng.random() < 0.7:
        isolate_some(rng, m)
    r = rng.random()
    if r < 0.55:
        pool = SIMPLE
    elif r < 0.75:
        pool = MIXED
    elif r < 0.85:
        pool = ["0", "1"]
    elif r < 0.90:
        pool = [""]  # the whole ancestral_state and derived_state columns are empty (unless a many-states site adds names)
        m.tags.add("allele-pool:only-empty-string")
    elif r < 0.95:
        pool = ["", "A"]
        m.tags.add("allele-pool:empty-string-and-A")
    else:
        pool = ["A"]  # all rows identical: every mutation is silent
        m.tags.add("allele-pool:single-state")
    decorate_sites_edge(rng, m, discrete, pool)
    m.refseq = None
    return m


# ------------------------------------------------------------------------------------ large instances


BIG_SHAPES = ["star", "star", "roots", "comb", "chain", "fan", "binary"]


def _big_topology(rng, shape, size):
    """(nodes, {child: parent}) - leaves at time 0, everything else strictly older than its children."""
    nodes = []
    par = {}

    def add(flags, time):
        nodes.append((flags, float(time), NULL, NULL, b""))
        return len(nodes) - 1

    if shape == "star":
        root = add(rng.choice([0, 0, NODE_IS_SAMPLE]), 1)
        for _ in range(size):
            par[add(NODE_IS_SAMPLE, 0)] = root
        if rng.random() < 0.4:  # a unary root above the star
            par[root] = add(0, 2)
    elif shape == "roots":
        for _ in range(size):
            add(NODE_IS_SAMPLE, 0)
        a, b, c = add(NODE_IS_SAMPLE, 0), add(NODE_IS_SAMPLE, 0), add(0, 1)
        par[a] = par[b] = c
    elif shape == "comb":
        prev = add(NODE_IS_SAMPLE, 0)
        for i in range(size):
            leaf = add(NODE_IS_SAMPLE, 0)
            inner = add(NODE_IS_SAMPLE if rng.random() < 0.02 else 0, i + 1)
            par[leaf] = inner
            par[prev] = inner
            prev = inner
    elif shape == "chain":
        prev = add(NODE_IS_SAMPLE, 0)
        for i in range(size):
            inner = add(NODE_IS_SAMPLE if rng.random() < 0.05 else 0, i + 1)
            par[prev] = inner
            prev = inner
    elif shape == "fan":
        root = add(0, 2)
        for _ in range(size):
            mid = add(rng.choice([0, 0, 0, NODE_IS_SAMPLE]), 1)
            par[mid] = root
            for _ in range(rng.choice([1, 1, 2, 3])):
                par[add(NODE_IS_SAMPLE, 0)] = mid
    else:  # binary
        level = [add(NODE_IS_SAMPLE, 0) for _ in range(size)]
        t = 1
        while len(level) > 1:
            nxt = []
            for i in range(0, len(level) - 1, 2):
                p = add(0, t)
                par[level[i]] = par[level[i + 1]] = p
                nxt.append(p)
            if len(level) % 2:
                nxt.append(level[-1])
            level = nxt
            t += 1
    return nodes, par


def build_big(rng, allow_huge=False):
    shape = rng.choice(BIG_SHAPES)
    r = rng.random()
    if shape in ("comb", "chain"):
        size = rng.choice([1000, 1024, 1100]) if r < (0.5 if allow_huge else 0.4) else rng.choice([255, 256, 257, 300])
        if allow_huge and r < 0.1:
            size = 3000
    elif shape == "binary":
        size = rng.choice([256, 257, 512])
    else:
        size = rng.choice([255, 256, 257, 300, 511, 513, 700])
        if allow_huge and r < 0.06:
            # (the first decode on a 65537-leaf star takes seconds: sample lists are rebuilt per inserted edge)
            size = rng.choice([32767, 32769, 65537]) if shape in ("star", "roots") else 2000
    nodes, par = _big_topology(rng, shape, size)
    m = RowModel(rng.choice([4.0, 8.0, 16.0]))
    m.nodes = nodes
    L = m.L
    edges = []
    two = rng.random() < 0.5
    if two:
        # second tree: a few leaves are cut loose (isolated samples => missing data) or moved to another parent
        x = rng.choice([L / 2, 1.0, L - 1])
        inner = sorted(set(par.values()))
        loose = set(rng.sample(sorted(par), min(len(par), rng.randint(1, 12))))
        for c, p in par.items():
            if c in loose:
                edges.append((0.0, x, p, c, b""))
                older = [q for q in inner if nodes[q][1] > nodes[c][1] and q != p]
                if older and rng.random() < 0.5:
                    edges.append((x, L, rng.choice(older), c, b""))
            else:
                edges.append((0.0, L, p, c, b""))
    else:
        edges = [(0.0, L, p, c, b"") for c, p in par.items()]
    m.edges = sorted(edges, key=sort_edges_key(m))
    m.tags |= {f"big:{shape}", "big:two-trees" if two else "big:one-tree"}
    n = m.num_nodes
    r = rng.random()
    pool = SIMPLE if r < 0.75 else MIXED
    ns = rng.randint(2, 4)
    positions = sorted(rng.sample(range(int(L)), ns))
    special = rng.choice(["many", "many", "long", "none"])
    sp_site = rng.randrange(ns)
    leaves = [u for u in range(n) if nodes[u][1] == 0.0]
    inner = sorted(set(par.values())) or leaves
    sites, per_site = [], []
    for j, pos in enumerate(positions):
        anc = rng.choice(pool)
        lst = []
        if j == sp_site and special == "many":
            k = rng.choice([17, 33, 65, 128, 129, 256, 257, 300])
            names = distinct_alleles(k, [anc] + [a for a in pool if a != anc])
            for a in names[1:]:
                lst.append((rng.choice(leaves) if rng.random() < 0.8 else rng.choice(inner), a))
            m.tags.add("big:many-alleles")
        elif j == sp_site and special == "long":
            ln = rng.choice([255, 256, 257, 65535, 65536, 70000])
            long_a = ("ACGT" * (ln // 4 + 1))[:ln]
            if rng.random() < 0.5:
                anc = long_a
                lst.append((rng.choice(inner), rng.choice(SIMPLE)))
            else:
                lst.append((rng.choice(inner), long_a))
            lst.append((rng.choice(leaves), rng.choice(SIMPLE)))
            m.tags.add("big:long-allele")
        else:
            for _ in range(rng.choice([1, 2, 3, 6])):
                u = rng.choice(inner) if rng.random() < 0.6 else rng.choice(leaves)
                lst.append((u, rng.choice(pool)))
            if rng.random() < 0.5:
                # the node with the largest fan-out / the top of the deepest path: its whole subtree is repainted
                top = max(inner, key=lambda q: nodes[q][1])
                lst.append((top, rng.choice(pool)))
        sites.append((float(pos), anc, b""))
        per_site.append(lst)
    _finish_sites(m, sites, per_site)
    m.refseq = None
    return m
