ASSUME_COMMON = [
    "the Python reference model (lib/model.py) states the documented semantics correctly",
    "tskit's raw column accessors return what is stored (cross-checked by C05/C13)",
    "ASan/UBSan observe only executed paths; red-zone limits apply",
]
