from lib.props.meta_common import ASSUME_COMMON

ID = "C01"
META = dict(
    LEVEL="exploration",
    RULE=("forest-walk generated table collections (random parent maps mutated at random breakpoints, "
          "decorated with sites/mutations/metadata) crossed with sample_lists x root_threshold x tracked_samples; "
          "every tree reached by trees(), reversed, at(x) at left/mid/nextafter(right), at_index, first/last and by one reused Tree object swept forward, off the end, backward and re-positioned with first()/last() is "
          "compared view-by-view with {child: parent} computed from the edge rows. A case is distinct by the sha1 "
          "of its full row tuples and non-trivial when it has at least one edge."),
    REQUIRED=["check_tree:trees()", "check_tree:at", "check_tree:reused-tree", "check_tree:copy", "check_tree:aslist", "edge_diffs"],
    ASSUMPTIONS=ASSUME_COMMON,
    BUDGET={"quick": 45.0, "thorough": 900.0},
)
