from lib.props.meta_common import ASSUME_COMMON

ID = "C01"
META = dict(
    LEVEL="exploration",
    RULE=("forest-walk generated table collections (random parent maps mutated at random breakpoints, "
          "decorated with sites/mutations/metadata; parents of equal time in permuted row order for a share) plus, "
          "hash-interleaved so that every shard sees them, msprime simulations (1/60), structurally extreme instances "
          "(2/60, kinds cycled: star/chain/comb/isolated/two-level/broom with >= 256 children, roots, samples or "
          "path length) and ten fixed extremes (1/60: zero nodes, one node, zero samples, sub-interval edges ...); "
          "the TreeSequence is made through tree_sequence(), build_index, load_tables, dump_tables, file and pickle; "
          "crossed with sample_lists x root_threshold (1-3, exactly on / one above a root's sample count, number of "
          "samples, 2^31-1) x tracked_samples (list, tuple, int32/int64 arrays, numpy scalars, deprecated "
          "tracked_leaves / leaf_lists / sample_counts spellings, positional); every tree reached by trees(), "
          "reversed, at(x) at left / next double above / mid / nextafter(right) / -0.0 as float, numpy.float64 and int, "
          "at_index (also negative and numpy ints), first/last, aslist, copy(), a copy stepped on with next/prev, and by "
          "one reused Tree object swept forward, off the end, backward, re-positioned with first()/last() and then "
          "moved by random seek / seek_index / clear / next / prev, is compared view-by-view with {child: parent} "
          "computed from the edge rows (arrays and the per-node accessor methods, deprecated get_* aliases, "
          "traversal orders with and without a root argument incl. the virtual root, per-tree sites on every path, "
          "the mutation -> edge map); edge_diffs in both directions with and without include_terminal and in the "
          "documented edge order, edgesets/records as an exact cover, coiterate with itself and with another tree "
          "sequence. A case is distinct by the sha1 of its full row tuples and non-trivial when it has at least one "
          "edge."),
    REQUIRED=["check_tree:trees()", "check_tree:at", "check_tree:at_index", "check_tree:reused-tree",
              "check_tree:reused-jumps", "check_tree:copy", "check_tree:copy-then-step", "check_tree:aslist",
              "check_tree:large", "wide-deep", "edge_diffs", "edge_diffs:order", "edge_diffs:terminal", "edgesets",
              "coiterate:other"],
    ASSUMPTIONS=ASSUME_COMMON,
    BUDGET={"quick": 45.0, "thorough": 900.0},
)
