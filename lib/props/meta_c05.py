import os

from lib.props.meta_common import ASSUME_COMMON

ID = "C05"
META = dict(
    LEVEL="exploration",
    RULE=("generated table collections, valid tree sequences or not (forest-walk models, junk rows with NaN/inf/-0.0/"
          "subnormal values and out-of-range ids, ragged columns with empty and long entries, NUL/0xFF metadata, "
          "JSON/struct/raw non-ASCII schemas, reference sequences, provenance, built/arbitrary/no index) pushed through "
          "(a) random dump/load programs over files, pipes and socketpairs checked by a FIFO model, independent kastore "
          "header arithmetic and EOFError at the end, (b) path dumps parsed independently and loaded with every skip "
          "option and re-encoded with 64-bit offsets, (c) copy/pickle/dict/TreeSequence interchange, (d) single- and "
          "two-class perturbation pairs x subsets of the six ignore_* flags for equals/assert_equals at collection, "
          "table and TreeSequence level (incl. -0.0 vs 0.0 and NaN payloads), (e) chains of 3-6 transports applied to "
          "ONE travelling object with a never-serialised twin, (f) forced structurally extreme objects (> 65535 rows, "
          "ragged entries/columns > 64 KiB, MiB reference sequences, > 64 KiB texts, 2^16-child indexed stars) also fed "
          "by `cat` through pipes/socketpairs. Files and streams are handed over in every argument form (str, bytes, "
          "pathlib, os.PathLike, keyword, buffered/raw file object, integer descriptor, socket object), dicts also "
          "through _tskit.LightweightTableCollection, with optional keys absent or None, and objects in the middle of "
          "a seekable multi-object file are loaded from a positioned handle with and without skip options. A case is "
          "distinct by the canonical bit-exact row content of its objects and non-trivial when some table has a row."),
    REQUIRED=["stale-index-roundtrip", "same:stream-load", "stream-offset", "eof", "same:path-load", "file-structure", "skip-load",
              "same:copy", "same:pickle", "same:fromdict", "same:dump_tables", "equals", "assert_equals",
              "table-equals", "fromdict-optional-key", "load-at-offset", "same:chain", "chain-equals",
              "same:lwt-roundtrip", "table-copy", "table-pickle", "ts-surface", "file-optional-key",
              "same:large-path-load", "cat-stream-load"],
    ASSUMPTIONS=ASSUME_COMMON + [
        "offset columns needing 64 bits (> 4 GiB of ragged data) are exercised only through a re-encoded file and "
        "asdict(force_offset_64=True), not through genuinely huge columns",
    ],
    # seconds per worker; VERIF_C05_THOROUGH_BUDGET shortens the thorough tier while testing
    BUDGET={"quick": 50.0, "thorough": float(os.environ.get("VERIF_C05_THOROUGH_BUDGET", 840.0))},
)
