"""C05 helper: the ARGUMENT FORMS under which one file can be handed to dump()/load().

python/tskit/util.py convert_file_like_to_open_file accepts, in this order: anything os.fspath() understands (str, bytes,
pathlib.Path, any os.PathLike), anything open() understands as a descriptor (an int), and otherwise an object with
fileno() (buffered / raw file objects, pipes, socket.makefile(), for reading also a socket itself).  The property does not
depend on the form, so every form must give the same bytes / the same tables.  Nothing here looks at tskit internals.
"""
import os
import pathlib
import warnings


class FsPath:
    """An os.PathLike that is neither str nor pathlib.Path."""

    def __init__(self, p):
        self.p = p

    def __fspath__(self):
        return self.p


PATH_FORMS = ("str", "pathlib", "bytes", "fspath", "kw")
HANDLE_FORMS = ("fileobj", "rawfile", "fd")
DUMP_FORMS = PATH_FORMS + HANDLE_FORMS
LOAD_FORMS = PATH_FORMS + HANDLE_FORMS


def as_path_arg(p, how):
    if how == "str":
        return p
    if how == "pathlib":
        return pathlib.Path(p)
    if how == "bytes":
        return os.fsencode(p)
    if how == "fspath":
        return FsPath(p)
    raise KeyError(how)


def dump_form(dumper, p, how):
    """dumper.dump(<p in form `how`>).  `zlib` (TreeSequence only) passes the deprecated, documented-as-ignored
    zlib_compression=True, which must warn and still write the same file."""
    if how in ("str", "pathlib", "bytes", "fspath"):
        dumper.dump(as_path_arg(p, how))
    elif how == "kw":
        dumper.dump(file_or_path=p)
    elif how == "zlib":
        with warnings.catch_warnings(record=True) as w:
            warnings.simplefilter("always")
            dumper.dump(p, zlib_compression=True)
        return [str(x.message) for x in w]
    elif how == "fileobj":
        with open(p, "wb") as f:
            dumper.dump(f)
    elif how == "rawfile":
        with open(p, "wb", buffering=0) as f:
            dumper.dump(f)
    elif how == "fd":
        fd = os.open(p, os.O_WRONLY | os.O_CREAT | os.O_TRUNC, 0o600)
        try:
            dumper.dump(fd)
        finally:
            try:
                os.close(fd)
            except OSError:
                pass
    else:
        raise KeyError(how)
    return None


def load_form(loader, kwname, p, how, offset=0, **kw):
    """loader(<p in form `how`>, **kw).  Handle forms are positioned at `offset` first and must be left open."""
    if how in ("str", "pathlib", "bytes", "fspath"):
        assert offset == 0
        return loader(as_path_arg(p, how), **kw)
    if how == "kw":
        assert offset == 0
        return loader(**{kwname: p}, **kw)
    if how == "fileobj":
        with open(p, "rb") as f:
            f.seek(offset)
            return loader(f, **kw)
    if how == "rawfile":
        with open(p, "rb", buffering=0) as f:
            f.seek(offset)
            return loader(f, **kw)
    if how == "fd":
        fd = os.open(p, os.O_RDONLY)
        try:
            os.lseek(fd, offset, os.SEEK_SET)
            return loader(fd, **kw)
        finally:
            try:
                os.close(fd)
            except OSError:
                pass
    raise KeyError(how)
