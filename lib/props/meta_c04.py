import os

from lib.props.meta_common import ASSUME_COMMON

ID = "C04"
META = dict(
    LEVEL="exploration",
    RULE=("forest-walk generated tree sequences (unary nodes, internal samples, dead branches, gaps, metadata on "
          "every table, individuals, populations, known/unknown mutation times) plus small msprime simulations; "
          "per input 12-16 simplify calls through TreeSequence.simplify and TableCollection.simplify with sample "
          "lists drawn from {None, all flagged shuffled, flagged subset, arbitrary nodes, single, empty, all nodes} "
          "crossed with option sets drawn from all 384 consistent combinations (thorough: full 384 sweep on every "
          "20th input). Each call is compared per elementary interval with the induced genealogy computed from the "
          "input forest, plus node rows, id maps, sites/mutations, genotypes, reference tables, validity, "
          "provenance and row-level idempotence. A case is distinct by the sha1 of its input rows and "
          "non-trivial when the input has at least one edge."),
    REQUIRED=["simplify-calls", "genealogy", "genotypes", "node-rows", "node-map:samples-first", "node-map:identity",
              "sites-filter", "mutations", "refs:populations", "refs:individuals", "idempotence", "validity",
              "errors", "api:ts", "api:tables"],
    ASSUMPTIONS=ASSUME_COMMON + [
        "inputs are valid tree sequences with correct mutation parents (generator invariant)",
        "which mutations survive is read off the docstring's 'retain only the history of the samples': a mutation "
        "survives iff it sits above at least one chosen sample at its site",
    ],
    # the env var only exists to shorten trial runs of the thorough tier
    BUDGET={"quick": 50.0, "thorough": float(os.environ.get("VERIF_C04_THOROUGH_BUDGET", 900.0))},
)
