import os

from lib.props.meta_common import ASSUME_COMMON

ID = "C04"
META = dict(
    LEVEL="exploration",
    RULE=("forest-walk generated tree sequences (unary nodes, internal samples, dead branches, gaps, metadata on "
          "every table, individuals with parents listed before OR after them, populations, known/unknown mutation "
          "times, metadata schemas / top-level metadata / reference sequence, > 64 KiB ragged entries) plus msprime "
          "simulations; every 20th case is a forced large instance (star parents with 62..257 children around the "
          "segment-queue thresholds, 255..700 breakpoints on a handful of nodes, unary chains of depth 200..1000, "
          "60..140-node walks, msprime with 30..140 sample nodes). Per input 12-16 simplify calls (4-8 on large "
          "inputs, fewer on inputs with > 25 trees) through TreeSequence.simplify (fresh / file-loaded) and "
          "TableCollection.simplify (fresh / indexed / copy / pickle / file-loaded / low-level _tskit method / the "
          "same object a second time) with sample lists drawn from {None, all flagged shuffled, flagged subset, "
          "arbitrary nodes, single, empty, all nodes} in the argument forms {list, tuple, int32, int64, uint16, "
          "strided array, list of numpy scalars, explicit flagged array for None, positional, keyword}, crossed "
          "with option sets drawn from all 384 consistent combinations, each option spelled out, omitted or None "
          "when it has its documented default, record_provenance True / False / omitted, filter_sites also through "
          "its deprecated alias (thorough: full 384 sweep on every 20th input). Each call is compared per "
          "elementary interval with the induced genealogy computed from the input forest, plus node rows, id maps, "
          "individual parents, sites/mutations, genotypes, reference tables, validity, the TREES of the resulting "
          "tree sequence against the result rows, top-level data, provenance record and row-level idempotence. A "
          "case is distinct by the sha1 of its input rows and non-trivial when the input has at least one edge."),
    REQUIRED=["simplify-calls", "genealogy", "genotypes", "node-rows", "node-map:samples-first", "node-map:identity",
              "sites-filter", "mutations", "refs:populations", "refs:individuals", "idempotence", "validity",
              "errors", "api:ts", "api:tables", "trees-vs-rows", "individual-parents", "provenance-record",
              "idempotence:same-object", "big-cases", "empty-collection", "edges-squashed"],
    ASSUMPTIONS=ASSUME_COMMON + [
        "inputs are valid tree sequences with correct mutation parents (generator invariant)",
        "which mutations survive is read off the docstring's 'retain only the history of the samples': a mutation "
        "survives iff it sits above at least one chosen sample at its site",
    ],
    # the env var only exists to shorten trial runs of the thorough tier
    BUDGET={"quick": 50.0, "thorough": float(os.environ.get("VERIF_C04_THOROUGH_BUDGET", 900.0))},
)
