from lib.props.meta_common import ASSUME_COMMON

ID = "C02"
META = dict(
    LEVEL="exploration",
    RULE=("valid generated table collections (nodes, edges, sites, mutations with parents and known/unknown times, individuals, "
          "populations, migrations) left untouched, changed by a validity-preserving operator, or changed by 1-4 'suspect' "
          "operators (each reference column set to -2/-1/n/n+1/2^31-1, each float column set to nan/+-inf/-1/-0.0/L/L+1/"
          "nextafter values, left==right, swapped/duplicated rows, parent time equal/younger, overlapping child intervals, mutation "
          "parent self/after/before, mutation time below node/above parent/mixed unknown, sequence_length 0/-1/nan) crossed with "
          "index absent/built/reversed/permuted/out-of-range/duplicate; verdict from an independent validity predicate over the "
          "raw rows; gate = tree_sequence() and dump->tskit.load. Distinct = sha1(rows, operator labels, index); non-trivial when "
          "at least one operator or a user index was applied."),
    REQUIRED=["gate-calls:tree_sequence", "gate-calls:tskit.load", "rows-unchanged-checks", "accepted-usable"],
    ASSUMPTIONS=ASSUME_COMMON + ["requirements the statement does not list (mutation parent topology, individual parent order, "
                                 "index tie-breaks, infinite sequence length) are an EITHER zone: only error type and unchanged rows are checked"],
    BUDGET={"quick": 45.0, "thorough": 900.0},
)
