from lib.props.meta_common import ASSUME_COMMON

ID = "C02"
META = dict(
    LEVEL="exploration",
    RULE=("five families in fixed shares (per 40 cases: 14 mutate, 16 sweep, 4 index, 5 reorder, 1 large). mutate: valid generated "
          "collection (nodes, edges, sites, mutations with parents and known/unknown times, individuals, populations, migrations) "
          "untouched / changed by a validity-preserving operator / by 1-4 random operators x index absent/built/stale/reversed/"
          "permuted/out-of-range/duplicate. sweep: the operator catalogue (~350 entries) enumerated round-robin, one per case, on a "
          "model forced to have the rows it needs, row forced first/second/last/random: every reference column x {-2,-1,n,n+1,"
          "2^31-1,-2^31,0,n-1}; every float column x {nan, other NaN payloads, +-inf, -1, -0.0, 0, L, L+1, L+-ulp, +-1e308, "
          "+-denormal, current+-ulp}; intervals (left==right, swapped, right=L, left=0, one-ulp long); parent/child time equal / one "
          "ulp apart; adjacent rows swapped / duplicated; site position and migration time equal / one ulp above / below the "
          "previous row; edges split (ordered, reversed, one-ulp gap, one-ulp overlap, same left), blocks broken, edges shortened "
          "under a stale index, edge rows appended / truncated under a stale index; mutation parent self/next/last/0/-1; mutation "
          "time unknown / == node / one ulp below node / == parent node / one ulp below parent node / == or one ulp above parent "
          "mutation / previous row, known-unknown mix on one site; individual parent self/later/last/null; sequence_length "
          "0/-1/nan/-0.0/L/2/2L/+-inf/denormal/L-ulp/max right/max right-ulp; 17 validity-preserving edits. index: 53 single "
          "faults of a user-supplied index (entry out of range / duplicated / reversed / adjacent swap / rotation; first, last, "
          "middle slot; insertion and removal order). reorder: valid collections in non-canonical order (renumbered nodes, "
          "equal-time parents in any order, individual parents later in the table, equal-time migrations, other valid mutation "
          "orders, all mutations at their node's time, extreme coordinates). large: 255-300 children / depth 300 / 260 mutations on "
          "one site / 300 sites, trees, individuals, migrations / empty collections, with no or one departure in the first or last "
          "row. Verdict (reject / either / accept) from two independent predicates over the raw rows and index actually handed to "
          "the gate. Gate = tree_sequence() (+ a second call on the same object for a third of the cases) and two of 16 alternate "
          "entry points per case (tskit.load of path / Path / open file / skip_reference_sequence, TreeSequence.load, "
          "TableCollection.load, TreeSequence.load_tables with and without build_indexes, low-level load_tables positional and "
          "keyword, copy / pickle / fromdict of the collection). Distinct = sha1(rows, operator labels, index); non-trivial when at "
          "least one operator or a user index was applied."),
    REQUIRED=["fileindex:loads", "gate-calls:tree_sequence", "gate-calls:tskit.load", "rows-unchanged-checks", "accepted-usable",
              "verdict-checks:accept", "verdict-checks:reject", "gate-calls:tree_sequence(again)", "gate-calls:load_tables(tc)",
              "gate-calls:load_tables(tc,build_indexes=True)", "gate-calls:copy().tree_sequence"],
    ASSUMPTIONS=ASSUME_COMMON + ["requirements the documentation has but the statement does not list (mutation.parent is the mutation "
                                 "above, an individual is not its own parent), an infinite sequence length, a user-supplied index that "
                                 "is a sorted permutation with another tie-break than build_index(), and a missing index at an entry "
                                 "point that does not build one are the EITHER zone: only error type and unchanged rows are checked. "
                                 "Everything else the two predicates pass is MUST-ACCEPT",
                                 "files written by TableCollection.dump hold what the collection held (checked by C10)"],
    BUDGET={"quick": 45.0, "thorough": 900.0},
)
