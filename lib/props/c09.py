"""C09 — no API input causes memory errors, UB or aborts (ASan+UBSan build, process status oracle).

Three workloads:
  sweep   : typed API catalogue x argument slot x boundary/adversarial value (others valid)
  program : random table-operation programs on corrupted (invalid) table collections
  oom     : allocation-failure enumeration through the LD_PRELOAD shim (thorough tier)
  memcheck: slices of sweep + program re-run on the plain (gcc -O2) build under valgrind memcheck, every result pushed
            through a definedness sink (lib/props/c09_memcheck.py): use of uninitialised memory, which ASan cannot see
The deciding oracle is the worker's process status + sanitizer log (runner) and, in-process, that every
call returns or raises an Exception (SystemError = extension broke the C-API contract = violation);
for slots whose valid range is documented, out-of-range identifiers must raise.
"""
import ctypes
import itertools
import json
import math
import io
import os
import tempfile

import numpy as np
import tskit
import _tskit

from lib import gen
from lib.harness import case_rng
from lib.model import NODE_IS_SAMPLE, NULL
from lib.tsk import to_tables

ID = "C09"

INF = float("inf")
NAN = float("nan")
BIG = [2 ** 31 - 1, 2 ** 31, 2 ** 32, 2 ** 63 - 1, 2 ** 63, -(2 ** 31), -(2 ** 31) - 1]
TYPE_JUNK = [None, "a", 1.5, [0], (), b"x", {}, NAN, np.int64(0), np.uint64(2 ** 63), True, object()]


# ----------------------------------------------------------------------------- inputs


def base_model(rng, kind):
    if kind == "empty":
        m = gen.gen_topology(rng, n=1, max_bp=0, sample_mode="none")
        m.edges = []
        return m
    if kind == "nosamples":
        return gen.gen_full(rng, max_nodes=6, sample_mode="none")
    m = gen.gen_full(rng, max_nodes=8, max_bp=4, max_sites=5, discrete=(kind == "discrete"),
                     pops=True, migrations=True, meta=True)
    return m


class _BigSig:
    def signature(self):
        return "big-star-chain"

    def to_json(self):
        return {"kind": "big-star-chain"}


def big_tables():
    """260 leaves + the top of a 300-node unary chain = 261 children of the root (more than an 8-bit counter holds), depth 302,
    261 samples, two trees (leaf 0 moves under the chain top in the right half), sites on a leaf, mid-chain and the chain top."""
    tc = tskit.TableCollection(10.0)
    nl, depth = 260, 300
    for _ in range(nl + 1):
        tc.nodes.add_row(flags=NODE_IS_SAMPLE, time=0.0)
    chain = [tc.nodes.add_row(time=float(j + 1)) for j in range(depth)]
    root = tc.nodes.add_row(time=1000.0)
    tc.edges.add_row(0, 5, root, 0)
    tc.edges.add_row(5, 10, chain[-1], 0)
    for u in range(1, nl):
        tc.edges.add_row(0, 10, root, u)
    prev = nl
    for c in chain:
        tc.edges.add_row(0, 10, c, prev)
        prev = c
    tc.edges.add_row(0, 10, root, prev)
    for j, (pos, node) in enumerate(((1.0, 3), (4.0, chain[depth // 2]), (7.0, chain[-1]))):
        s = tc.sites.add_row(pos, "A")
        tc.mutations.add_row(s, node, "C")
        if j == 2:
            tc.mutations.add_row(s, nl, "G", parent=tc.mutations.num_rows - 1)
    tc.populations.add_row()
    tc.sort()
    return tc


class Obj:
    """Objects a catalogue entry can be called on."""

    def __init__(self, rng, kind):
        if kind == "big":
            self.m = _BigSig()
            self.tables = big_tables()
        else:
            self.m = base_model(rng, kind)
            self.tables = to_tables(self.m)
        self.tables.provenances.add_row("{}", timestamp="2020")
        self.ts = self.tables.tree_sequence()
        if kind == "wrongparents":
            # a tree sequence that tree_sequence() accepts although the mutation parents at one site contradict the topology
            from lib.props import c09_ext
            r = c09_ext.wrong_parent_ts(self.ts, rng.choice(c09_ext.WRONG_PARENT_SHAPES))
            if r is not None:
                self.ts = r[0]
                self.tables = self.ts.dump_tables()
        self.n = self.ts.num_nodes
        self.L = self.ts.sequence_length
        self.tree = self.ts.at_index(rng.randrange(self.ts.num_trees), sample_lists=rng.random() < 0.5)
        self.nulltree = tskit.Tree(self.ts)
        self.samples = list(self.ts.samples())
        self.rng = rng


# ----------------------------------------------------------------------------- slots


class Slot:
    """valid(o) -> a valid value; adversarial(o) -> [(value, must_raise)] where must_raise is True when the
    documentation defines a range that the value is outside of, None when only 'no crash' is required."""

    def __init__(self, valid, adversarial, name):
        self.valid = valid
        self.adversarial = adversarial
        self.name = name


def _ids(n_of, allow_null=False, virtual_root=False, pyindex=False):
    def adv(o):
        n = n_of(o)
        hi = n + 1 if virtual_root else n
        out = []
        for v in [-2, -1, 0, n - 1, n, n + 1] + BIG:
            if pyindex:
                ok = -n <= v < n
            else:
                ok = 0 <= v < hi or (allow_null and v == -1)
            out.append((v, None if ok else True))
        for v in TYPE_JUNK:
            out.append((v, None))
        return out

    def valid(o):
        n = n_of(o)
        return o.rng.randrange(n) if n > 0 else 0

    return valid, adv


def idslot(name, n_of, **kw):
    v, a = _ids(n_of, **kw)
    return Slot(v, a, name)


NODE = idslot("node", lambda o: o.n)
NODE_VR = idslot("node|virtual_root", lambda o: o.n, virtual_root=True)
NODE_NULLOK = idslot("node|NULL", lambda o: o.n, allow_null=True, virtual_root=True)
NODE_PY = idslot("node(py-index)", lambda o: o.n, pyindex=True)
EDGE_PY = idslot("edge(py-index)", lambda o: o.ts.num_edges, pyindex=True)
SITE_PY = idslot("site(py-index)", lambda o: o.ts.num_sites, pyindex=True)
MUT_PY = idslot("mutation(py-index)", lambda o: o.ts.num_mutations, pyindex=True)
IND_PY = idslot("individual(py-index)", lambda o: o.ts.num_individuals, pyindex=True)
POP_PY = idslot("population(py-index)", lambda o: o.ts.num_populations, pyindex=True)
MIG_PY = idslot("migration(py-index)", lambda o: o.ts.num_migrations, pyindex=True)
PROV_PY = idslot("provenance(py-index)", lambda o: o.ts.num_provenances, pyindex=True)
TREE_IDX = idslot("tree-index(py-index)", lambda o: o.ts.num_trees, pyindex=True)
SITE = idslot("site", lambda o: o.ts.num_sites)
POP_ANY = Slot(lambda o: 0, lambda o: [(v, None) for v in [-2, -1, 0, 1, 5, 2 ** 31 - 1, 2 ** 31, 2 ** 63, None, "a", 1.5]], "population-filter")


def _pos_adv(o):
    L = o.L
    out = []
    for x in [-1.0, -0.0, 0.0, L / 2, math.nextafter(L, 0), L, L + 1, NAN, INF, -INF, 1e308, -1e-300, 5e-324]:
        out.append((x, None))
    for v in TYPE_JUNK:
        out.append((v, None))
    return out


POS = Slot(lambda o: o.rng.random() * o.L, _pos_adv, "position")
TIME = Slot(lambda o: 1.0, lambda o: [(x, None) for x in [-INF, -1e308, -1.0, -0.0, 0.0, 0.5, 1e308, INF, NAN] + TYPE_JUNK], "time")
FLOATANY = Slot(lambda o: 0.5, lambda o: [(x, None) for x in [-INF, -1.0, -0.0, 0.0, 1e-300, 1e308, INF, NAN] + TYPE_JUNK], "float")
INTANY = Slot(lambda o: 1, lambda o: [(x, None) for x in [-2, -1, 0, 1, 7] + BIG + TYPE_JUNK], "int")
BOOLANY = Slot(lambda o: False, lambda o: [(x, None) for x in [True, 0, 2, -1, None, "x", 2 ** 40]], "flag")


def _idlist_adv(n_of, pool_of=None, null_ok=False, must=True):
    def adv(o):
        n = n_of(o)
        pool = pool_of(o) if pool_of else list(range(n))
        out = [([], None), (pool + pool, None), (pool[::-1], None)]
        for v in [-2, -1, n, n + 1, 2 ** 31 - 1]:
            mr = None if (not must or (null_ok and v == -1)) else True
            out.append(([v], mr))
            out.append((pool[:1] + [v], mr))
            out.append((np.array(pool[:1] + [v], dtype=np.int64), mr))
        # argument forms (tuple, range, narrow / byte-swapped / read-only arrays) and HUGE ids that would wrap onto a
        # valid id if truncated to 32 bits (2^32 + id): huge ids must be rejected like any other out-of-range id
        good = pool[:1] if pool else []
        ro = np.array(pool, dtype=np.int32)
        ro.setflags(write=False)
        out += [(tuple(pool), None), (range(len(pool)), None), (np.array([v for v in pool if v < 128], dtype=np.int8), None), (np.array(pool, dtype=">i4"), None),
                (np.array(pool, dtype=">i8"), None), (ro, None), (np.array(pool, dtype=np.int32).reshape(-1, 1)[:, 0], None),
                (np.array(pool, dtype=object), None), (iter(pool), None), (np.array(0, dtype=np.int32), None),
                (np.array(pool, dtype=bool), None), (bytes(len(pool)), None)]
        if must:
            wrap = 2 ** 32 + (int(good[0]) if good else 0)
            out += [([wrap], True), (good + [wrap], True), ((wrap,), True), (np.array(good + [wrap], dtype=np.int64), True),
                    (np.array([wrap], dtype=np.uint64), True), ([2 ** 32], True), (np.array([n], dtype=">i4"), True),
                    (tuple(good + [n]), True), (np.array(good + [n], dtype=np.int16), True), ([2 ** 64 + (int(good[0]) if good else 0)], True)]
        out += [([2 ** 31], None), ([2 ** 63], None), (np.array([0.5, 1.5]), None), ("abc", None), (None, None),
                (np.zeros((2, 2), dtype=np.int32), None), ([[0]], None), (np.array([], dtype=np.int32), None),
                (np.arange(0, 10 * max(n, 1), dtype=np.int32), None), ([0, 0], None), (3, None),
                (np.array(pool, dtype=np.uint64), None), (np.array(pool, dtype=np.int32)[::-1][::2], None)]
        return out
    return adv


SAMPLE_LIST = Slot(lambda o: list(o.samples), _idlist_adv(lambda o: o.n, lambda o: list(o.samples)), "sample-id-list")
NODE_LIST = Slot(lambda o: list(range(o.n)), _idlist_adv(lambda o: o.n), "node-id-list")
SITE_LIST = Slot(lambda o: list(range(o.ts.num_sites)), _idlist_adv(lambda o: o.ts.num_sites), "site-id-list")


def _sample_sets_adv(o):
    s = list(o.samples)
    n = o.n
    out = [([], None), ([[]], None), ([s, []], None), ([s, s], None), ([s + s], None), ([[n]], True), ([[-1]], True),
           ([[-2]], True), ([s[:1] + [n]], True), ([[2 ** 31 - 1]], True), ([[2 ** 31]], None), ([["a"]], None),
           ([[0.5]], None), (None, None), (s, None), ([[[0]]], None), ([np.array(s, dtype=np.int64)], None),
           ([np.zeros((2, 2))], None), ([list(range(n))], None)]
    w = 2 ** 32 + (int(s[0]) if s else 0)
    out += [([[w]], True), ([s[:1] + [w]], True), ([np.array([w], dtype=np.int64)], True), ([[2 ** 32]], True), ((tuple(s),), None),
            ([tuple(s[:1]) + (n,)], True), ([np.array(s[:1] + [n], dtype=np.int64)], True), ([np.array(s, dtype=">i4")], None),
            (np.array([s], dtype=np.int32), None), ([s, [n]], True), ([[n], s], True), ([s, s[:1] + [-1]], True)]
    return out


SAMPLE_SETS = Slot(lambda o: [list(o.samples[: max(1, len(o.samples) // 2)]), list(o.samples[len(o.samples) // 2:]) or list(o.samples[:1])],
                   _sample_sets_adv, "sample-sets")


def _windows_adv(o):
    L = o.L
    return [(w, None) for w in (
        [], [0], [0, L], [0, L / 2, L], [L, 0], [0, L / 2, L / 2, L], [0, L, L], [0, 0, L], [-1, L], [0, L + 1],
        [0, NAN, L], [NAN, L], [0, NAN], [0, INF], [-INF, L], [0, L / 2], [L / 2, L], [1e-300, L], "trees", "sites",
        "junk", None, [[0, L]], np.array([0, L], dtype=np.int32), [0, L / 3, L / 3 * 2, L], 7, [None, None],
        np.linspace(0, L, 400), [0.0, 5e-324, L], [0, math.nextafter(L, 0), L])]


WINDOWS = Slot(lambda o: [0, o.L], _windows_adv, "windows")


def _intervals_adv(o):
    L = o.L
    return [(w, None) for w in (
        [], [[0, L]], [[0, L / 2], [L / 2, L]], [[0, L / 2], [L / 4, L]], [[L / 2, L], [0, L / 4]], [[L, 0]], [[0, 0]],
        [[-1, L]], [[0, L + 1]], [[NAN, L]], [[0, NAN]], [[0, INF]], [[-INF, INF]], [0, L], [[0]], [[0, 1, 2]], None, "x",
        np.zeros((0, 2)), np.zeros((2, 0)), [[0, L / 2], [L / 2, L / 2]], [[1e-300, 2e-300]], [[0, L]] * 3)]


INTERVALS = Slot(lambda o: [[0, o.L / 2]], _intervals_adv, "intervals")


def _indexes_adv(k, nsets=None):
    def adv(o):
        out = [(v, None) for v in ([], [(0,) * k], [(0,) * (k + 1)], [(5,) * k], [(-1,) * k], [(2 ** 31,) * k],
                                   None, [(0.5,) * k], "a", [[0] * k] * 3, np.zeros((2, k), dtype=np.int64), [(1,) * k])]
        if nsets is not None:
            # a sample-set index is an identifier: == number of sets, negative or huge (2^32 would wrap onto set 0) must raise,
            # in every position of the tuple and as list / tuple / int64 array
            out.append(([(nsets - 1,) * k], None))
            for bad in (nsets, nsets + 1, -1, -2, 2 ** 31 - 1, 2 ** 32, 2 ** 32 + 1):
                for pos in range(k):
                    tup = tuple(bad if j == pos else 0 for j in range(k))
                    out.append(([tup], True))
                out.append(([(0,) * k, (bad,) * k], True))
                out.append((np.array([(bad,) * k], dtype=np.int64), True))
        return out
    return adv


def INDEXES(k, nsets=None):
    return Slot(lambda o: [(0,) * (k - 1) + (1,)], _indexes_adv(k, nsets), f"indexes{k}")


def _weights_adv(o):
    ns = o.ts.num_samples
    return [(w, None) for w in (np.zeros((ns, 1)), np.ones((ns, 0)), np.ones((ns + 1, 1)), np.ones((max(ns - 1, 0), 1)),
                                np.full((ns, 1), NAN), np.full((ns, 2), INF), np.ones(ns), np.ones((ns, 1, 1)), None, "x",
                                np.ones((ns, 1), dtype=np.int8), np.ones((ns, 3))[:, ::2], [[1]] * ns)]


WEIGHTS = Slot(lambda o: np.ones((o.ts.num_samples, 1)), _weights_adv, "weights")


def _genotypes_adv(o):
    ns = o.ts.num_samples
    return [(g, None) for g in ([], [0] * ns, [-1] * ns, [0] * (ns + 1), [0] * max(ns - 1, 0), [63] * ns, [64] * ns,
                                [65] * ns, [127] * ns, [-2] * ns, [128] * ns, [2 ** 31] * ns, np.zeros(ns, dtype=np.int8),
                                np.zeros(ns, dtype=np.float64), None, "a" * ns, [[0]] * ns, [0, -1] * ns,
                                ([0, 63] * ns)[:ns], ([-1, 1] * ns)[:ns])]


GENOTYPES = Slot(lambda o: [0] * o.ts.num_samples, _genotypes_adv, "genotypes")
ORDER = Slot(lambda o: "preorder", lambda o: [(v, None) for v in ["postorder", "inorder", "levelorder", "breadthfirst", "timeasc",
                                                                    "timedesc", "minlex_postorder", "junk", None, 3]], "order")
MODE = Slot(lambda o: "site", lambda o: [(v, None) for v in ["site", "branch", "node", "junk", None, 3]], "mode")
PRECISION = Slot(lambda o: 3, lambda o: [(v, None) for v in [-1, 0, 1, 17, 50, None, "a", 1.5]], "precision")


# ----------------------------------------------------------------------------- catalogue


def consume(r, depth=0):
    """Force lazily evaluated results (bounded)."""
    if r is None or isinstance(r, (int, float, str, bytes, bool, np.ndarray, dict)):
        return
    if depth > 2:
        return
    if hasattr(r, "__next__") or (hasattr(r, "__iter__") and not hasattr(r, "__len__")):
        for k, x in enumerate(r):
            consume(x, depth + 1)
            if k > 400:
                break
    elif isinstance(r, (list, tuple)):
        for x in r[:50]:
            consume(x, depth + 1)


CAT = []


def C(name, target, fn, slots, probe=True, reps=None, memcheck=True):
    """reps: how many repetitions (input kinds) of this entry the quick tier runs (None = all); entries that hardly look at
    the input object do not need five inputs.  memcheck=False: not under valgrind (the entry asks for multi-GB blocks on
    purpose; valgrind's shadow memory for them does not fit under the companion's RLIMIT_AS and valgrind itself aborts)."""
    CAT.append({"name": name, "target": target, "fn": fn, "slots": slots, "reps": reps, "memcheck": memcheck})


def _tree_methods():
    one = ["parent", "left_child", "right_child", "left_sib", "right_sib", "children", "time", "depth", "branch_length",
           "population", "is_internal", "is_leaf", "is_isolated", "is_sample", "num_children", "num_samples",
           "num_tracked_samples", "edge", "is_root", "ancestors", "siblings", "left_sample",
           "right_sample", "get_num_leaves", "get_num_tracked_leaves"]
    trav = ["leaves", "samples", "preorder", "postorder", "timeasc", "timedesc"]
    for tgt in ("tree", "nulltree"):
        for mname in one:
            C(f"Tree.{mname}", tgt, (lambda mname: lambda t, a: getattr(t, mname)(a[0]))(mname), [NODE_VR])
        for mname in trav:  # -1 / None mean "from all roots" there
            C(f"Tree.{mname}", tgt, (lambda mname: lambda t, a: getattr(t, mname)(a[0]))(mname), [NODE_NULLOK])
        C("Tree.next_sample", tgt, lambda t, a: t.next_sample(a[0]), [idslot("sample-index", lambda o: o.ts.num_samples)])
        for mname in ("mrca", "tmrca", "is_descendant", "path_length", "distance_between"):
            C(f"Tree.{mname}", tgt, (lambda mname: lambda t, a: getattr(t, mname)(a[0], a[1]))(mname), [NODE_VR, NODE_VR])
        C("Tree.nodes", tgt, lambda t, a: t.nodes(a[0], order=a[1]), [NODE_NULLOK, ORDER])
        C("Tree.num_lineages", tgt, lambda t, a: t.num_lineages(a[0]), [TIME])
        C("Tree.seek", tgt, lambda t, a: t.seek(a[0]), [POS])
        C("Tree.seek_index", tgt, lambda t, a: t.seek_index(a[0]), [TREE_IDX])
        C("Tree.as_newick", tgt, lambda t, a: t.as_newick(root=a[0], precision=a[1]), [NODE_VR, PRECISION])
        C("Tree.as_newick/labels", tgt, lambda t, a: t.as_newick(root=a[0], node_labels={0: "x"}), [NODE_VR])
        C("Tree.newick", tgt, lambda t, a: t.newick(root=a[0], precision=a[1]), [NODE_VR, PRECISION])
        C("Tree.map_mutations", tgt, lambda t, a: t.map_mutations(a[0], [str(k) for k in range(66)]), [GENOTYPES])
        C("Tree.map_mutations/anc", tgt, lambda t, a: t.map_mutations([0] * t.tree_sequence.num_samples, ["A", "B"], ancestral_state=a[0]),
          [Slot(lambda o: 0, lambda o: [(v, None) for v in [-1, 0, 1, 2, 63, 64, 2 ** 31, "A", "Z", None, 1.5]], "ancestral_state")])
        C("Tree.b2_index", tgt, lambda t, a: t.b2_index(a[0]), [FLOATANY])
        C("Tree.traversals/balance", tgt, lambda t, a: (t.b1_index(), t.sackin_index(), t.total_branch_length, list(t.nodes()),
                                                         t.num_edges, t.roots, t.num_roots), [])
        C("Tree.colless_index", tgt, lambda t, a: t.colless_index(), [])
        C("Tree.root", tgt, lambda t, a: t.root, [])
        C("Tree.kc_distance", tgt, lambda t, a: t.kc_distance(t.tree_sequence.first(), a[0]), [FLOATANY])
        C("Tree.rf_distance", tgt, lambda t, a: t.rf_distance(t.tree_sequence.first()), [])
        C("Tree.split_polytomies", tgt, lambda t, a: t.split_polytomies(random_seed=1, epsilon=a[0]), [FLOATANY])
        C("Tree.count_topologies", tgt, lambda t, a: t.count_topologies(sample_sets=a[0]), [SAMPLE_SETS])
        C("Tree.rank", tgt, lambda t, a: t.rank(), [])
        C("Tree.draw_text", tgt, lambda t, a: t.draw_text(), [])
        C("Tree.copy", tgt, lambda t, a: list(t.copy().nodes()), [])
    C("Tree.__init__", "ts", lambda ts, a: tskit.Tree(ts, tracked_samples=a[0], sample_lists=True, root_threshold=a[1]).first(),
      [SAMPLE_LIST, Slot(lambda o: 1, lambda o: [(v, None) for v in [-1, 0, 1, 2, 2 ** 31 - 1, 2 ** 32, 2 ** 63, None, "a", 1.5]], "root_threshold")])
    C("Tree.unrank", "ts", lambda ts, a: tskit.Tree.unrank(a[0], (a[1], a[2])),
      [Slot(lambda o: 4, lambda o: [(v, None) for v in [-1, 0, 1, 2, 5, None, "a", 1.5]], "num_leaves"),
       Slot(lambda o: 0, lambda o: [(v, True if v in (-1, 5, 2 ** 63) else None) for v in [-1, 0, 4, 5, 2 ** 63, None, 1.5]], "shape-rank"),
       Slot(lambda o: 0, lambda o: [(v, True if v in (-1, 2 ** 63) else None) for v in [-1, 0, 2 ** 63, None, 1.5]], "label-rank")])
    C("Tree.generate", "ts", lambda ts, a: (tskit.Tree.generate_star(a[0]), tskit.Tree.generate_balanced(a[0]), tskit.Tree.generate_comb(a[0])),
      [Slot(lambda o: 4, lambda o: [(v, None) for v in [-1, 0, 1, 2, 3, None, "a", 1.5]], "num_leaves")])


def _ts_methods():
    for mname, slot in (("node", NODE_PY), ("edge", EDGE_PY), ("site", SITE_PY), ("mutation", MUT_PY), ("individual", IND_PY),
                        ("population", POP_PY), ("migration", MIG_PY), ("provenance", PROV_PY)):
        C(f"TreeSequence.{mname}", "ts", (lambda mname: lambda ts, a: getattr(ts, mname)(a[0]))(mname), [slot])
    C("TreeSequence.at", "ts", lambda ts, a: ts.at(a[0]), [POS])
    C("TreeSequence.at_index", "ts", lambda ts, a: ts.at_index(a[0]), [TREE_IDX])
    C("TreeSequence.site(position=)", "ts", lambda ts, a: ts.site(position=a[0]), [FLOATANY])
    C("TreeSequence.trees", "ts", lambda ts, a: [t.num_tracked_samples(t.virtual_root) for t in ts.trees(tracked_samples=a[0], sample_lists=True)], [SAMPLE_LIST])
    C("TreeSequence.samples", "ts", lambda ts, a: ts.samples(population=a[0]), [POP_ANY])
    C("TreeSequence.simplify", "ts", lambda ts, a: ts.simplify(a[0], map_nodes=True, keep_unary=a[1], filter_nodes=not a[1]), [NODE_LIST, BOOLANY])
    C("TreeSequence.subset", "ts", lambda ts, a: ts.subset(a[0]), [NODE_LIST])
    C("TreeSequence.union", "ts", lambda ts, a: ts.union(ts, a[0], check_shared_equality=False),
      [Slot(lambda o: list(range(o.n)), _idlist_adv(lambda o: o.n, null_ok=True), "node-mapping")])
    C("TreeSequence.variants", "ts", lambda ts, a: [v.genotypes.sum() for v in ts.variants(samples=a[0], isolated_as_missing=False, left=a[1], right=a[2])],
      [NODE_LIST, Slot(lambda o: 0.0, _pos_adv, "left"), Slot(lambda o: o.L, _pos_adv, "right")])
    C("TreeSequence.variants/alleles", "ts", lambda ts, a: [v.genotypes.sum() for v in ts.variants(alleles=a[0])],
      [Slot(lambda o: None, lambda o: [(v, None) for v in [(), ("A",), ("A", "C", "G", "T"), ("A", "A"), tuple(str(i) for i in range(200)), ("",), (None,), "ACGT", 3, (b"A",)]], "alleles")])
    C("TreeSequence.genotype_matrix", "ts", lambda ts, a: ts.genotype_matrix(samples=a[0], isolated_as_missing=False), [NODE_LIST])
    C("TreeSequence.haplotypes", "ts", lambda ts, a: list(ts.haplotypes(samples=a[0], left=a[1], right=a[2], missing_data_character="N")),
      [SAMPLE_LIST, Slot(lambda o: 0.0, _pos_adv, "left"), Slot(lambda o: o.L, _pos_adv, "right")])
    C("TreeSequence.alignments", "ts", lambda ts, a: list(ts.alignments(samples=a[0], left=a[1], right=a[2], reference_sequence=a[3])),
      [SAMPLE_LIST, Slot(lambda o: 0, _pos_adv, "left"), Slot(lambda o: int(o.L), _pos_adv, "right"),
       Slot(lambda o: None, lambda o: [(v, None) for v in ["", "A", "A" * int(o.L), "A" * (int(o.L) + 1), "é" * int(o.L), b"A", 3]], "reference_sequence")])
    C("Variant.decode", "ts", lambda ts, a: tskit.Variant(ts, samples=a[1]).decode(a[0]), [SITE, NODE_LIST])
    C("TreeSequence.ibd_segments/within", "ts", lambda ts, a: _ibd(ts.ibd_segments(within=a[0], min_span=a[1], max_time=a[2], store_pairs=True, store_segments=True)),
      [NODE_LIST, FLOATANY, FLOATANY])
    C("TreeSequence.ibd_segments/between", "ts", lambda ts, a: _ibd(ts.ibd_segments(between=a[0], store_pairs=True, store_segments=True)), [SAMPLE_SETS])
    C("TableCollection.ibd_segments", "tables", lambda tc, a: _ibd(tc.ibd_segments(within=a[0], store_pairs=True)), [NODE_LIST])
    C("TreeSequence.keep_intervals", "ts", lambda ts, a: ts.keep_intervals(a[0], simplify=a[1]), [INTERVALS, BOOLANY])
    C("TreeSequence.delete_intervals", "ts", lambda ts, a: ts.delete_intervals(a[0], simplify=a[1]), [INTERVALS, BOOLANY])
    C("TreeSequence.delete_sites", "ts", lambda ts, a: ts.delete_sites(a[0]), [SITE_LIST])
    C("TreeSequence.trim", "ts", lambda ts, a: (ts.ltrim(), ts.rtrim(), ts.trim()), [])
    C("TreeSequence.split_edges", "ts", lambda ts, a: ts.split_edges(a[0], flags=a[1], population=a[2]), [TIME, INTANY, idslot("population|NULL", lambda o: o.ts.num_populations, allow_null=True)])
    C("TreeSequence.decapitate", "ts", lambda ts, a: ts.decapitate(a[0], flags=a[1], population=a[2]), [TIME, INTANY, idslot("population|NULL", lambda o: o.ts.num_populations, allow_null=True)])
    C("TableCollection.delete_older", "tables", lambda tc, a: tc.delete_older(a[0]), [TIME])
    C("TreeSequence.extend_haplotypes", "ts", lambda ts, a: ts.extend_haplotypes(max_iter=a[0]), [INTANY])
    C("TreeSequence.extend_haplotypes/mutation-times", "ts", lambda ts, a: _with_mutation_times(ts, a[0]).extend_haplotypes(),
      [Slot(lambda o: "all-known", lambda o: [(v, None) for v in ["all-known", "all-unknown", "first-site-known", "first-site-unknown",
                                                                  "last-site-unknown", "alternate"]], "mutation-time-pattern")])
    C("TreeSequence.impute/stats-with-mixed-times", "ts", lambda ts, a: (lambda t2: (t2.impute_unknown_mutations_time(), t2.simplify(),
                                                                                    t2.split_edges(0.75), t2.decapitate(0.75)))(_with_mutation_times(ts, a[0])),
      [Slot(lambda o: "all-known", lambda o: [(v, None) for v in ["all-unknown", "first-site-known", "first-site-unknown", "alternate"]], "mutation-time-pattern")])
    one_way = ["diversity", "segregating_sites", "Tajimas_D", "Y1", "allele_frequency_spectrum"]
    for s in one_way:
        C(f"TreeSequence.{s}", "ts", (lambda s: lambda ts, a: getattr(ts, s)(sample_sets=a[0], windows=a[1], mode=a[2]))(s), [SAMPLE_SETS, WINDOWS, MODE])
    for s, k in (("divergence", 2), ("Fst", 2), ("f2", 2), ("Y2", 2), ("genetic_relatedness", 2), ("f3", 3), ("Y3", 3), ("f4", 4)):
        C(f"TreeSequence.{s}", "ts", (lambda s: lambda ts, a: getattr(ts, s)(sample_sets=[list(ts.samples())] * 4, indexes=a[0], windows=a[1], mode=a[2]))(s),
          [INDEXES(k, 4), WINDOWS, MODE])
        C(f"TreeSequence.{s}/sets", "ts", (lambda s: lambda ts, a: getattr(ts, s)(sample_sets=a[0], indexes=a[1]))(s), [SAMPLE_SETS, INDEXES(k, 2)])
    C("TreeSequence.general_stat", "ts", lambda ts, a: ts.general_stat(a[0], lambda x: x, a[3], windows=a[1], mode=a[2], strict=False),
      [WEIGHTS, WINDOWS, MODE, Slot(lambda o: 1, lambda o: [(v, None) for v in [0, 1, 2, -1, 2 ** 31, None]], "output_dim")])
    C("TreeSequence.general_stat/f", "ts", lambda ts, a: ts.general_stat(np.ones((ts.num_samples, 1)), a[0], 1, strict=False),
      [Slot(lambda o: (lambda x: x), lambda o: [(v, None) for v in [lambda x: np.array([NAN]), lambda x: np.zeros(5), lambda x: None, lambda x: "a", lambda x: 1 / 0,
                                                                     lambda x: np.zeros((2, 2)), None, 3, lambda x: x[:0]]], "summary-func")])
    C("TreeSequence.sample_count_stat", "ts", lambda ts, a: ts.sample_count_stat(a[0], lambda x: x, len(a[0]), windows=a[1], strict=False), [SAMPLE_SETS, WINDOWS])
    for s in ("trait_covariance", "trait_correlation"):
        C(f"TreeSequence.{s}", "ts", (lambda s: lambda ts, a: getattr(ts, s)(a[0], windows=a[1], mode=a[2]))(s), [WEIGHTS, WINDOWS, MODE])
    C("TreeSequence.trait_linear_model", "ts", lambda ts, a: ts.trait_linear_model(a[0], a[1], windows=a[2]), [WEIGHTS, WEIGHTS, WINDOWS])
    C("TreeSequence.genetic_relatedness_weighted", "ts", lambda ts, a: ts.genetic_relatedness_weighted(a[0], indexes=a[1], windows=a[2]),
      [Slot(lambda o: np.ones((o.ts.num_samples, 2)), _weights_adv, "weights"), INDEXES(2, 2), WINDOWS])
    C("TreeSequence.genetic_relatedness_vector", "ts", lambda ts, a: ts.genetic_relatedness_vector(a[0], windows=a[1], mode="branch", centre=a[2], nodes=a[3]),
      [WEIGHTS, WINDOWS, BOOLANY, Slot(lambda o: None, _idlist_adv(lambda o: o.n), "nodes")])
    C("TreeSequence.genealogical_nearest_neighbours", "ts", lambda ts, a: ts.genealogical_nearest_neighbours(a[0], a[1], num_threads=a[2]),
      [SAMPLE_LIST, SAMPLE_SETS, Slot(lambda o: 0, lambda o: [(v, None) for v in [-1, 0, 1, 3, 64, None, "a"]], "num_threads")])
    C("TreeSequence.mean_descendants", "ts", lambda ts, a: ts.mean_descendants(a[0]), [SAMPLE_SETS])
    C("TreeSequence.divergence_matrix", "ts", lambda ts, a: ts.divergence_matrix(sample_sets=a[0], windows=a[1], mode=a[2], num_threads=a[3], span_normalise=a[4]),
      [SAMPLE_SETS, WINDOWS, MODE, Slot(lambda o: 0, lambda o: [(v, None) for v in [-1, 0, 1, 2, 5, None, "a"]], "num_threads"), BOOLANY])
    C("TreeSequence.genetic_relatedness_matrix", "ts", lambda ts, a: ts.genetic_relatedness_matrix(sample_sets=a[0], windows=a[1], mode=a[2]), [SAMPLE_SETS, WINDOWS, MODE])
    C("TreeSequence.pair_coalescence_counts", "ts", lambda ts, a: ts.pair_coalescence_counts(sample_sets=a[0], indexes=a[1], windows=a[2], time_windows=a[3]),
      [SAMPLE_SETS, INDEXES(2, 2), WINDOWS, Slot(lambda o: "nodes", lambda o: [(v, None) for v in ["nodes", [0, INF], [0, 1, INF], [0, 1], [1, 0], [NAN, INF], [0, NAN], [], [0], [-1, INF], [0, 0, INF], None, 3]], "time_windows")])
    C("TreeSequence.pair_coalescence_rates/sets", "ts", lambda ts, a: ts.pair_coalescence_rates(np.array([0.0, INF]), sample_sets=a[0], indexes=a[1]),
      [SAMPLE_SETS, INDEXES(2, 2)])
    C("TreeSequence.pair_coalescence_quantiles/sets", "ts", lambda ts, a: ts.pair_coalescence_quantiles(np.array([0.5]), sample_sets=a[0], indexes=a[1]),
      [SAMPLE_SETS, INDEXES(2, 2)])
    C("TreeSequence.pair_coalescence_quantiles", "ts", lambda ts, a: ts.pair_coalescence_quantiles(a[0], windows=a[1]),
      [Slot(lambda o: [0.5], lambda o: [(v, None) for v in [[], [0], [1], [0.5, 0.25], [-1], [2], [NAN], None, "a", [0, 0.5, 1]]], "quantiles"), WINDOWS])
    C("TreeSequence.pair_coalescence_rates", "ts", lambda ts, a: ts.pair_coalescence_rates(a[0], windows=a[1]),
      [Slot(lambda o: np.array([0, 1, INF]), lambda o: [(v if v is None else np.array(v, dtype=np.float64), None) for v in [[0, INF], [0, 1], [1, 0, INF], [0, NAN, INF], [], [0], None, [0, 0, INF], [-1, INF], [0, 1e308, INF]]] + [([0, 1, INF], None)], "time_windows"), WINDOWS])
    C("TreeSequence.ld_matrix", "ts", lambda ts, a: ts.ld_matrix(sample_sets=a[0], sites=a[1], mode=a[2], stat=a[3]),
      [Slot(lambda o: None, _sample_sets_adv, "sample_sets"),
       Slot(lambda o: None, lambda o: [(v, None) for v in [[], [[]], [[0]], [[0], [0]], [[0, 0]], [[1, 0]], [[0], [1], [2]], "a", [list(range(o.ts.num_sites))] * 2, [[0.5]],
                                                        (tuple(range(o.ts.num_sites)),) * 2, [np.arange(o.ts.num_sites, dtype=np.int64)] * 2]]
            # site ids outside [0, num_sites) - row count, negative, huge, wrapping - must raise in the row and in the column list
            + [(v, True) for bad in (o.ts.num_sites, o.ts.num_sites + 1, -1, -2, 2 ** 31 - 1, 2 ** 31, 2 ** 32, 2 ** 32 + 1)
               for v in ([[bad]], [[0], [bad]], [[bad], [0]], [list(range(o.ts.num_sites)) + [bad]] * 2)], "sites"),
       MODE, Slot(lambda o: "r2", lambda o: [(v, None) for v in ["D", "r", "D2", "pi2", "Dz", "D_prime", "r2", "D2_unbiased", "Dz_unbiased", "pi2_unbiased", "junk", None]], "stat")])
    C("TreeSequence.ld_matrix/positions", "ts", lambda ts, a: ts.ld_matrix(mode="branch", positions=a[0]),
      [Slot(lambda o: None, lambda o: [(v, None) for v in [[], [[0.0]], [[0.0, o.L / 2]], [[o.L]], [[-1.0]], [[NAN]], [[INF]], [[o.L / 2, 0.0]], [[0.0, 0.0]], [[0.0], [o.L]], "a"]], "positions")])
    C("LdCalculator.r2", "ts", lambda ts, a: tskit.LdCalculator(ts).r2(a[0], a[1]), [SITE, SITE])
    C("LdCalculator.r2_array", "ts", lambda ts, a: tskit.LdCalculator(ts).r2_array(a[0], direction=a[1], max_mutations=a[2], max_distance=a[3]),
      [SITE, Slot(lambda o: 1, lambda o: [(v, None) for v in [1, -1, 0, 2, None, "a"]], "direction"),
       Slot(lambda o: None, lambda o: [(v, None) for v in [-2, -1, 0, 1, 2 ** 31, None, "a"]], "max_mutations"), FLOATANY])
    C("LdCalculator.r2_matrix", "ts", lambda ts, a: tskit.LdCalculator(ts).r2_matrix(), [])
    C("TreeSequence.kc_distance", "ts", lambda ts, a: ts.kc_distance(ts, a[0]), [FLOATANY])
    C("TreeSequence.count_topologies", "ts", lambda ts, a: [c[0] for c in ts.count_topologies(sample_sets=a[0])], [SAMPLE_SETS])
    C("TreeSequence.impute_unknown_mutations_time", "ts", lambda ts, a: ts.impute_unknown_mutations_time(method=a[0]),
      [Slot(lambda o: None, lambda o: [(v, None) for v in ["min", "junk", 3]], "method")])
    C("TreeSequence.edge_diffs", "ts", lambda ts, a: list(ts.edge_diffs(include_terminal=a[0], direction=a[1])),
      [BOOLANY, Slot(lambda o: 1, lambda o: [(v, None) for v in [1, -1, 0, 2, None, "a", 2 ** 31]], "direction")])
    C("TreeSequence.write_vcf", "ts", lambda ts, a: ts.as_vcf(individuals=a[0], ploidy=a[1], allow_position_zero=True),
      [Slot(lambda o: None, _idlist_adv(lambda o: o.ts.num_individuals), "individuals"),
       Slot(lambda o: None, lambda o: [(v, None) for v in [-1, 0, 1, 2, 3, 2 ** 31, None, "a", 1.5]], "ploidy")])
    C("TreeSequence.as_nexus/fasta", "ts", lambda ts, a: (ts.as_nexus(precision=a[0], include_alignments=False), ts.as_fasta(wrap_width=a[1], reference_sequence="A" * int(ts.sequence_length))),
      [PRECISION, Slot(lambda o: 60, lambda o: [(v, None) for v in [-1, 0, 1, 2 ** 31, None, "a", 1.5]], "wrap_width")])
    C("TreeSequence.dump_text", "ts", lambda ts, a: _dump_text(ts, a[0]), [PRECISION])
    C("TreeSequence.to_macs/draw", "ts", lambda ts, a: (ts.to_macs() if ts.num_sites else None, ts.draw_text(), ts.draw_svg(size=(200, 100))), [])
    C("TreeSequence.misc", "ts", lambda ts, a: (ts.max_root_time if ts.num_samples else None, ts.discrete_genome, ts.discrete_time, ts.min_time, ts.max_time, ts.nbytes, str(ts), ts._repr_html_(), ts.individuals_time, ts.individuals_population, ts.individuals_location if _rect(ts) else None), [])
    C("TreeSequence.pca", "ts", lambda ts, a: ts.pca(a[0], random_seed=1),
      [Slot(lambda o: 1, lambda o: [(v, None) for v in [-1, 0, 1, 2, 100, None, "a"]], "num_components")])
    C("TreeSequence.load_tables", "tables", lambda tc, a: tskit.TreeSequence.load_tables(tc, build_indexes=a[0]), [BOOLANY])
    C("tskit.load_text/junk", "ts", lambda ts, a: _load_text_junk(a[0]),
      [Slot(lambda o: "is_sample\ttime\n1\t0\n", lambda o: [(v, None) for v in ["", "x", "is_sample\ttime\n1\n", "is_sample\ttime\n1\tnan\n", "time\tis_sample\n0\t1\n", "is_sample\ttime\tpopulation\n1\t0\t99\n", "is_sample\ttime\n" + "1\t0\n" * 50]], "nodes-text")])


def _with_mutation_times(ts, pattern):
    """The same tree sequence with known (= node time) / unknown mutation times per SITE according to `pattern`
    (mixing known and unknown across sites is valid; within a site it is not)."""
    tc = ts.dump_tables()
    mu = tc.mutations
    node_t = tc.nodes.time[mu.node] if mu.num_rows else np.zeros(0)
    nsite = tc.sites.num_rows
    known_site = {"all-known": lambda j: True, "all-unknown": lambda j: False, "first-site-known": lambda j: j == min(mu.site, default=0),
                  "first-site-unknown": lambda j: j != min(mu.site, default=0), "last-site-unknown": lambda j: j != max(mu.site, default=0),
                  "alternate": lambda j: j % 2 == 0}[pattern]
    t = np.array([node_t[k] if known_site(int(mu.site[k])) else tskit.UNKNOWN_TIME for k in range(mu.num_rows)], dtype=np.float64)
    mu.time = t
    tc.migrations.clear()
    return tc.tree_sequence()


def _rect(ts):
    t = ts.tables.individuals
    return len(set(np.diff(t.location_offset))) <= 1


def _ibd(r):
    out = [r.num_segments, r.total_span]
    try:
        out.append(r.num_pairs)
        for k in list(r.pairs)[:20]:
            seg = r[tuple(k)]
            out.append((len(seg), seg.total_span, list(seg.left), list(seg.node)))
    except tskit.IdentityPairsNotStoredError:
        pass
    return out


def _dump_text(ts, precision):
    import io
    fs = {k: io.StringIO() for k in ("nodes", "edges", "sites", "mutations", "individuals", "populations", "migrations", "provenances")}
    ts.dump_text(precision=precision, **fs)
    return sum(len(f.getvalue()) for f in fs.values())


def _load_text_junk(text):
    import io
    return tskit.load_text(nodes=io.StringIO(text), edges=io.StringIO("left\tright\tparent\tchild\n"), strict=False)


def _table_methods():
    C("TableCollection.sort", "tables", lambda tc, a: tc.sort(edge_start=a[0], site_start=a[1], mutation_start=a[2]),
      [idslot("edge_start", lambda o: o.tables.edges.num_rows + 1), idslot("site_start", lambda o: o.tables.sites.num_rows + 1),
       idslot("mutation_start", lambda o: o.tables.mutations.num_rows + 1)])
    C("TableCollection.sort/edge_start", "tables", lambda tc, a: (tc.sort(edge_start=a[0]), tc.edges.metadata_offset, list(tc.edges)),
      [Slot(lambda o: 0, lambda o: [(v, None) for v in range(0, o.tables.edges.num_rows + 2)], "edge_start")])
    C("TableCollection.simplify", "tables", lambda tc, a: tc.simplify(a[0]), [NODE_LIST])
    C("TableCollection.subset", "tables", lambda tc, a: tc.subset(a[0], reorder_populations=a[1], remove_unreferenced=a[2]), [NODE_LIST, BOOLANY, BOOLANY])
    C("TableCollection.link_ancestors", "tables", lambda tc, a: list(tc.link_ancestors(a[0], a[1])), [NODE_LIST, NODE_LIST])
    C("TableCollection.union", "tables", lambda tc, a: tc.union(tc.copy(), a[0], check_shared_equality=a[1], add_populations=a[2]),
      [Slot(lambda o: list(range(o.n)), _idlist_adv(lambda o: o.n, null_ok=True), "node-mapping"), BOOLANY, BOOLANY])
    C("TableCollection.keep_intervals", "tables", lambda tc, a: tc.keep_intervals(a[0], simplify=a[1]), [INTERVALS, BOOLANY])
    C("TableCollection.delete_intervals", "tables", lambda tc, a: tc.delete_intervals(a[0], simplify=a[1]), [INTERVALS, BOOLANY])
    C("TableCollection.delete_sites", "tables", lambda tc, a: tc.delete_sites(a[0]), [SITE_LIST])
    C("TableCollection.trim", "tables", lambda tc, a: (tc.copy().ltrim(), tc.copy().rtrim(), tc.trim()), [])
    C("TableCollection.misc", "tables", lambda tc, a: (tc.copy().canonicalise(remove_unreferenced=a[0]) if tc.migrations.num_rows == 0 else None,
                                                      tc.compute_mutation_parents(), tc.compute_mutation_times(), tc.deduplicate_sites(), tc.build_index(),
                                                      tc.sort_individuals(), tc.edges.squash(), tc.drop_index(), tc.tree_sequence()), [BOOLANY])
    C("TableCollection.sequence_length=", "tables", lambda tc, a: (setattr(tc, "sequence_length", a[0]), _probe_tables(tc)),
      [FLOATANY])
    C("TableCollection.indexes=", "tables", lambda tc, a: (setattr(tc, "indexes", tskit.TableCollectionIndexes(edge_insertion_order=a[0], edge_removal_order=a[0])),
                                                          _probe_tables(tc)),
      [Slot(lambda o: np.arange(o.tables.edges.num_rows, dtype=np.int32), _idlist_adv(lambda o: o.tables.edges.num_rows, must=False), "index-array")])
    for tname in ("nodes", "edges", "sites", "mutations", "individuals", "populations", "migrations", "provenances"):
        C(f"{tname}.__getitem__", "tables", (lambda tname: lambda tc, a: getattr(tc, tname)[a[0]])(tname),
          [Slot(lambda o: 0, lambda o: [(v, None) for v in [-1, 0, 10 ** 6, -10 ** 6, 2 ** 31, 2 ** 63, slice(0, 2), slice(None, None, -1), slice(5, 1), [0], [True], np.array([True, False]),
                                                             np.array([0, 10 ** 6]), np.array([-1]), [2 ** 31], None, "a", 1.5, np.array([], dtype=bool), np.array([1.5])]], "row-index")])
        C(f"{tname}.truncate", "tables", (lambda tname: lambda tc, a: (getattr(tc, tname).truncate(a[0]), list(getattr(tc, tname))))(tname),
          [Slot(lambda o: 0, lambda o: [(v, None) for v in [-1, 0, 1, 10 ** 6, 2 ** 31, 2 ** 63, None, "a", 1.5]], "num_rows")])
        C(f"{tname}.keep_rows", "tables", (lambda tname: lambda tc, a: (getattr(tc, tname).keep_rows(a[0]), list(getattr(tc, tname))))(tname),
          [Slot((lambda tname: lambda o: np.ones(getattr(o.tables, tname).num_rows, dtype=bool))(tname),
                # "Must be the same length as the table" (docstring): any other length must raise
                (lambda tname: lambda o: (lambda nr: [(v, True if (isinstance(v, (list, np.ndarray)) and np.ndim(v) == 1 and len(v) != nr) else None)
                                                      for v in [[], [True], [True] * 1000, np.ones(3, dtype=np.int32), None, "a", [[True]], np.zeros(0, dtype=bool),
                                                                np.zeros(nr, dtype=bool), np.arange(nr) % 2 == 0, np.ones(nr + 1, dtype=bool), np.ones(max(nr - 1, 0), dtype=bool),
                                                                [True] * (nr + 1), tuple([True] * nr), np.ones(nr, dtype=np.uint8), np.ones(2 * nr, dtype=bool)[::2],
                                                                np.ones(nr + 8, dtype=bool)[:nr]]])(getattr(o.tables, tname).num_rows))(tname), "keep-mask")])
        C(f"{tname}.__setitem__", "tables", (lambda tname: lambda tc, a: _setitem(getattr(tc, tname), a[0]))(tname),
          [Slot(lambda o: 0, lambda o: [(v, None) for v in [-1, 0, 10 ** 6, -10 ** 6, 2 ** 31, 2 ** 63, None, "a", slice(0, 1)]], "row-index")])
    C("nodes.set_columns", "tables", lambda tc, a: (tc.nodes.set_columns(flags=np.zeros(2, dtype=np.uint32), time=np.zeros(2), metadata=np.zeros(3, dtype=np.int8), metadata_offset=a[0]), list(tc.nodes)),
      [Slot(lambda o: np.array([0, 1, 3], dtype=np.uint64), lambda o: [(np.array(v, dtype=dt), None) for dt in (np.uint64, np.uint32, np.int64) for v in ([0, 1, 3], [0, 3, 1], [1, 2, 3], [0, 1, 4], [0, 1, 2], [0, 1], [0, 1, 3, 3], [], [0, 2 ** 31, 3], [3, 3, 3], [0, 0, 0])], "metadata_offset")])
    C("individuals.packset/ragged", "tables", lambda tc, a: (tc.individuals.set_columns(flags=np.zeros(2, dtype=np.uint32), location=np.zeros(3), location_offset=a[0], parents=np.zeros(3, dtype=np.int32), parents_offset=a[0]), list(tc.individuals)),
      [Slot(lambda o: np.array([0, 1, 3], dtype=np.uint64), lambda o: [(np.array(v, dtype=np.uint64), None) for v in ([0, 3, 1], [1, 2, 3], [0, 1, 4], [0, 1], [0, 1, 3, 3], [], [0, 2 ** 40, 3])], "offsets")])
    C("TableCollection.fromdict", "tables", lambda tc, a: tskit.TableCollection.fromdict(_mutdict(tc.asdict(), a[0])),
      [Slot(lambda o: 0, lambda o: [(v, None) for v in range(1, 40)], "dict-mutation")])
    C("tskit.pack/unpack", "ts", lambda ts, a: (tskit.unpack_bytes(np.frombuffer(b"abcdef", dtype=np.int8), a[0]),
                                                tskit.unpack_strings(np.frombuffer(b"abcdef", dtype=np.int8), a[0])),
      [Slot(lambda o: np.array([0, 2, 6], dtype=np.uint32), lambda o: [(np.array(v, dtype=dt), None) for dt in (np.uint32, np.uint64, np.int64)
                                                                        for v in ([0, 7], [3, 1], [0, 2 ** 31], [], [6], [1, 6], [0, 6, 6, 6])], "offsets")])
    C("packset_*", "tables", lambda tc, a: (tc.sites.packset_ancestral_state(a[0]), tc.mutations.packset_derived_state(a[0]),
                                            tc.individuals.packset_location(a[0]), tc.individuals.packset_parents(a[0]),
                                            tc.provenances.packset_record(a[0]), tc.nodes.packset_metadata(a[0]), _probe_tables(tc)),
      [Slot(lambda o: [], lambda o: [(v, None) for v in [[], ["a"], ["a"] * 1000, [b"a"], [None], [[1.5]], [[2 ** 40]], "abc", 3, [["a"]], [np.zeros(3)], [[-1, 10 ** 6]]]], "ragged-list")])
    C("Tree.generate_random_binary", "ts", lambda ts, a: tskit.Tree.generate_random_binary(a[0], random_seed=a[1]).num_edges,
      [Slot(lambda o: 5, lambda o: [(v, None) for v in [-1, 0, 1, 2, 3, None, "a", 1.5]], "num_leaves"),
       Slot(lambda o: 1, lambda o: [(v, None) for v in [-1, 0, 2 ** 32, 2 ** 64, None, "a", 1.5]], "random_seed")])
    C("TreeSequence.coiterate/mismatch", "ts", lambda ts, a: [iv.left for iv, _, _ in ts.coiterate(_other_ts(ts, a[0]))],
      [Slot(lambda o: "same", lambda o: [(v, None) for v in ["same", "shorter", "longer", "empty", "simplified"]], "other-ts")])
    C("tskit.load/junk-file", "ts", lambda ts, a: _load_junk(ts, a[0]),
      [Slot(lambda o: "ok", lambda o: [(v, None) for v in ["ok", "empty", "text", "dir", "missing", "half", "zeros", "fd-closed", "int-fd", "twice"]], "file-kind")])
    C("lowlevel.Tree", "ts", lambda ts, a: _tskit.Tree(ts.ll_tree_sequence, options=a[0], tracked_samples=a[1]),
      [Slot(lambda o: 0, lambda o: [(v, None) for v in [0, 1, 2, 3, 2 ** 31, -1, 2 ** 32, None, "a"]], "options"), SAMPLE_LIST])
    C("lowlevel.TableCollection", "ts", lambda ts, a: _tskit.TableCollection(a[0]), [FLOATANY])
    C("lowlevel.Variant", "ts", lambda ts, a: _ll_variant(ts, a[0], a[1], a[2]),
      [SITE, NODE_LIST, Slot(lambda o: None, lambda o: [(v, None) for v in [(), ("A",), ("A", "C", "G", "T", "", "AC", "GGT", "é", "0", "1"), (b"A",), "ACGT", 3, ("A",) * 300]], "alleles")])


def _other_ts(ts, kind):
    tc = ts.dump_tables()
    if kind == "shorter":
        tc.keep_intervals([[0, ts.sequence_length / 2]], simplify=False)
        tc.rtrim()
    elif kind == "longer":
        tc.sequence_length = ts.sequence_length * 2
    elif kind == "empty":
        tc.edges.clear()
        tc.sites.clear()
        tc.mutations.clear()
        tc.migrations.clear()
    elif kind == "simplified":
        tc.migrations.clear()
        tc.simplify()
    return tc.tree_sequence()


def _load_junk(ts, kind):
    with tempfile.TemporaryDirectory() as d:
        p = os.path.join(d, "x.trees")
        ts.dump(p)
        data = open(p, "rb").read()
        if kind == "empty":
            open(p, "wb").close()
        elif kind == "text":
            open(p, "w").write("hello\n" * 100)
        elif kind == "half":
            open(p, "wb").write(data[: len(data) // 2])
        elif kind == "zeros":
            open(p, "wb").write(bytes(len(data)))
        elif kind == "dir":
            p = d
        elif kind == "missing":
            p = os.path.join(d, "nope")
        if kind == "fd-closed":
            f = open(p, "rb")
            f.close()
            return tskit.load(f)
        if kind == "int-fd":
            fd = os.open(p, os.O_RDONLY)
            try:
                return tskit.TableCollection.load(fd).nodes.num_rows
            finally:
                try:
                    os.close(fd)
                except OSError:
                    pass
        if kind == "twice":
            with open(p, "rb") as f:
                a = tskit.load(f)
                try:
                    tskit.load(f)
                except EOFError:
                    pass
                return a.num_nodes
        return (tskit.load(p).num_nodes, tskit.TableCollection.load(p).nodes.num_rows)


def _lshmm(ts, rates, hap):
    if ts.num_sites == 0 or ts.num_samples < 2:
        return None
    m = ts.num_sites
    rho = np.full(m, 0.1)
    mu = np.full(m, 0.1)
    if rates == "short":
        rho = rho[:-1]
    elif rates == "long":
        mu = np.append(mu, 0.1)
    elif rates == "nan":
        rho[0] = NAN
    elif rates == "neg":
        mu[0] = -1
    elif rates == "2d":
        rho = rho.reshape(m, 1)
    elif rates == "int":
        rho = np.zeros(m, dtype=np.int64)
    h = np.zeros(m, dtype=np.int32)
    if hap == "short":
        h = h[:-1]
    elif hap == "long":
        h = np.append(h, 0)
    elif hap == "neg":
        h[0] = -5
    elif hap == "big":
        h[0] = 100
    elif hap == "float":
        h = h.astype(np.float64)
    ll = ts.ll_tree_sequence
    hmm = _tskit.LsHmm(ll, rho, mu, acgt_alleles=False)
    cm = _tskit.CompressedMatrix(ll)
    hmm.forward_matrix(h, cm)
    dec = cm.decode()
    vm = _tskit.ViterbiMatrix(ll)
    hmm.viterbi_matrix(h, vm)
    path = vm.traceback()
    cm2 = _tskit.CompressedMatrix(ll)
    hmm.backward_matrix(h, cm.normalisation_factor, cm2)
    return dec.sum(), list(path), cm2.decode().sum()


def _ll_variant(ts, site, samples, alleles):
    kw = {}
    if samples is not None:
        kw["samples"] = samples
    if alleles is not None:
        kw["alleles"] = alleles
    v = _tskit.Variant(ts.ll_tree_sequence, isolated_as_missing=False, **kw)
    v.decode(site)
    return v.genotypes, v.alleles


def _setitem(table, idx):
    row = table[0]
    table[idx] = row
    return list(table)


def _mutdict(d, k):
    """Deterministic adversarial edits of the dict encoding."""
    names = ["nodes", "edges", "sites", "mutations", "individuals", "populations", "migrations", "provenances"]
    t = names[k % len(names)]
    cols = sorted(d[t].keys())
    col = cols[(k // len(names)) % len(cols)]
    v = d[t][col]
    mode = k % 5
    if isinstance(v, np.ndarray):
        if mode == 0:
            d[t][col] = v[:-1] if len(v) else np.append(v, v.dtype.type(0))
        elif mode == 1:
            d[t][col] = np.append(v, v.dtype.type(1))
        elif mode == 2:
            d[t][col] = v.astype(np.float32) if v.dtype != np.float32 else v.astype(np.int8)
        elif mode == 3:
            w = v.copy()
            if len(w):
                w[-1] = np.iinfo(w.dtype).max if np.issubdtype(w.dtype, np.integer) else NAN
            d[t][col] = w
        else:
            del d[t][col]
    else:
        d[t][col] = 3
    return d


def _probe_tables(tc):
    """Follow-up use of a table collection after an adversarial call ('a later call')."""
    out = []
    for name in ("nodes", "edges", "sites", "mutations", "individuals", "populations", "migrations", "provenances"):
        out.append(len(list(getattr(tc, name))))
    tc.asdict()
    c = tc.copy()
    for op in (lambda: c.sort(), lambda: c.build_index(), lambda: c.compute_mutation_parents(), lambda: c.simplify(),
               lambda: c.tree_sequence(), lambda: c.ibd_segments(), lambda: c.delete_older(0.5)):
        try:
            op()
        except (tskit.LibraryError, ValueError, TypeError, OverflowError, IndexError):
            pass
    return out


def _probe(o):
    t = o.tree
    list(t.nodes())
    t.num_samples(t.virtual_root)
    t.next()
    t.prev()
    list(o.nulltree.nodes())
    # copies of a positioned tree (with and without sample lists) must be usable on their own: moved both ways,
    # re-positioned and read
    for sl in (True, False):
        src = tskit.Tree(o.ts, sample_lists=sl, tracked_samples=list(o.samples[:1]))
        src.seek_index(o.ts.num_trees // 2)
        for moves in (("next", "prev", "prev"), ("prev", "next", "next"), ("last", "prev"), ("first", "next")):
            c = src.copy()
            for mv in moves:
                getattr(c, mv)()
            if sl:
                [list(c.samples(u)) for u in range(min(o.n, 10))]
            c.num_tracked_samples(c.virtual_root)
        src.next()
        c = src.copy()
        c.seek_index(0)
        c.seek(o.L / 2)
    o.ts.tables.asdict()
    o.ts.genotype_matrix(isolated_as_missing=False)
    _probe_tables(o.tables)


def _ms(ts, precision, nrep, trees):
    import io
    out = io.StringIO()
    tskit.write_ms(ts, out, print_trees=trees, precision=precision, num_replicates=nrep)
    return len(out.getvalue())


def _variant_views(ts, site, samples, remove_missing, mds):
    v = tskit.Variant(ts, samples=samples)
    v.decode(site)
    return (v.counts(), v.frequencies(remove_missing=remove_missing), v.states(missing_data_string=mds), v.has_missing_data,
            v.num_missing, v.num_alleles, str(v), v.copy().genotypes.sum())


def _md_vector(tc, key, default):
    t = tc.nodes.copy()
    t.metadata_schema = tskit.MetadataSchema({"codec": "json"})
    t.packset_metadata([b'{"a": 1, "b": {"c": [1, 2]}}'] * t.num_rows)
    return t.metadata_vector(key, default_value=default) if default != "NOTSET" else t.metadata_vector(key)


def _aliases_and_rest():
    """Deprecated aliases, alternative entry points and accessors that the main catalogue reaches only through their modern names."""
    for tgt in ("tree", "nulltree"):
        for mname in ("get_parent", "get_children", "get_time", "get_branch_length", "get_population", "get_num_samples",
                      "get_num_tracked_samples"):
            C(f"Tree.{mname}", tgt, (lambda mname: lambda t, a: consume(getattr(t, mname)(a[0])))(mname), [NODE_VR])
        C("Tree.get_leaves", tgt, lambda t, a: consume(t.get_leaves(a[0])), [NODE_NULLOK])  # a traversal: -1 / None = from all roots
        for mname in ("get_mrca", "get_tmrca"):
            C(f"Tree.{mname}", tgt, (lambda mname: lambda t, a: getattr(t, mname)(a[0], a[1]))(mname), [NODE_VR, NODE_VR])
        C("Tree.mrca/multi", tgt, lambda t, a: (t.mrca(a[0], a[1], a[2]), t.tmrca(a[0], a[1], a[2])), [NODE_VR, NODE_VR, NODE_VR])
        C("Tree.arrays", tgt, lambda t, a: [int(np.sum(x)) for x in (t.parent_array, t.left_child_array, t.right_child_array, t.left_sib_array,
                                                                       t.right_sib_array, t.num_children_array, t.edge_array)]
          + [t.index, t.interval, t.span, t.mid, t.num_sites, t.num_mutations, len(list(t.sites())), len(list(t.mutations())),
             t.get_index(), t.get_interval(), t.get_length(), t.get_sample_size(), t.sample_size, t.get_root() if t.has_single_root else None,
             t.get_total_branch_length(), t.get_parent_dict(), t.parent_dict, t.as_dict_of_dicts(), t.has_multiple_roots, t.left_root,
             t.right_root, t.get_num_mutations()], [])
    C("TreeSequence.get_time/get_population", "ts", lambda ts, a: (ts.get_time(a[0]), ts.get_population(a[0])), [NODE_PY])
    C("TreeSequence.get_samples", "ts", lambda ts, a: ts.get_samples(population_id=a[0]), [POP_ANY])
    C("TreeSequence.pairwise_diversity", "ts", lambda ts, a: (ts.pairwise_diversity(samples=a[0]), ts.get_pairwise_diversity(a[0])), [SAMPLE_LIST])
    C("TreeSequence.legacy-iterators", "ts", lambda ts, a: (len(list(ts.records())), len(list(ts.edgesets())), list(ts.breakpoints(as_array=a[0])),
                                                             ts.get_num_records(), ts.get_num_trees(), ts.get_num_nodes(), ts.get_num_sites(),
                                                             ts.get_num_mutations(), ts.get_sample_size(), ts.sample_size, ts.get_sequence_length(),
                                                             len(ts.aslist(sample_lists=True)), ts.has_reference_sequence(), ts.file_uuid,
                                                             len(ts.tables_dict), ts.table_metadata_schemas), [BOOLANY])
    C("TreeSequence.removed-methods", "ts", lambda ts, a: [f() for f in (ts.diffs, ts.newick_trees, ts.to_nexus)][a[0]],
      [Slot(lambda o: 0, lambda o: [(v, True) for v in (0, 1, 2)], "which")])
    C("TreeSequence.columns", "ts", lambda ts, a: [len(getattr(ts, n)) for n in (
        "edges_child", "edges_left", "edges_parent", "edges_right", "indexes_edge_insertion_order", "indexes_edge_removal_order",
        "individuals_flags", "migrations_dest", "migrations_left", "migrations_node", "migrations_right", "migrations_source", "migrations_time",
        "mutations_node", "mutations_parent", "mutations_site", "mutations_time", "nodes_flags", "nodes_individual", "nodes_population",
        "nodes_time", "sites_position", "individual_times", "individual_populations")]
      + [len(ts.individual_locations) if _rect(ts) else 0], [])
    C("TreeSequence.write_nexus/write_fasta", "ts", lambda ts, a: (ts.write_nexus(io.StringIO(), precision=a[0], include_alignments=a[1]),
                                                                   ts.write_fasta(io.StringIO(), wrap_width=a[2], missing_data_character="?")),
      [PRECISION, BOOLANY, Slot(lambda o: 60, lambda o: [(v, None) for v in [-1, 0, 1, 7, 2 ** 31, None, "a", 1.5]], "wrap_width")])
    C("tskit.write_ms", "ts", lambda ts, a: _ms(ts, a[0], a[1], a[2]),
      [PRECISION, Slot(lambda o: 1, lambda o: [(v, None) for v in [-1, 0, 1, 2, None, "a", 1.5]], "num_replicates"), BOOLANY])
    C("TreeSequence.trait_regression", "ts", lambda ts, a: ts.trait_regression(a[0], a[1], windows=a[2]), [WEIGHTS, WEIGHTS, WINDOWS])
    C("TreeSequence.check_index", "ts", lambda ts, a: tskit.TreeSequence.check_index(a[0], a[1]), [INTANY, INTANY])
    C("Variant.views", "ts", lambda ts, a: _variant_views(ts, a[0], a[1], a[2], a[3]),
      [SITE, NODE_LIST, BOOLANY, Slot(lambda o: None, lambda o: [(v, None) for v in [None, "N", "", "NN", 3, b"N"]], "missing_data_string")])
    C("TableCollection.map_ancestors", "tables", lambda tc, a: list(tc.map_ancestors(a[0], a[1])), [NODE_LIST, NODE_LIST])
    C("TableCollection.has_index/equals", "tables", lambda tc, a: (tc.has_index(), tc.equals(tc.copy(), ignore_metadata=a[0], ignore_ts_metadata=a[0],
                                                                                               ignore_provenance=a[0], ignore_timestamps=a[0],
                                                                                               ignore_tables=a[0], ignore_reference_sequence=a[0]),
                                                                    tc.assert_equals(tc.copy(), ignore_metadata=a[0]), tc.name_map if hasattr(tc, "name_map") else None,
                                                                    tc.table_name_map, tc.metadata_bytes, tc.file_uuid, tc.has_reference_sequence()), [BOOLANY])
    for tname in ("nodes", "edges", "sites", "mutations", "individuals", "populations", "migrations"):
        C(f"{tname}.drop_metadata/reset", "tables", (lambda tname: lambda tc, a: (getattr(tc, tname).drop_metadata(keep_schema=a[0]),
                                                                                      getattr(tc, tname).assert_equals(getattr(tc, tname).copy(), ignore_metadata=a[0]),
                                                                                      getattr(tc, tname).max_rows, getattr(tc, tname).max_rows_increment,
                                                                                      _probe_tables(tc), getattr(tc, tname).reset(), _probe_tables(tc)))(tname), [BOOLANY])
    C("provenances.packset_timestamp/reset", "tables", lambda tc, a: (tc.provenances.packset_timestamp(a[0]), tc.provenances.packset_record(a[0]), _probe_tables(tc),
                                                                      tc.provenances.reset(), _probe_tables(tc)),
      [Slot(lambda o: [], lambda o: [(v, None) for v in [[], ["a"], ["a"] * 1000, [b"a"], [None], "abc", 3, [["a"]], ["é" * 70000]]], "string-list")])
    C("nodes.metadata_vector", "tables", lambda tc, a: _md_vector(tc, a[0], a[1]),
      [Slot(lambda o: "a", lambda o: [(v, None) for v in ["a", "b", ["b", "c"], ["b", "x"], "zz", [], None, 3, ["a", "b"]]], "key"),
       Slot(lambda o: "NOTSET", lambda o: [(v, None) for v in ["NOTSET", None, 0, [1, 2], "s"]], "default_value")])
    C("tskit.pack_*", "ts", lambda ts, a: (tskit.pack_bytes(a[0]), tskit.pack_strings(a[0]), tskit.pack_arrays(a[0])),
      [Slot(lambda o: [], lambda o: [(v, None) for v in [[], [b"a"], ["a"], [[1.0, 2.0], []], [None], "abc", 3, [[[1]]], [b"a" * 70000], [["a"]]]], "list")])
    C("tskit.unpack_arrays", "ts", lambda ts, a: tskit.unpack_arrays(np.arange(6, dtype=np.float64), a[0]),
      [Slot(lambda o: np.array([0, 2, 6], dtype=np.uint32), lambda o: [(np.array(v, dtype=dt), None) for dt in (np.uint32, np.uint64, np.int64)
                                                                        for v in ([0, 7], [3, 1], [0, 2 ** 31], [], [6], [1, 6], [0, 6, 6, 6])], "offsets")])
    C("tskit.random_nucleotides/is_unknown_time", "ts", lambda ts, a: (tskit.random_nucleotides(a[0], seed=a[1]), tskit.is_unknown_time(a[2])),
      [Slot(lambda o: 5, lambda o: [(v, None) for v in [-1, 0, 1, 1.0, 1.5, NAN, INF, None, "a", 2 ** 20]], "length"),
       Slot(lambda o: 1, lambda o: [(v, None) for v in [-1, 0, 2 ** 32, 2 ** 64, None, "a", 1.5]], "seed"),
       Slot(lambda o: 1.0, lambda o: [(v, None) for v in [NAN, tskit.UNKNOWN_TIME, [tskit.UNKNOWN_TIME, 1.0], [], None, "a", [[NAN]], np.zeros(3, dtype=np.int32)]], "time")])
    C("tskit.all_trees", "ts", lambda ts, a: (sum(1 for _ in tskit.all_trees(a[0])), sum(1 for _ in tskit.all_tree_shapes(a[0])),
                                              sum(1 for _ in tskit.all_tree_labellings(tskit.Tree.generate_balanced(3)))),
      [Slot(lambda o: 3, lambda o: [(v, None) for v in [-1, 0, 1, 2, 4, None, "a", 1.5]], "num_leaves")])
    C("tskit.parse_*", "ts", lambda ts, a: _parse_junk(a[0], a[1]),
      [Slot(lambda o: "nodes", lambda o: [(v, None) for v in ["nodes", "edges", "sites", "mutations", "individuals", "populations", "migrations", "fam"]], "which"),
       Slot(lambda o: "", lambda o: [(v, None) for v in ["", "x", "a\tb\n1\n", "\n\n", "left\tright\tparent\tchild\n0\t1\t1\t0,2,,\n", "\t\t\t\n" * 3,
                                                          "position\tancestral_state\n1e999\tA\n", "site\tnode\tderived_state\n-1\t-1\t\n", "é" * 100,
                                                          "1 2 3 4 5 6\n1 2 3\n"]], "text")])


def _parse_junk(which, text):
    f = io.StringIO(text)
    if which == "fam":
        return tskit.parse_fam(f).num_rows
    return getattr(tskit, "parse_" + which)(f, strict=False).num_rows



_tree_methods()
_ts_methods()
_table_methods()
_aliases_and_rest()

from lib.props import c09_ext  # noqa: E402  (audit additions: low-level accessors, argument forms, object states, lifetimes)

c09_ext.register(globals())

# ----------------------------------------------------------------------------- cases

KINDS = ["full", "wrongparents", "discrete", "empty", "nosamples"]
import re as _re  # noqa: E402

# entries that also get the "big" input (others would spend their time in quadratic Python code or hit recursion limits)
BIG_ENTRIES = _re.compile(
    r"^(Tree\.(parent|children|num_children|left_child|right_sib|samples|leaves|nodes|preorder|postorder|timeasc|as_newick|newick|depth|num_samples|"
    r"num_tracked_samples|siblings|ancestors|path_length|mrca|is_descendant|next_sample|left_sample|traversals/balance|arrays|copy|map_mutations|"
    r"num_lineages|get_leaves|__init__)|TreeSequence\.(simplify|subset|variants|genotype_matrix|haplotypes|diversity|divergence|"
    r"allele_frequency_spectrum|mean_descendants|genealogical_nearest_neighbours|trees|ibd_segments/within|edge_diffs|split_edges|decapitate|"
    r"delete_intervals|extend_haplotypes|dump_text|as_nexus/fasta|kc_distance|count_topologies)|lowlevel\.(Tree\.get_newick|Tree\.traversals|Tree|Variant|"
    r"stat\(sample_set_sizes\))|Tree options/forms|Variant\.(decode|views)|TableCollection\.(simplify|subset|sort|link_ancestors|ibd_segments|"
    r"delete_older|misc|keep_intervals)|nodes\.(keep_rows|__getitem__)|edges\.keep_rows|lifetime)$")
# (not on "big": entries that DUPLICATE edge rows and then run the follow-up probe - tables.ibd_segments() does not reject duplicate
#  edges and returns 2^depth segments for a unary chain of that depth, see AUDIT-C09.md "left open")


def cases(tier, seed):
    only = os.environ.get("VERIF_C09_KINDS")  # development filter, e.g. "oom"
    names = os.environ.get("VERIF_C09_ONLY")  # development filter: regex on the catalogue entry name (sweep cases)
    if only or names:
        import re
        for c in _cases(tier, seed):
            if only and c["gen"] not in only.split(","):
                continue
            if names and not (c["gen"] == "sweep" and re.search(names, c["name"])):
                continue
            yield c
        return
    yield from _cases(tier, seed)


def _cases(tier, seed):
    """Interleaved so that every workload kind runs even when the time budget cuts the list short."""
    reps = 5 if tier == "quick" else 40

    def sweep():
        for rep in range(reps):
            for ci in range(len(CAT)):
                lim = CAT[ci].get("reps")
                if lim is not None and rep >= (lim if tier == "quick" else lim * 4):
                    continue
                yield {"gen": "sweep", "call": ci, "name": CAT[ci]["name"], "rep": rep}
                if rep == 1 and BIG_ENTRIES.match(CAT[ci]["name"]):
                    # structurally extreme input (261 children of one node, a 300-node unary chain, 261 samples)
                    yield {"gen": "sweep", "call": ci, "name": CAT[ci]["name"], "rep": reps, "kind": "big"}

    def oom():
        for rep in range(1 if tier == "quick" else 6):
            for ci in range(len(OOM_CALLS)):
                yield {"gen": "oom", "call": ci, "rep": rep}

    def programs():
        for k in range(12000 if tier == "quick" else 400000):
            yield {"gen": "program", "k": k}

    def repotests():
        if tier == "thorough":
            for mod in REPO_TEST_MODULES:
                yield {"gen": "repotests", "module": mod}

    # weights: period 1 + 9 + 1 + 10 = 21 (+1 thorough) is coprime with the usual worker counts (5, 16), so every worker gets
    # the same mix; programs got heavier per case in the audit and sweep cases more numerous, hence 10 rather than 6
    # bulk: a dozen cheap cases that grow a table by more than 2^21 rows in one operation; first, so that they always run
    gens = [(repotests(), 1), (c09_ext.bulk_cases(tier), 1), (sweep(), 9), (oom(), 1), (programs(), 10)]
    live = True
    while live:
        live = False
        for g, n in gens:
            for _ in range(n):
                c = next(g, None)
                if c is None:
                    break
                live = True
                yield c


OK_EXC = (tskit.LibraryError, ValueError, TypeError, OverflowError, IndexError, KeyError, AttributeError, AssertionError,
          NotImplementedError, ZeroDivisionError, MemoryError, RuntimeError, OSError, StopIteration, UnicodeError, ArithmeticError,
          LookupError, ImportError, BufferError, RecursionError)


FILL8 = b"\xbe" * 8


def scan_fill(r, depth=0, budget=None):
    """True when a returned array / byte string holds an element made only of 0xBE bytes: the ASan runtime fills every fresh
    malloc block with 0xBE (max_malloc_fill_size=16 MiB, build.py), so such an element was never written by tskit -
    uninitialised heap memory handed to the caller.  Elements of >= 4 bytes only (a single 0xBE byte is a legitimate value;
    0xBEBEBEBE as an id/count and 0xBEBEBEBEBEBEBEBE = -1.8e-06 as a coordinate do not occur in the generated inputs)."""
    if budget is None:
        budget = [4000]
    budget[0] -= 1
    if r is None or depth > 4 or budget[0] < 0:
        return False
    if isinstance(r, np.ndarray):
        if r.dtype == object or r.dtype.itemsize < 4 or r.size == 0 or r.size > 1 << 22 or r.dtype.kind not in "iuf":
            return False
        if r.dtype.itemsize == 4:
            return bool((np.ascontiguousarray(r).view(np.uint32) == 0xBEBEBEBE).any())
        if r.dtype.itemsize == 8:
            return bool((np.ascontiguousarray(r).view(np.uint64) == 0xBEBEBEBEBEBEBEBE).any())
        b = np.ascontiguousarray(r).view(np.uint8).reshape(-1, r.dtype.itemsize)
        return bool((b == 0xBE).all(axis=1).any())
    if isinstance(r, (bytes, bytearray)):
        return FILL8 in r
    if isinstance(r, dict):
        return any(scan_fill(v, depth + 1, budget) for v in list(r.values())[:80])
    if isinstance(r, (list, tuple)):
        return any(scan_fill(v, depth + 1, budget) for v in r[:200])
    return False


def call_one(ctx, o, entry, args, slot_i, must_raise, desc):
    tgt = {"ts": o.ts, "tree": o.tree, "nulltree": o.nulltree, "tables": o.tables}[entry["target"]]
    if entry["target"] == "tables":
        tgt = o.tables.copy()
    ctx.step(desc)
    ctx.count("calls")
    try:
        r = entry["fn"](tgt, args)
        consume(r)
        outcome = "returned"
        ctx.count("fill-pattern-scans")
        if scan_fill(r):
            ctx.violation(f"uninitialised-memory-returned/{entry['name']}",
                          f"{desc}: the result contains elements made of the allocator's 0xBE fill pattern (memory tskit never wrote): {fmt(r)}")
    except SystemError as e:
        ctx.violation(f"systemerror/{entry['name']}", f"{desc} raised SystemError: {e}")
        outcome = "SystemError"
    except OK_EXC as e:
        outcome = type(e).__name__
    except Exception as e:  # any other Exception subclass is still "raises a Python exception"
        outcome = type(e).__name__
    ctx.feature("outcome:" + ("returned" if outcome == "returned" else "raised"))
    if must_raise and outcome == "returned":
        ctx.count("id-clause-checks")
        ctx.violation(f"out-of-range-accepted/{entry['name']}/{entry['slots'][slot_i].name}",
                      f"{desc}: out-of-range value accepted (returned normally)")
    elif must_raise:
        ctx.count("id-clause-checks")
    return outcome


def fmt(v):
    if isinstance(v, np.ndarray):
        return f"np.array({v.tolist()!r}, dtype={v.dtype})"[:200]
    r = repr(v)
    return r[:200]


def run_sweep(case, ctx):
    rng = case_rng(case)
    entry = CAT[case["call"]]
    kind = case.get("kind") or KINDS[(case["rep"] + case["call"]) % len(KINDS)]
    o = Obj(rng, kind)
    ctx.feature("input:" + kind)
    ctx.sig((entry["name"], kind, o.m.signature()), nontrivial=True)
    slots = entry["slots"]
    valid = [s.valid(o) for s in slots]
    if case["call"] % 37 == 0:
        ctx.sample({"call": entry["name"], "input": kind, "num_nodes": o.n, "sequence_length": o.L,
                    "slots": [sl.name for sl in slots], "valid_args": [fmt(v) for v in valid],
                    "adversarial_values_of_first_slot": [fmt(v) for v, _ in slots[0].adversarial(o)][:12] if slots else []})
    base = call_one(ctx, o, entry, list(valid), -1, False, f"{entry['name']}(valid args {[fmt(v) for v in valid]}) on {kind}")
    ctx.feature("baseline:" + ("ok" if base == "returned" else "raises"))
    if base != "returned":
        ctx.feature(f"baseline-raises:{entry['name']}:{kind}:{base}")
    # Under valgrind (memcheck companion) a case is ~30x slower and the catalogue has ~440 entries: the companion looks for
    # uninitialised values in what calls hand back, for which the valid call and a few adversarial values per slot are what
    # matters, so it runs a light version of each case and gets through the WHOLE catalogue in its 35 s instead of a tenth of it.
    light = bool(case.get("memcheck"))
    if light and not entry.get("memcheck", True):
        return
    for i, s in enumerate(slots):
        adv = s.adversarial(o)
        if light and len(adv) > 4:
            adv = rng.sample(adv, 4)
        for v, must in adv:
            args = list(valid)
            args[i] = v
            call_one(ctx, o, entry, args, i, must, f"{entry['name']}(slot {s.name} = {fmt(v)}; others {[fmt(x) for x in valid]}) on {kind} n={o.n} L={o.L}")
    if light and case["idx"] % 4:
        return
    # two slots at once
    if len(slots) >= 2 and not light:
        for _ in range(10):
            args = list(valid)
            for i in rng.sample(range(len(slots)), 2):
                v, _m = rng.choice(slots[i].adversarial(o))
                args[i] = v
            call_one(ctx, o, entry, args, -1, False, f"{entry['name']}(args {[fmt(x) for x in args]}) on {kind}")
    ctx.step(f"{entry['name']}: follow-up probe")
    ctx.count("followup-probes")
    _probe(o)


# ----------------------------------------------------------------------------- invalid-table programs

REFCOLS = [("edges", "parent", "nodes"), ("edges", "child", "nodes"), ("mutations", "node", "nodes"), ("mutations", "site", "sites"),
           ("mutations", "parent", "mutations"), ("nodes", "population", "populations"), ("nodes", "individual", "individuals"),
           ("migrations", "node", "nodes"), ("migrations", "source", "populations"), ("migrations", "dest", "populations")]
FLOATCOLS = [("edges", "left"), ("edges", "right"), ("sites", "position"), ("nodes", "time"), ("mutations", "time"),
             ("migrations", "left"), ("migrations", "right"), ("migrations", "time")]


def corrupt(rng, tc):
    """One departure from validity, returns a description."""
    if rng.random() < 0.45:  # states added by the audit: in-range but inconsistent ids, degenerate coordinates / times, duplicates,
        return c09_ext.corrupt_more(rng, tc)  # truncated referenced tables, changed sequence_length, flags, stale index, big blobs
    r = rng.random()
    if r < 0.4:
        t, c, ref = rng.choice(REFCOLS)
        tab = getattr(tc, t)
        if tab.num_rows == 0:
            return "none"
        col = getattr(tab, c).copy()
        n = getattr(tc, ref).num_rows
        v = rng.choice([-2, n, n + 1, 2 ** 31 - 1, -(2 ** 31), -1])
        col[rng.randrange(len(col))] = v
        setattr(tab, c, col)
        return f"{t}.{c}={v}"
    if r < 0.6:
        t, c = rng.choice(FLOATCOLS)
        tab = getattr(tc, t)
        if tab.num_rows == 0:
            return "none"
        col = getattr(tab, c).copy()
        v = rng.choice([NAN, INF, -INF, -1.0, tc.sequence_length + 1, 1e308, tc.sequence_length])
        col[rng.randrange(len(col))] = v
        setattr(tab, c, col)
        return f"{t}.{c}={v}"
    if r < 0.75:
        t = rng.choice(["edges", "sites", "mutations", "migrations"])
        tab = getattr(tc, t)
        if tab.num_rows < 2:
            return "none"
        perm = list(range(tab.num_rows))
        rng.shuffle(perm)
        new = tab.copy()
        new.clear()
        try:
            for j in perm:
                new.append(tab[j])
        except (ValueError, OverflowError):  # rows already carrying ids add_row refuses
            return "none"
        tab.replace_with(new)
        return f"shuffle {t}"
    if r < 0.9:
        ne = tc.edges.num_rows
        if ne == 0:
            return "none"
        a = np.arange(ne, dtype=np.int32)
        b = np.arange(ne, dtype=np.int32)
        mode = rng.randrange(4)
        if mode == 0:
            a[rng.randrange(ne)] = rng.choice([-1, ne, ne + 1, 2 ** 31 - 1])
        elif mode == 1:
            b[rng.randrange(ne)] = rng.choice([-1, ne, ne + 1, 2 ** 31 - 1])
        elif mode == 2:
            a = a[::-1].copy()
        else:
            a = a[:-1]
            b = b[:-1]
        try:
            tc.indexes = tskit.TableCollectionIndexes(edge_insertion_order=a, edge_removal_order=b)
        except Exception:  # noqa: BLE001
            return "index rejected"
        return f"index mode {mode}"
    ind = tc.individuals
    if ind.num_rows == 0:
        return "none"
    par = ind.parents.copy()
    if len(par) == 0:
        return "none"
    par[rng.randrange(len(par))] = rng.choice([ind.num_rows, -2, 2 ** 31 - 1])
    ind.parents = par
    return "individual parents"


def _ops(rng, tc):
    n = tc.nodes.num_rows
    L = tc.sequence_length
    some = lambda: [rng.randrange(n) for _ in range(rng.randint(1, 3))] if n else []  # noqa: E731
    return [
        ("sort", lambda: tc.sort()),
        ("sort_start", lambda: tc.sort(edge_start=rng.randint(0, tc.edges.num_rows))),
        ("simplify", lambda: tc.simplify()),
        ("simplify_s", lambda: tc.simplify(some(), keep_unary=True)),
        ("subset", lambda: tc.subset(some())),
        ("union", lambda: tc.union(tc.copy(), np.arange(n, dtype=np.int32), check_shared_equality=rng.random() < 0.5)),
        ("canonicalise", lambda: tc.canonicalise()),
        ("cmp", lambda: tc.compute_mutation_parents()),
        ("cmt", lambda: tc.compute_mutation_times()),
        ("dedup", lambda: tc.deduplicate_sites()),
        ("build_index", lambda: tc.build_index()),
        ("drop_index", lambda: tc.drop_index()),
        ("tree_sequence", lambda: _use_ts(tc.tree_sequence())),
        ("keep_intervals", lambda: tc.keep_intervals([[0, L / 2]], simplify=rng.random() < 0.5)),
        ("delete_intervals", lambda: tc.delete_intervals([[0, L / 2]], simplify=False)),
        ("delete_sites", lambda: tc.delete_sites([0]) if tc.sites.num_rows else None),
        ("trim", lambda: tc.trim()),
        ("ltrim", lambda: tc.ltrim()),
        ("rtrim", lambda: tc.rtrim()),
        ("squash", lambda: tc.edges.squash()),
        ("sort_individuals", lambda: tc.sort_individuals()),
        ("ibd_within", lambda: _ibd(tc.ibd_segments(within=some(), store_pairs=True, store_segments=True))),
        ("ibd_all", lambda: _ibd(tc.ibd_segments(store_pairs=True))),
        ("ibd_between", lambda: _ibd(tc.ibd_segments(between=[some(), some()], store_pairs=True))),
        ("link_ancestors", lambda: list(tc.link_ancestors(some(), some()))),
        ("delete_older", lambda: tc.delete_older(rng.choice([0.0, 0.5, 1.0, 3.0]))),
        ("roundtrip_dict", lambda: tskit.TableCollection.fromdict(tc.asdict())),
        ("roundtrip_file", lambda: _file_roundtrip(tc)),
        ("iterate", lambda: [len(list(getattr(tc, t))) for t in ("nodes", "edges", "sites", "mutations", "individuals", "populations", "migrations")]),
        ("equals", lambda: tc.equals(tc.copy())),
        ("str", lambda: str(tc)),
    ]


def _use_ts(ts):
    for t in ts.trees(sample_lists=True):
        list(t.nodes())
    ts.genotype_matrix(isolated_as_missing=False)
    ts.simplify()
    return ts.num_trees


def _file_roundtrip(tc):
    with tempfile.NamedTemporaryFile() as f:
        tc.dump(f.name)
        return tskit.TableCollection.load(f.name)


def run_program(case, ctx):
    rng = case_rng(case)
    m = gen.gen_full(rng, max_nodes=8, max_bp=4, max_sites=4, pops=True, migrations=rng.random() < 0.5, meta=rng.random() < 0.5)
    tc = to_tables(m)
    if rng.random() < 0.7:
        tc.build_index()
    pristine = tc.copy()
    how = []
    for _ in range(rng.choice([1, 1, 2, 3])):
        for _attempt in range(5):  # an operator that does not apply to this model (no migrations, ...) is replaced, not wasted
            h = corrupt(rng, tc)
            if h != "none":
                break
        how.append(h)
    ctx.sig(("program", m.signature(), tuple(how)), nontrivial=any(h != "none" for h in how))
    for h in how:
        ctx.feature("corrupt:" + h.split("=")[0].split(" mode")[0].split(":")[0])
    nops = rng.randint(3, 10)
    for k in range(nops):
        ops = _ops(rng, tc) + c09_ext.more_ops(rng, tc, pristine)
        name, fn = rng.choice(ops)
        ctx.step(f"program: corrupt {how}; op {k}: {name}")
        ctx.count("program-ops")
        ctx.feature("op:" + name.split(":")[0])
        try:
            fn()
            ctx.feature("op-returned")
        except SystemError as e:
            ctx.violation(f"systemerror/program/{name}", f"corrupt {how}; op {name} raised SystemError: {e}", {"model": m.to_json()})
        except Exception:  # noqa: BLE001
            ctx.feature("op-raised")
        # whatever the call did, it must not have stored heap garbage in the tables (0xBE-only elements, see scan_fill)
        ctx.count("fill-pattern-scans")
        try:
            dirty = scan_fill(tc.asdict())
        except Exception:  # noqa: BLE001
            dirty = False
        if dirty:
            cols = [f"{t}.{c}" for t, d in tc.asdict().items() if isinstance(d, dict) for c, v in d.items() if scan_fill(v)]
            ctx.violation(f"uninitialised-memory-in-tables/program/{name.split(':')[0]}",
                          f"corrupt {how}; after op {name} the columns {cols} hold elements made of the allocator's 0xBE fill pattern "
                          f"(memory tskit never wrote)", {"model": m.to_json()})
            break


# ----------------------------------------------------------------------------- allocation-failure enumeration

OOM_CALLS = [
    ("simplify", lambda o: o.ts.simplify()),
    ("tables.simplify", lambda o: o.tables.copy().simplify()),
    ("sort", lambda o: o.tables.copy().sort()),
    ("tree_sequence", lambda o: o.tables.tree_sequence()),
    ("trees", lambda o: [t.num_edges for t in o.ts.trees(sample_lists=True)]),
    ("copy", lambda o: o.tables.copy()),
    ("subset", lambda o: o.tables.copy().subset(list(range(o.n))[::2])),
    ("union", lambda o: o.tables.copy().union(o.tables, np.arange(o.n, dtype=np.int32), check_shared_equality=False)),
    ("genotype_matrix", lambda o: o.ts.genotype_matrix(isolated_as_missing=False)),
    ("variants", lambda o: [v.genotypes.sum() for v in o.ts.variants(isolated_as_missing=False)]),
    ("diversity", lambda o: o.ts.diversity(mode="branch")),
    ("divergence_matrix", lambda o: o.ts.divergence_matrix()),
    ("afs", lambda o: o.ts.allele_frequency_spectrum(mode="branch")),
    ("ibd", lambda o: _ibd(o.ts.ibd_segments(store_pairs=True, store_segments=True))),
    ("link_ancestors", lambda o: o.tables.link_ancestors(list(o.samples), list(range(o.n)))),
    ("cmp", lambda o: o.tables.copy().compute_mutation_parents()),
    ("keep_intervals", lambda o: o.tables.copy().keep_intervals([[0, o.L / 2]])),
    ("delete_older", lambda o: o.tables.copy().delete_older(1.0)),
    ("canonicalise", lambda o: _nomig(o.tables).canonicalise()),
    ("dump_load", lambda o: _file_roundtrip(o.tables)),
    ("fromdict", lambda o: tskit.TableCollection.fromdict(o.tables.asdict())),
    ("kc_distance", lambda o: o.ts.kc_distance(o.ts)),
    ("map_mutations", lambda o: o.ts.first().map_mutations(np.arange(o.ts.num_samples) % 3, ["0", "1", "2"]) if o.ts.num_samples else None),
    ("newick", lambda o: [t.as_newick(root=r) for t in o.ts.trees() for r in t.roots]),
    ("gnn", lambda o: o.ts.genealogical_nearest_neighbours(list(o.samples), [list(o.samples)]) if o.samples else None),
    ("mean_descendants", lambda o: o.ts.mean_descendants([list(o.samples)]) if o.samples else None),
    ("general_stat", lambda o: o.ts.general_stat(np.ones((o.ts.num_samples, 1)), lambda x: x, 1, mode="node", strict=False)),
    ("ld_matrix", lambda o: o.ts.ld_matrix() if o.ts.num_sites else None),
    ("extend_haplotypes", lambda o: o.ts.extend_haplotypes()),
    ("split_edges", lambda o: o.ts.split_edges(0.75)),
    ("add_rows", lambda o: _add_rows(o)),
    ("table_getitem", lambda o: o.tables.nodes[np.arange(o.n) % 2 == 0]),
    ("pair_coalescence_counts", lambda o: o.ts.pair_coalescence_counts() if o.ts.num_samples > 1 else None),
    ("relatedness_vector", lambda o: o.ts.genetic_relatedness_vector(np.ones((o.ts.num_samples, 1)), mode="branch")),
    ("decapitate", lambda o: o.ts.decapitate(0.75)),
    ("delete_sites", lambda o: o.tables.copy().delete_sites([0]) if o.ts.num_sites else None),
    ("trim", lambda o: _nomig(o.tables).trim()),
    ("squash", lambda o: o.tables.copy().edges.squash()),
    ("sort_individuals", lambda o: o.tables.copy().sort_individuals()),
    ("dedup_sites", lambda o: o.tables.copy().deduplicate_sites()),
    ("compute_mutation_times", lambda o: o.tables.copy().compute_mutation_times()),
    ("build_index", lambda o: o.tables.copy().build_index()),
    ("variant_samples", lambda o: [v.genotypes.sum() for v in o.ts.variants(samples=list(range(o.n)), isolated_as_missing=False)]),
    ("variant_alleles", lambda o: [v.genotypes.sum() for v in o.ts.variants(alleles=tuple(gen.ALLELES), isolated_as_missing=False)]),
    ("haplotypes", lambda o: list(o.ts.haplotypes(isolated_as_missing=False))),
    ("as_vcf", lambda o: o.ts.as_vcf(allow_position_zero=True)),
    ("newick_labels", lambda o: [t.as_newick(root=r, node_labels={0: "a"}) for t in o.ts.trees() for r in t.roots]),
    ("nexus", lambda o: o.ts.as_nexus(include_alignments=False)),
    ("ibd_between", lambda o: _ibd(o.ts.ibd_segments(between=[list(o.samples[:1]), list(o.samples[1:])], store_pairs=True)) if len(o.samples) > 1 else None),
    ("tables.ibd", lambda o: _ibd(o.tables.ibd_segments(within=list(range(o.n)), store_segments=True, store_pairs=True))),
    ("relatedness_weighted", lambda o: o.ts.genetic_relatedness_weighted(np.ones((o.ts.num_samples, 2)), mode="branch")),
    ("relatedness_matrix", lambda o: o.ts.genetic_relatedness_matrix(mode="branch")),
    ("trait_covariance", lambda o: o.ts.trait_covariance(np.arange(o.ts.num_samples, dtype=float).reshape(-1, 1), mode="branch")),
    ("trait_linear_model", lambda o: o.ts.trait_linear_model(np.arange(o.ts.num_samples, dtype=float).reshape(-1, 1), mode="site")),
    ("Fst", lambda o: o.ts.Fst([list(o.samples[:1]), list(o.samples[1:])], mode="site") if len(o.samples) > 1 else None),
    ("f4", lambda o: o.ts.f4([list(o.samples)] * 4, mode="branch")),
    ("Y3", lambda o: o.ts.Y3([list(o.samples)] * 3, mode="node")),
    ("segregating_sites", lambda o: o.ts.segregating_sites(windows="trees", mode="site")),
    ("Tajimas_D", lambda o: o.ts.Tajimas_D(mode="site")),
    ("afs_site_2d", lambda o: o.ts.allele_frequency_spectrum([list(o.samples[:1]), list(o.samples[1:])], mode="site") if len(o.samples) > 1 else None),
    ("divmat_site_windows", lambda o: o.ts.divergence_matrix(windows=[0, o.L / 2, o.L], mode="site")),
    ("divmat_threads", lambda o: o.ts.divergence_matrix(num_threads=2, mode="branch")),
    ("count_topologies", lambda o: o.ts.first().count_topologies(sample_sets=[list(o.samples[:1]), list(o.samples[1:])]) if len(o.samples) > 1 else None),
    ("edge_diffs", lambda o: [len(x[1]) for x in o.ts.edge_diffs()]),
    ("coiterate", lambda o: [iv.left for iv, _, _ in o.ts.coiterate(o.ts)]),
    ("kc_tree", lambda o: o.ts.first(sample_lists=True).kc_distance(o.ts.last(sample_lists=True))),
    ("ld_calc", lambda o: tskit.LdCalculator(o.ts).r2_matrix() if o.ts.num_sites else None),
    ("ld_matrix_branch", lambda o: o.ts.ld_matrix(mode="branch", positions=[[0.0, o.L / 2]])),
    ("tree_ops", lambda o: _tree_ops(o)),
    ("asdict_ts", lambda o: o.ts.tables.asdict()),
    ("dump_tables", lambda o: o.ts.dump_tables().equals(o.tables)),
    ("dump_text", lambda o: _dump_text(o.ts, 6)),
    ("load_text", lambda o: _text_roundtrip(o.ts)),
    ("ts_load_dump", lambda o: _ts_file_roundtrip(o.ts)),
    ("table_ops", lambda o: _table_ops(o)),
    ("pickle", lambda o: __import__("pickle").loads(__import__("pickle").dumps(o.ts)).num_trees),
    ("individuals_arrays", lambda o: (o.ts.individuals_time, o.ts.individuals_population, o.ts.individuals_location if _rect(o.ts) else None)),
    ("impute_times", lambda o: o.ts.impute_unknown_mutations_time()),
    ("pair_coalescence_rates", lambda o: o.ts.pair_coalescence_rates(np.array([0.0, 1.0, INF])) if o.ts.num_samples > 1 else None),
    ("pair_coalescence_quantiles", lambda o: o.ts.pair_coalescence_quantiles(np.array([0.25, 0.5])) if o.ts.num_samples > 1 else None),
    ("unrank", lambda o: tskit.Tree.unrank(5, (2, 3)).rank()),
    ("split_polytomies", lambda o: o.ts.first().split_polytomies(random_seed=1).num_edges if o.ts.first().num_roots == 1 else None),
    ("reference_sequence", lambda o: _refseq(o)),
    ("metadata_schema", lambda o: _schema_ops(o)),
]


def _tree_ops(o):
    t = tskit.Tree(o.ts, sample_lists=True, tracked_samples=list(o.samples[:2]), root_threshold=2)
    out = []
    t.first()
    while t.next():
        out.append(t.num_edges)
    t.seek(o.L / 3)
    t.seek_index(0)
    c = t.copy()
    c.last()
    while c.prev():
        out.append(c.num_tracked_samples(c.virtual_root))
    out.append(list(c.nodes(order="minlex_postorder")))
    out.append([list(t.samples(u)) for u in range(o.n)])
    return out


def _table_ops(o):
    c = o.tables.copy()
    n = c.nodes
    n.set_columns(flags=n.flags, time=n.time, population=n.population, individual=n.individual, metadata=n.metadata, metadata_offset=n.metadata_offset)
    n.append_columns(flags=n.flags, time=n.time, metadata=n.metadata, metadata_offset=n.metadata_offset)
    n.keep_rows(np.arange(n.num_rows) < o.n)
    n.truncate(o.n)
    n.packset_metadata([b"abc"] * n.num_rows)
    c.individuals.keep_rows(np.ones(c.individuals.num_rows, dtype=bool))
    c.mutations.keep_rows(np.ones(c.mutations.num_rows, dtype=bool))
    c.sites[0:1]
    c.edges[np.arange(c.edges.num_rows) % 2 == 0]
    c.drop_index()
    c.clear(clear_provenance=True)
    return n.num_rows


def _text_roundtrip(ts):
    import io
    fs = {k: io.StringIO() for k in ("nodes", "edges", "sites", "mutations", "individuals", "populations", "migrations")}
    ts.dump_text(precision=6, **fs)
    for f in fs.values():
        f.seek(0)
    return tskit.load_text(strict=False, **fs).num_nodes


def _ts_file_roundtrip(ts):
    with tempfile.NamedTemporaryFile() as f:
        ts.dump(f.name)
        a = tskit.load(f.name)
        b = tskit.load(f.name, skip_tables=True)
        return a.num_trees, b.num_nodes


def _refseq(o):
    c = o.tables.copy()
    c.reference_sequence.data = "ACGT" * 10
    c.reference_sequence.url = "x"
    c.reference_sequence.metadata_schema = tskit.MetadataSchema({"codec": "json"})
    c.reference_sequence.metadata = {"a": 1}
    d = c.copy()
    return d.reference_sequence.data, d.equals(c), c.tree_sequence().reference_sequence.data


def _schema_ops(o):
    c = o.tables.copy()
    sch = tskit.MetadataSchema({"codec": "struct", "type": "object", "properties": {"a": {"type": "integer", "binaryFormat": "i"}}})
    c.populations.metadata_schema = sch
    c.populations.clear()
    c.populations.add_row(metadata={"a": 5})
    c.metadata_schema = tskit.MetadataSchema({"codec": "json"})
    c.metadata = {"k": [1, 2, 3]}
    c.time_units = "generations"
    return c.populations[0].metadata, c.copy().metadata


def _add_rows(o):
    c = o.tables.copy()
    for j in range(40):
        c.nodes.add_row(time=j, metadata=b"x" * (j * 7))
        c.sites.add_row(position=j, ancestral_state="A" * j)
    return c.nodes.num_rows


def _nomig(tc):
    c = tc.copy()
    c.migrations.clear()
    return c


_shim = None


def shim():
    global _shim
    if _shim is None:
        _shim = ctypes.CDLL("libtskfail.so")
        _shim.tskfail_arm.argtypes = [ctypes.c_long]
        _shim.tskfail_disarm.restype = ctypes.c_long
    return _shim


def run_oom(case, ctx):
    rng = case_rng(case)
    name, fn = OOM_CALLS[case["call"]]
    o = Obj(rng, "full")
    sh = shim()
    sh.tskfail_arm(-1)
    try:
        fn(o)
    except Exception as e:  # noqa: BLE001 - the call is not applicable to this input (e.g. migrations present)
        ctx.feature(f"oom-baseline-raises:{name}:{type(e).__name__}")
        sh.tskfail_disarm()
        return
    finally:
        total = sh.tskfail_disarm()
    ctx.sig(("oom", name, o.m.signature()), nontrivial=total > 0)
    ctx.feature(f"oom-points:{name}", total)
    if total == 0:
        ctx.count("oom-shim-inactive")
    ks = list(range(1, total + 1))
    if total > 300:  # bounded: the first 100 points and a random sample of the rest
        ks = ks[:100] + sorted(rng.sample(ks[100:], 200))
        ctx.feature("oom-sampled")
    for k in ks:
        ctx.step(f"oom: {name} failing tsk allocation {k} of {total}")
        ctx.count("oom-injections")
        sh.tskfail_arm(k)
        try:
            fn(o)
            outcome = "returned"
        except MemoryError:
            outcome = "MemoryError"
        except tskit.LibraryError as e:
            outcome = "LibraryError" if "memory" in str(e).lower() else f"LibraryError-other:{e}"
        except SystemError as e:
            outcome = "SystemError"
            ctx.violation(f"oom/systemerror/{name}", f"{name}: failing allocation {k}/{total} raised SystemError {e}")
        except Exception as e:  # noqa: BLE001
            outcome = type(e).__name__
        finally:
            sh.tskfail_disarm()
        ctx.feature("oom-outcome:" + outcome.split(":")[0])
        # the objects must stay usable
        _probe(o)
    ctx.count("oom-calls")


# The repository's own test modules as an extra driver (thorough tier): they are run against /repo's code on the
# ASan+UBSan build; only sanitizer reports / aborts count (a failing assertion of a test is not our oracle).
REPO_TEST_MODULES = ["test_lowlevel", "test_tables", "test_file_format", "test_fileobj", "test_dict_encoding",
                     "test_table_transforms", "test_genotypes", "test_parsimony", "test_ibd", "test_ld_matrix",
                     "test_divmat", "test_coalrate", "test_stats", "test_tree_positioning", "test_topology",
                     "test_metadata", "test_text_formats", "test_phylo_formats", "test_vcf", "test_combinatorics",
                     "test_extend_haplotypes", "test_relatedness_vector", "test_distance_metrics", "test_balance_metrics",
                     "test_reference_sequence", "test_utilities", "test_util", "test_intervals", "test_wright_fisher",
                     "test_highlevel", "test_tree_stats"]
# the private Li-Stephens classes are out of scope (DESIGN section 0)
REPO_TEST_DESELECT = "not LsHmm and not CompressedMatrix and not ViterbiMatrix and not haplotype_matching"


def run_repotests(case, ctx):
    import subprocess
    import sys
    repo = os.environ.get("VERIF_REPO", "/repo")
    mod = case["module"]
    path = os.path.join(repo, "python", "tests", mod + ".py")
    ctx.sig(("repotests", mod), nontrivial=True)
    if not os.path.exists(path):
        ctx.feature("repotests-missing:" + mod)
        return
    env = dict(os.environ, PYTHONDONTWRITEBYTECODE="1")
    env["PYTHONPATH"] = os.pathsep.join([os.environ["VERIF_BUILDDIR"], os.path.join(repo, "python")])
    ctx.step(f"repotests: {mod}")
    import faulthandler
    faulthandler.cancel_dump_traceback_later()  # the subprocess below has its own (much longer) timeout
    cmd = [sys.executable, "-m", "pytest", "-q", "-p", "no:cacheprovider", "-x", "--maxfail=1000", "-k", REPO_TEST_DESELECT,
           os.path.join("tests", mod + ".py")]
    try:
        r = subprocess.run(cmd, cwd=os.path.join(repo, "python"), env=env, capture_output=True, text=True, timeout=3000)
    except subprocess.TimeoutExpired:
        ctx.feature("repotests-timeout:" + mod)
        return
    out = r.stdout + r.stderr
    ctx.count("repotests-modules")
    import re as _re
    m = _re.search(r"(\d+) passed", out)
    ctx.count("repotests-tests-passed", int(m.group(1)) if m else 0)
    rep = _re.search(r"ERROR: AddressSanitizer: ([\w-]+)|runtime error: ([^\n]*)|Bug detected in (\S+) at line", out)
    if rep or r.returncode < 0:
        frames = _re.findall(r"#\d+ 0x[0-9a-f]+ in (\w+) [^\n]*?/(?:c/tskit|python|c/subprojects/kastore)/", out)
        test = _re.findall(r"(tests/\S+::\S+)", out)
        kind = (rep.group(1) or rep.group(2) or "bug-assert") if rep else f"signal{-r.returncode}"
        kind = _re.sub(r"0x[0-9a-f]+|\d+", "N", kind)[:50].replace(" ", "-")
        pos = rep.start() if rep else max(0, len(out) - 2500)
        ctx.violation(f"crash/repotests/{kind}/{frames[0] if frames else '?'}",
                      f"sanitizer report / abort while running the repository's own {mod}.py on the ASan build "
                      f"(last test seen: {test[-1] if test else '?'})", out[max(0, pos - 300):pos + 2500])


_MEMCHECK = []


def setup(ctx):
    """Start this worker's companion valgrind process (lib/props/c09_memcheck.py); it works through its slice of the
    catalogue while the worker runs its own cases on the ASan build, and is collected by teardown()."""
    only = os.environ.get("VERIF_C09_KINDS")
    if ctx.replay or ctx.attempt > 0 or (only and "memcheck" not in only.split(",")):
        return
    from lib.props import c09_memcheck
    n = min(ctx.nshards, 6) if ctx.tier == "quick" else ctx.nshards
    if ctx.shard >= n:
        return
    case = {"gen": "memcheck", "slice": ctx.shard + n * (ctx.seed % 1000), "of": n,
            "budget": 35 if ctx.tier == "quick" else 900, "tier": ctx.tier, "seed": ctx.seed, "idx": -1 - ctx.shard}
    h = c09_memcheck.start_memcheck(case, ctx)
    if h is not None:
        _MEMCHECK.append(h)


def teardown(ctx):
    from lib.props import c09_memcheck
    while _MEMCHECK:
        c09_memcheck.collect_memcheck(_MEMCHECK.pop(), ctx)


def run_case(case, ctx):
    if case["gen"] == "repotests":
        return run_repotests(case, ctx)
    if case["gen"] == "memcheck":
        from lib.props import c09_memcheck
        return c09_memcheck.run_memcheck(case, ctx)
    if not hasattr(ctx, "step"):
        ctx.step = lambda d: None
    if case["gen"] == "bulk":
        c09_ext.run_bulk(case, ctx)
    elif case["gen"] == "sweep":
        run_sweep(case, ctx)
    elif case["gen"] == "program":
        run_program(case, ctx)
    else:
        run_oom(case, ctx)
