"""C13 — tables behave like a list of rows; tree sequences never change.

Two kinds of cases.

  table   history checker.  One of the eight table classes, a random program of 10-200 operations; the model is a plain
          Python list of row tuples (lib.tsk.SPEC layouts) plus the schema string.  After EVERY operation the table is
          read back through its raw columns and compared bit-exactly with the model list, ragged offsets are checked
          (n + 1 entries, from 0, non-decreasing, ending at the data length), len/num_rows/max_rows agree; operations
          that must be refused (out-of-range index, wrong lengths, malformed offsets, dangling keep_rows references,
          ids below -1) must raise and leave the table as it was.
  ts      immutability.  A generated tree sequence, a random program of public TreeSequence / Tree / Variant property
          reads and method calls (names enumerated with dir(), arguments from a small catalogue).  A fingerprint of the
          tree sequence (every column of dump_tables() plus every array property) is taken before the program and must
          be unchanged after every call; every numpy array found in a result (also inside tuples, row objects, Trees,
          Variants, table collections) is probed: not writeable, or writing into it leaves the fingerprint unchanged.

EITHER zones (nothing asserted):
  * which exception class an invalid operation raises;
  * the state of a table after a FAILED set_columns whose offsets do not start at 0 (the C library clears first and
    validates afterwards; the docstring only says "overwrites existing data") — this malformed input is therefore only
    generated for append_columns, where nothing is cleared;
  * a failed set_columns / packset_* / column assignment may leave the table unchanged OR well-formed and empty; a table
    whose ragged columns are internally inconsistent afterwards (offsets not ending at the data length) is a violation;
  * PopulationTable has metadata as its only column, so a metadata_offset / packset_metadata list of another length
    simply redefines the row count there — not generated as a refusal;
  * negative entries in an id-array index (undocumented) are not generated;
  * Variant buffers (genotypes etc.) are the Variant's own working state: they are probed for aliasing tree-sequence
    memory, but not required to be read-only;
  * `ts.tables` hands out a fresh copy in this version (the docstring allows a future read-only view): mutating it, like
    mutating dump_tables(), must not reach the tree sequence — that IS asserted.

Audit widening (see lib/props/AUDIT-C13.md; the new operations live in lib/props/c13_ext.py):
  table   40 % of the programs run on a table that belongs to a TableCollection (its seven neighbours are compared after
          every operation); metadata is raw bytes, permissive JSON or a struct schema; further operations: row objects
          read from the same table / from a tree sequence, replace_with, reset, pickle / copy / deepcopy, collection
          copy / pickle / fromdict / clear, low-level extend / get_row / update_row, schema assignment, pack_* /
          unpack_* / nbytes / metadata_vector, equals(ignore_*) / assert_equals; argument forms (positional, numpy
          scalars, lists, tuples, strided / read-only / byte-swapped / narrower arrays, ranges); programs flagged
          "large" bring the row count / one ragged column to exactly a capacity boundary and step over it.
  ts      arbitrary, struct-metadata and msprime-simulated tree sequences; derived state (trees, samples, individual
          nodes, genotypes) is fingerprinted next to the tables; handed-out mutable objects are modified; read-only
          arrays are asked to become writeable; pickle / copy / str / == / setattr / the source TableCollection /
          multi-hop reads / LdCalculator are part of the programs.
Further EITHER zones:
  * a failing low-level `extend` may already have appended the rows listed before the offending index;
  * numpy 0/1 integer arrays for keep_rows, int64 arrays for int32 columns, bytearray metadata: refused by this
    version, undocumented - not generated;
  * `setflags(write=True)` succeeding on an array that owns its memory or on a Python-side cache: only the TABLES of
    the tree sequence must stay equal then.
"""
import collections.abc
import copy
import inspect
import itertools
import io
import json
import math
import os
import pickle
import shutil
import struct
import tempfile
import types

import numpy as np
import tskit

from lib import gen
from lib.harness import case_rng
from lib.props import c13_ext as X
from lib.props.c13_ext import SCHEMAS, ExtOps, canonical_json, decode_md, struct_encode, vary_array
from lib.tsk import SPEC, columns_from_rows, from_tables, pack_ragged, rows_from_columns, tables_bytes, to_tables

ID = "C13"

CLASSES = {
    "nodes": tskit.NodeTable, "edges": tskit.EdgeTable, "sites": tskit.SiteTable, "mutations": tskit.MutationTable,
    "individuals": tskit.IndividualTable, "populations": tskit.PopulationTable, "migrations": tskit.MigrationTable,
    "provenances": tskit.ProvenanceTable,
}
NAMES = tuple(CLASSES)
JSON_SCHEMA = '{"codec":"json"}'


def cases(tier, seed):
    n = 400000 if tier == "quick" else 6000000
    for k in range(n):
        if k % 4 == 3:
            yield {"gen": "ts", "k": k}
        else:
            c = {"gen": "table", "table": NAMES[(k - k // 4) % 8], "k": k}
            if k % 44 in (1, 14, 30):
                # a fixed share of the programs works AT the capacity boundaries (1024/2048 rows, 64/128 KiB columns)
                c["large"] = 1
            yield c


# =============================================================================================
# values
# =============================================================================================

def _f(bits):
    return struct.unpack("<d", struct.pack("<Q", bits))[0]


FLOATS = [0.0, -0.0, 1.0, 0.5, 0.1, -3.25, 1e-310, 1.7976931348623157e308, math.inf, -math.inf, math.nan,
          _f(0x7FF8000000000002), 12345.678]
STRS = ["", "A", "C", "G", "é", "AC\x00GT", "日本", "x" * 70, "0"]


def cz(x):
    if isinstance(x, float):
        return ("f", struct.pack(">d", x).hex())
    if isinstance(x, (tuple, list)):
        return tuple(cz(y) for y in x)
    return x


class Gen:
    """Random row values for one program."""

    def __init__(self, rng, name, jsonmode, mode=None):
        self.rng, self.name, self.jsonmode = rng, name, jsonmode
        self.mode = mode or ("json" if jsonmode else "raw")   # raw bytes / permissive JSON / struct codec
        # whole ragged columns that stay empty for the entire program while the others are filled (a table
        # whose ancestral_state column is all-empty but whose metadata is not, and so on)
        ragged = {"sites": ["s", "md"], "mutations": ["s", "md"], "individuals": ["loc", "par", "md"],
                  "provenances": ["ts", "rec"]}.get(name, ["md"])
        self.empty = set()
        if rng.random() < 0.3:
            self.empty = set(rng.sample(ragged, rng.randint(1, max(1, len(ragged) - 1))))
            if self.mode != "raw":
                self.empty.discard("md")

    def f(self):
        r = self.rng
        return r.choice(FLOATS) if r.random() < 0.4 else r.randint(-40, 40) / 4

    def ident(self, n, wide=False):
        r = self.rng
        x = r.random()
        if x < 0.25:
            return -1
        if x < 0.85:
            return r.randrange(0, max(1, n))
        if wide and x < 0.9:
            return r.choice([-2, -(2 ** 31), 2 ** 31 - 1, -5])
        return r.choice([n, n + 3, 2 ** 31 - 2])

    def flags(self):
        return self.rng.choice([0, 0, 1, 1, 2, 1 << 16, 2 ** 32 - 1, 0x80000001])

    def rawbytes(self):
        r = self.rng
        x = r.random()
        if x < 0.004:
            return bytes([r.randrange(256)]) * 70001     # beyond the 64 KiB ragged-capacity floor
        k = r.choice([0, 0, 0, 1, 2, 3, 9, 40, 300])
        return bytes(r.choice([0, 0, 255, 65, 97, 10, 128]) for _ in range(k))

    def jsonobj(self):
        r = self.rng
        return {r.choice(["a", "b", "é", ""]): r.choice([1, 2.5, "x", "é", None, [1, 2], True])
                for _ in range(r.randint(0, 2))}

    def md(self, api):
        """(value for add_row/row objects, model bytes).  api=False: bytes go in raw through columns."""
        if self.mode == "struct":
            r = self.rng
            obj = {"n": r.choice([0, -1, 2 ** 31 - 1, -(2 ** 31), r.randint(-1000, 1000)]),
                   "v": [r.randint(-128, 127) for _ in range(r.choice([0, 0, 1, 3, 9, 200]))]}
            return (obj if api else None), struct_encode(obj)
        if not self.jsonmode:
            b = b"" if "md" in self.empty else self.rawbytes()
            return b, b
        obj = self.jsonobj()
        if api:
            return obj, json.dumps(obj, sort_keys=True, separators=(",", ":")).encode()
        r = self.rng
        if r.random() < 0.2:
            return None, b""
        b = json.dumps(obj, ensure_ascii=r.random() < 0.5, separators=r.choice([(",", ":"), (", ", ": ")])).encode()
        return None, b

    def s(self):
        r = self.rng
        if "s" in self.empty:
            return ""
        if r.random() < 0.003:
            return "T" * 70001
        return r.choice(STRS)

    def row(self, n, api, wide=False):
        """(model row, api metadata value).  n: current number of rows (ids are drawn around it)."""
        name = self.name
        r = self.rng
        if name == "provenances":
            return ("" if "ts" in self.empty else r.choice(["2024-01-01T00:00:00", "", "é", "t" * 30]),
                    "" if "rec" in self.empty else r.choice(['{"a":1}', "", "réc\x00", "r" * 200])), None
        mdv, mdb = self.md(api)
        if name == "nodes":
            row = (self.flags(), self.f(), self.ident(n, wide), self.ident(n, wide), mdb)
        elif name == "edges":
            row = (self.f(), self.f(), self.ident(n, wide), self.ident(n, wide), mdb)
        elif name == "sites":
            row = (self.f(), self.s(), mdb)
        elif name == "mutations":
            row = (self.ident(n, wide), self.ident(n, wide), self.s(), self.ident(n, wide),
                   None if r.random() < 0.4 else self.f(), mdb)
        elif name == "individuals":
            nl = r.choice([0, 0, 1, 2, 3, 17]) if r.random() > 0.003 else 9001
            loc = tuple(self.f() for _ in range(0 if "loc" in self.empty else nl))
            par = tuple(self.ident(n, wide) for _ in range(0 if "par" in self.empty else r.choice([0, 0, 1, 2, 2, 9])))
            row = (self.flags(), loc, par, mdb)
        elif name == "populations":
            row = (mdb,)
        else:
            row = (self.f(), self.f(), self.ident(n, wide), self.ident(n, wide), self.ident(n, wide), self.f(), mdb)
        return row, mdv


DEFAULTS = {
    "nodes": {"flags": 0, "time": 0.0, "population": -1, "individual": -1},
    "individuals": {"flags": 0, "location": (), "parents": ()},
    "mutations": {"parent": -1, "time": None},
}


def api_kwargs(name, row, mdv):
    """Keyword arguments for add_row / attributes of a row-like object."""
    kw = {}
    for (col, kind), v in zip(SPEC[name], row):
        if col == "metadata":
            kw[col] = mdv
        elif kind in ("Rf8", "Ri4"):
            kw[col] = list(v)
        else:
            kw[col] = v
    return kw


# =============================================================================================
# the history checker
# =============================================================================================

class Refused(Exception):
    pass


class TableHistory(ExtOps):
    Refused = Refused

    def __init__(self, case, ctx, rng):
        self.ctx, self.rng = ctx, rng
        self.name = case["table"]
        self.cls = CLASSES[self.name]
        self.has_md = self.name != "provenances"
        x = rng.random()
        self.mode = ("json" if x < 0.2 else "struct" if x < 0.35 else "raw") if self.has_md else "raw"
        self.jsonmode = self.mode == "json"
        self.large = bool(case.get("large"))
        self.g = Gen(rng, self.name, self.jsonmode, self.mode)
        inc = rng.choice([0, 0, 1, 1, 2, 7])
        self.tc = None
        self._ts = None
        if rng.random() < 0.4:
            # the table lives inside a TableCollection (the low-level wrapper then points into the collection's
            # memory); its seven neighbours hold a few rows and must never be touched
            inc = 0
            self.tc = tskit.TableCollection(rng.choice([1.0, 10.0]))
            self.t = getattr(self.tc, self.name)
            for o in NAMES:
                if o != self.name:
                    g2 = Gen(rng, o, False)
                    rows = [g2.row(j, api=False)[0] for j in range(rng.choice([0, 1, 3]))]
                    getattr(self.tc, o).set_columns(**columns_from_rows(o, rows))
            self.others = self.others_snapshot()
            ctx.feature("owner:TableCollection")
        else:
            self.t = self.cls(max_rows_increment=inc) if inc else self.cls()
            ctx.feature("owner:free-standing")
        self.M = []
        self.schema = SCHEMAS[self.mode]
        if self.mode != "raw":
            self.t.metadata_schema = tskit.MetadataSchema(json.loads(self.schema))
        self.op = "init"
        self.ops_done = []
        ctx.feature("table:" + self.name)
        if self.jsonmode:
            ctx.feature("json-schema")
        if self.mode == "struct":
            ctx.feature("struct-schema")
        if self.large:
            ctx.feature("large-program")
        if inc:
            ctx.feature("max_rows_increment")

    # ---- reporting
    note = ""

    def bad(self, what, msg):
        if self.note:
            msg += f" -- state after the refused call: {self.note}"
        self.ctx.violation(f"{self.name}/{self.op}-{what}", f"[{self.name} after {self.ops_done[-6:]}] {self.op}: {msg}")

    def fresh(self, rows=None, schema=None):
        t = self.cls()
        d = columns_from_rows(self.name, self.M if rows is None else rows)
        if self.has_md:
            d["metadata_schema"] = self.schema if schema is None else schema
        t.set_columns(**d)
        return t

    # ---- the invariant, evaluated after every operation
    def verify(self, t=None, M=None, schema=None, label=""):
        t = self.t if t is None else t
        M = self.M if M is None else M
        schema = self.schema if schema is None else schema
        self.ctx.count("verify")
        n = len(M)
        ok = True
        if not (len(t) == t.num_rows == n):
            self.bad("length" + label, f"len()={len(t)} num_rows={t.num_rows}, model list has {n} rows")
            return False
        if t.max_rows < n:
            self.bad("capacity" + label, f"max_rows={t.max_rows} < num_rows={n}")
            ok = False
        d = t.asdict()
        for col, kind in SPEC[self.name]:
            a = np.asarray(d[col])
            if kind in ("u4", "i4", "f8", "T"):
                if len(a) != n:
                    self.bad("column-length" + label, f"column {col} has {len(a)} entries for {n} rows")
                    return False
            else:
                off = np.asarray(d[col + "_offset"]).astype(np.int64)
                if len(off) != n + 1 or off[0] != 0 or np.any(np.diff(off) < 0) or off[-1] != len(a):
                    self.bad("offsets-malformed" + label,
                             f"{col}_offset={off[:12].tolist()}{'...' if len(off) > 12 else ''} for {n} rows and "
                             f"{len(a)} data items")
                    return False
        got = rows_from_columns(self.name, d)
        if cz(got) != cz(M):
            j = next((j for j in range(n) if cz(got[j]) != cz(M[j])), None)
            self.bad("rows-differ" + label, f"row {j}: table has {_short(got[j])}, list model has {_short(M[j])} "
                                            f"({n} rows)")
            ok = False
        if self.has_md and d["metadata_schema"] != schema:
            self.bad("schema-differs" + label, f"schema {d['metadata_schema']!r}, model {schema!r}")
            ok = False
        if self.tc is not None and t is self.t:
            if getattr(self.tc, self.name) is not t:
                self.bad("collection-table-identity" + label, "the collection hands out another table object")
                ok = False
            ok = self.check_others(label) and ok
        return ok

    def expect_refused(self, why, fn, *a, cleared_ok=False, **kw):
        """The call must raise (EITHER: which class) and leave the table exactly as it was.  cleared_ok (set_columns
        and the helpers built on it): "overwrites existing data" also permits a well-formed EMPTY table afterwards."""
        self.ctx.count("refusal")
        try:
            r = fn(*a, **kw)
        except Exception:  # noqa: BLE001
            if cleared_ok and self.M and len(self.t) == 0:
                self.ctx.feature("set_columns:cleared-on-error")
                self.M.clear()
            self.note = why
            try:
                self.verify(label="-after-refusal")
            finally:
                self.note = ""
            return
        self.bad("did-not-raise", f"{why}: returned {_short(r)}")
        raise Refused()

    def must(self, fn, *a, **kw):
        try:
            return fn(*a, **kw)
        except Exception as e:  # noqa: BLE001
            self.bad(f"raised-{type(e).__name__}", f"valid operation raised {type(e).__name__}: {e}")
            raise Refused()

    # ---- row objects
    def row_matches(self, row, mrow):
        for (col, kind), mv in zip(SPEC[self.name], mrow):
            v = getattr(row, col)
            if kind in ("u4", "i4"):
                good = int(v) == mv
            elif kind == "f8":
                good = cz(float(v)) == cz(mv)
            elif kind == "T":
                good = bool(tskit.is_unknown_time(v)) if mv is None else cz(float(v)) == cz(mv)
            elif kind == "S":
                good = v == mv
            elif kind == "B":
                good = v == decode_md(self.schema, mv)
            elif kind == "Rf8":
                good = isinstance(v, np.ndarray) and v.dtype == np.float64 and v.tobytes() == np.array(mv, dtype=np.float64).tobytes()
            else:
                good = isinstance(v, np.ndarray) and v.dtype == np.int32 and v.tolist() == list(mv)
            if not good:
                return f"{col}: row object has {_short(v)}, list model {_short(mv)}"
        return None

    def row_object(self, row, mdv):
        """A row-like object carrying `row`: from another table of the class, or a plain attribute bag."""
        kw = api_kwargs(self.name, row, mdv)
        if self.rng.random() < 0.5:
            other = self.cls()
            if self.schema:
                other.metadata_schema = tskit.MetadataSchema(json.loads(self.schema))
            self.add_row_call(other, kw)
            if self.rng.random() < 0.3:
                # the row object outlives the table it was read from
                ro = other[0]
                other.clear()
                del other
                return ro
            return other[0]
        if self.name == "mutations" and kw["time"] is None:
            kw["time"] = tskit.UNKNOWN_TIME
        return types.SimpleNamespace(**kw)

    def add_row_call(self, t, kw):
        if self.name == "provenances":
            return t.add_row(kw["record"], timestamp=kw["timestamp"])
        return t.add_row(**kw)

    # ---- operations --------------------------------------------------------------------
    def op_add_row(self):
        t, M, r = self.t, self.M, self.rng
        row, mdv = self.g.row(len(M), api=True)
        kw = api_kwargs(self.name, row, mdv)
        row = list(row)
        # leave defaults out
        for col, dv in DEFAULTS.get(self.name, {}).items():
            if r.random() < 0.3:
                kw.pop(col)
                row[[c for c, _ in SPEC[self.name]].index(col)] = dv
        if self.has_md and r.random() < 0.2:
            if r.random() < 0.5:
                kw.pop("metadata")
            else:
                kw["metadata"] = None     # documented as "the default metadata value for the table's schema"
            row[-1] = b"{}" if self.jsonmode else b""
            if self.mode == "struct":
                # the struct schema makes both properties required, so the default value {} cannot be encoded
                self.expect_refused("add_row without metadata under a struct schema with required properties",
                                    self.add_row_call, t, kw)
                return
        row = tuple(row)
        if r.random() < 0.4:
            self.vary_scalars(kw)
        if r.random() < 0.3:
            # positional form: a prefix of the documented parameter order, the rest by keyword
            order = X.POSITIONAL[self.name]
            p = 0
            while p < len(order) and order[p] in kw:
                p += 1
            p = r.randint(1, p) if p else 0
            args = [kw.pop(c) for c in order[:p]]
            self.ctx.feature("add_row:positional")
            rid = self.must(t.add_row, *args, **kw)
        else:
            rid = self.must(self.add_row_call, t, kw)
        if rid != len(M):
            self.bad("returned-id", f"add_row returned {rid} for a table that had {len(M)} rows")
        M.append(row)

    def vary_scalars(self, kw):
        """The same values as other accepted argument types (numpy scalars, tuples, arrays, ints for whole floats)."""
        r = self.rng
        self.ctx.feature("add_row:numpy-forms")

        def whole(v):
            return math.isfinite(v) and v == int(v) and abs(v) < 2 ** 53 and math.copysign(1.0, v) > 0

        def f32(v):
            with np.errstate(over="ignore"):
                return math.isfinite(v) and float(np.float32(v)) == v

        for col, kind in SPEC[self.name]:
            if col not in kw or kw[col] is None:
                continue
            v = kw[col]
            if kind == "u4":
                kw[col] = r.choice([v, np.uint32(v), np.int64(v), np.uint64(v)])
            elif kind == "i4":
                kw[col] = r.choice([v, np.int32(v), np.int64(v)])
            elif kind in ("f8", "T"):
                forms = [v, np.float64(v)]
                if whole(v):
                    forms.append(int(v))
                if f32(v):
                    forms.append(np.float32(v))
                kw[col] = r.choice(forms)
            elif kind == "Rf8":
                forms = [list(v), tuple(v), np.array(v, dtype=np.float64)]
                if v and all(whole(y) for y in v):
                    forms.append([int(y) for y in v])
                if v and all(f32(y) for y in v):
                    forms.append(np.array(v, dtype=np.float32))
                kw[col] = r.choice(forms)
            elif kind == "Ri4":
                forms = [list(v), tuple(v), np.array(v, dtype=np.int32)]
                if v and all(-2 ** 15 <= y < 2 ** 15 for y in v):
                    forms.append(np.array(v, dtype=np.int16))
                kw[col] = r.choice(forms)

    def op_add_row_bad(self):
        row, mdv = self.g.row(len(self.M), api=True)
        kw = api_kwargs(self.name, row, mdv)
        idcols = [c for c, k in SPEC[self.name] if k == "i4"]
        flcols = [c for c, k in SPEC[self.name] if k == "u4"]
        if idcols and (not flcols or self.rng.random() < 0.7):
            kw[self.rng.choice(idcols)] = self.rng.choice([-2, -(2 ** 31), 2 ** 31 - 1, 2 ** 40])
            self.expect_refused("id outside [-1, 2^31-2]", self.add_row_call, self.t, kw)
        elif flcols:
            kw[flcols[0]] = self.rng.choice([-1, 2 ** 32])
            self.expect_refused("flags outside uint32", self.add_row_call, self.t, kw)
        elif self.name == "individuals":
            pass

    def op_append(self):
        row, mdv = self.g.row(len(self.M), api=True)
        ro = self.row_object(row, mdv)
        rid = self.must(self.t.append, ro)
        if rid != len(self.M):
            self.bad("returned-id", f"append returned {rid} for a table that had {len(self.M)} rows")
        self.M.append(row)

    def op_getitem_int(self):
        n = len(self.M)
        r = self.rng
        if n and r.random() < 0.8:
            i = r.randrange(-n, n)
            forms = [i, np.int64(i), np.int32(i), np.intp(i)]
            if -2 ** 15 <= i < 2 ** 15:
                forms.append(np.int16(i))
            if 0 <= i < 256:
                forms += [np.uint8(i), np.uint64(i)]
            idx = r.choice(forms)
            row = self.must(self.t.__getitem__, idx)
            self.ctx.count("row-object")
            msg = self.row_matches(row, self.M[i])
            if msg:
                self.bad("row-object-differs", f"t[{i}] of {n}: {msg}")
        else:
            i = r.choice([n, n + 1, -n - 1, n + 1000, -n - 7])
            self.expect_refused(f"t[{i}] with {n} rows", self.t.__getitem__, i)
            if r.random() < 0.3:
                self.expect_refused("float index", self.t.__getitem__, 0.0)

    def check_subtable(self, sub, want, how):
        if not isinstance(sub, self.cls):
            self.bad("result-type", f"{how} returned {type(sub).__name__}")
            return
        self.verify(sub, want, label="-result")
        # the result is a new table: emptying it must not reach the source
        sub.clear()
        self.verify(label="-source-after-result-cleared")

    def op_getitem_slice(self):
        n = len(self.M)
        r = self.rng

        def bound():
            return r.choice([None, None, 0, 1, n, n + 2, -1, -n, r.randint(-n - 2, n + 2)])
        sl = slice(bound(), bound(), r.choice([None, None, 1, 2, 3, -1, -2]))
        sub = self.must(self.t.__getitem__, sl)
        self.check_subtable(sub, [self.M[i] for i in range(*sl.indices(n))], f"t[{sl}]")

    def op_getitem_mask(self):
        n = len(self.M)
        r = self.rng
        if r.random() < 0.15:
            bad = n + r.choice([1, 2, -1]) if n else 1
            mask = np.array([r.random() < 0.5 for _ in range(max(0, bad))], dtype=bool)
            self.expect_refused(f"mask of length {len(mask)} for {n} rows", self.t.__getitem__, mask)
            return
        p = r.choice([0.0, 0.3, 0.7, 1.0])
        mask = [r.random() < p for _ in range(n)]
        arg = np.array(mask, dtype=bool) if (n == 0 or r.random() < 0.6) else (mask if r.random() < 0.6 else tuple(mask))
        sub = self.must(self.t.__getitem__, arg)
        self.check_subtable(sub, [self.M[i] for i in range(n) if mask[i]], "t[mask]")

    def op_getitem_ids(self):
        n = len(self.M)
        r = self.rng
        if r.random() < 0.15 or n == 0:
            ids = [r.randrange(n) for _ in range(r.randint(0, 2))] + [n + r.choice([0, 1, 50])] if n else [0]
            self.expect_refused(f"id array {ids} for {n} rows", self.t.__getitem__, np.array(ids, dtype=np.int64))
            return
        if r.random() < 0.12:
            # ids that no int32 row number can hold, non-integer and two-dimensional index arrays
            bad = r.choice([np.array([0, 2 ** 31], dtype=np.int64), [0, 2 ** 40], np.array([0.0]), np.array([[0]]),
                            np.array([2 ** 63], dtype=np.uint64), np.array([0.5, 1.5])])
            self.expect_refused(f"index array {bad!r}", self.t.__getitem__, bad)
            return
        ids = [r.randrange(n) for _ in range(r.choice([0, 1, 2, 5, n, 2 * n]))]
        x = r.random()
        if x < 0.1:
            # a range object, including the last row and an empty range
            a, b = sorted([r.randint(0, n), r.randint(0, n)])
            rg = r.choice([range(a, b), range(b - 1, a - 1, -1) if b > a else range(0), range(a, n, 2), range(n)])
            ids = list(rg)
            arg = rg
        elif x < 0.3 or not ids:
            arg = np.array(ids, dtype=np.int32) if (ids or r.random() < 0.5) else r.choice([[], (), np.array([])])
        elif x < 0.6:
            small = [np.int8, np.uint8] if n <= 127 else []
            arg = np.array(ids, dtype=r.choice([np.int64, np.uint32, np.uint64, np.int16 if n < 30000 else np.int64]
                                               + small))
        else:
            arg = ids if x < 0.8 else tuple(ids)
        sub = self.must(self.t.__getitem__, arg)
        self.check_subtable(sub, [self.M[i] for i in ids], "t[ids]")

    def op_setitem(self):
        n = len(self.M)
        r = self.rng
        row, mdv = self.g.row(n, api=True)
        ro = self.row_object(row, mdv)
        if n and r.random() < 0.85:
            i = r.randrange(-n, n)
            self.must(self.t.__setitem__, r.choice([i, np.int64(i)]), ro)
            self.M[i] = row
        else:
            i = r.choice([n, -n - 1, n + 9])
            self.expect_refused(f"t[{i}] = row with {n} rows", self.t.__setitem__, i, ro)
            if n:
                self.expect_refused("slice assignment", self.t.__setitem__, slice(0, 1), ro)

    def op_setitem_foreign(self):
        """t[i] = a row object just read from a table with ANOTHER metadata schema, its metadata not yet decoded.  The
        documented behaviour ("validated and encoded according to the table's metadata_schema") is what a list of rows
        does with the row's *value*: the destination stores its own encoding of row.metadata, or refuses the value and
        stays as it was - it never takes over the source table's bytes."""
        n = len(self.M)
        r = self.rng
        if not self.has_md or n == 0:
            return self.op_setitem()
        row, mdv = self.g.row(n, api=True)
        kw = api_kwargs(self.name, row, mdv)
        other = self.cls()
        i = r.randrange(-n, n)
        self.ctx.count("setitem-foreign-schema")
        if self.mode == "struct":
            if r.random() < 0.6:
                # source: a JSON-schema table holding the same object as text; the struct table must store ITS encoding
                other.metadata_schema = tskit.MetadataSchema(json.loads(JSON_SCHEMA))
                self.add_row_call(other, kw)
                self.ctx.feature("setitem-foreign:json-row-into-struct-table")
                self.must(self.t.__setitem__, i, other[0])
                self.M[i] = row
            else:
                kw["metadata"] = row[-1]
                self.add_row_call(other, kw)
                self.ctx.feature("setitem-foreign:raw-row-into-struct-table")
                self.expect_refused("row with raw-bytes metadata (schema-less table) assigned to a struct-schema table",
                                    self.t.__setitem__, i, other[0])
        elif self.schema:
            if r.random() < 0.6:
                # source: the same permissive JSON schema, but the stored text is not in canonical form
                other.metadata_schema = tskit.MetadataSchema(json.loads(JSON_SCHEMA))
                self.add_row_call(other, kw)
                raw = json.dumps(mdv, sort_keys=False, ensure_ascii=True, separators=(", ", ": ")).encode()
                if r.random() < 0.3:
                    raw = b" " + raw + b"\n"
                other.packset_metadata([raw])
                self.ctx.feature("setitem-foreign:json-noncanonical" + (":bytes-differ" if raw != row[-1] else ":same-bytes"))
                ro = other[0]
                if r.random() < 0.3:
                    ro = other.copy()[0]
                self.must(self.t.__setitem__, i, ro)
                self.M[i] = row
            else:
                # source: no schema, so row.metadata is a bytes object, which the JSON codec cannot encode
                kw["metadata"] = row[-1]
                self.add_row_call(other, kw)
                self.ctx.feature("setitem-foreign:raw-row-into-json-table")
                self.expect_refused("row with raw-bytes metadata (schema-less table) assigned to a JSON-schema table",
                                    self.t.__setitem__, i, other[0])
        else:
            # destination has no schema (metadata must be bytes); source decodes to a dict
            if r.random() < 0.7:
                other.metadata_schema = tskit.MetadataSchema(json.loads(JSON_SCHEMA))
                kw["metadata"] = self.g.jsonobj()
            else:
                other.metadata_schema = tskit.MetadataSchema(json.loads(SCHEMAS["struct"]))
                kw["metadata"] = {"n": 1, "v": [2]}
            self.add_row_call(other, kw)
            self.ctx.feature("setitem-foreign:json-row-into-raw-table")
            self.expect_refused("row with dict metadata (JSON-schema table) assigned to a schema-less table",
                                self.t.__setitem__, i, other[0])

    def op_truncate(self):
        n = len(self.M)
        r = self.rng
        if r.random() < 0.2:
            k = r.choice([n + 1, n + 100, -1])
            self.expect_refused(f"truncate({k}) with {n} rows", self.t.truncate, k)
            return
        k = r.choice([n, 0, max(0, n - 1), r.randint(0, n)])
        self.must(self.t.truncate, r.choice([k, k, np.int64(k), np.int32(k), np.uint64(k)]))
        del self.M[k:]

    def refs(self, row):
        if self.name == "individuals":
            return row[2]
        if self.name == "mutations":
            return (row[3],)
        return ()

    def op_keep_rows(self):
        n = len(self.M)
        r = self.rng
        M = self.M
        if r.random() < 0.12:
            k = n + r.choice([1, -1, 3]) if n else 2
            self.expect_refused(f"keep_rows mask of length {max(0, k)} for {n} rows", self.t.keep_rows,
                                [True] * max(0, k))
            return
        p = r.choice([0.0, 0.5, 0.8, 0.8, 1.0])
        keep = [r.random() < p for _ in range(n)]
        if self.name in ("individuals", "mutations") and r.random() < 0.7:
            # close the kept set under the references so that the call is usually valid
            for _ in range(3):
                for j in range(n):
                    if keep[j]:
                        for p_ in self.refs(M[j]):
                            if 0 <= p_ < n:
                                keep[p_] = True
        idmap, k = [], 0
        for j in range(n):
            idmap.append(k if keep[j] else -1)
            k += keep[j]
        why = None
        for j in range(n):
            if keep[j]:
                for p_ in self.refs(M[j]):
                    if p_ == -1:
                        continue
                    if p_ < -1 or p_ >= n:
                        why = f"kept row {j} refers to {p_}, out of bounds for {n} rows"
                    elif idmap[p_] == -1:
                        why = f"kept row {j} refers to deleted row {p_}"
        arg = np.array(keep, dtype=bool) if (n == 0 or r.random() < 0.5) else \
            r.choice([keep, keep, tuple(keep), [int(b) for b in keep]])
        if why:
            self.ctx.feature("keep_rows:refused")
            self.expect_refused(why, self.t.keep_rows, arg)
            return
        got = self.must(self.t.keep_rows, arg)
        self.ctx.count("keep_rows-idmap")
        if not (isinstance(got, np.ndarray) and got.dtype == np.int32 and got.tolist() == idmap):
            self.bad("idmap-differs", f"keep={keep[:40]} returned {_short(got)}, expected {idmap[:40]}")
        new = []
        for j in range(n):
            if keep[j]:
                row = M[j]
                if self.name == "individuals":
                    row = row[:2] + (tuple(idmap[p_] if p_ != -1 else -1 for p_ in row[2]),) + row[3:]
                elif self.name == "mutations":
                    row = row[:3] + (idmap[row[3]] if row[3] != -1 else -1,) + row[4:]
                new.append(row)
        self.M[:] = new

    def op_clear(self):
        if self.rng.random() < 0.3:
            self.ctx.feature("clear:reset-alias")
            self.must(self.t.reset)      # deprecated alias of clear
        else:
            self.must(self.t.clear)
        self.M.clear()

    def new_rows(self):
        r = self.rng
        k = r.choice([0, 1, 1, 2, 3, 6]) if r.random() > 0.012 else 1100
        wide = r.random() < 0.3
        base = len(self.M)
        return [self.g.row(base + j, api=False, wide=wide)[0] for j in range(k)]

    def columns(self, rows, drop_defaults=True):
        r = self.rng
        d = columns_from_rows(self.name, rows)
        if drop_defaults:
            for col, kind in SPEC[self.name]:
                if (col, kind) == SPEC[self.name][0] and self.name != "populations":
                    continue
                vals = [row[[c for c, _ in SPEC[self.name]].index(col)] for row in rows]
                if self.name == "nodes" and col in ("population", "individual") and all(v == -1 for v in vals):
                    droppable = True
                elif self.name == "mutations" and col == "parent" and all(v == -1 for v in vals):
                    droppable = True
                elif self.name == "mutations" and col == "time" and all(v is None for v in vals):
                    droppable = True
                elif col in ("metadata", "location", "parents") and self.name != "populations" \
                        and all(len(v) == 0 for v in vals):
                    droppable = True
                else:
                    droppable = False
                if droppable and r.random() < 0.5:
                    d.pop(col)
                    d.pop(col + "_offset", None)
        for k in list(d):
            if k.endswith("_offset") and r.random() < 0.5:
                d[k] = d[k].astype(np.uint32)
        return d

    def corrupt(self, d, rows, appending):
        """Return (description, broken column dict) or None."""
        r = self.rng
        fixed = [c for c, k in SPEC[self.name] if k in ("u4", "i4", "f8", "T") and c in d]
        ragged = [c for c, k in SPEC[self.name] if k in ("B", "S", "Rf8", "Ri4") and c in d]
        kinds = []
        if self.name not in ("populations", "provenances"):
            kinds.append("missing-required")
        if len(fixed) >= 2 or (fixed and ragged):
            kinds.append("fixed-length")
        if ragged:
            kinds += ["offset-last", "no-offset"]
            if self.name != "populations":     # there the offsets define the row count
                kinds.append("offset-count")
            if len(rows) >= 2:
                kinds.append("offset-order")
            if appending and rows:
                kinds.append("offset-start")
        if not kinds:
            return None
        kind = r.choice(kinds)
        d = dict(d)
        if kind == "missing-required":
            c = SPEC[self.name][0][0]
            d.pop(c)
            return f"required column {c} missing", d
        if kind == "fixed-length":
            c = r.choice(fixed)
            d[c] = np.concatenate([d[c], d[c][:1]]) if len(d[c]) and r.random() < 0.5 else np.append(d[c], d[c].dtype.type(0))
            return f"column {c} one entry longer than the others", d
        c = r.choice(ragged)
        off = d[c + "_offset"].astype(np.uint64)
        if kind == "offset-last":
            off = off.copy()
            off[-1] += 1
            if len(off) == 1:
                return None
            d[c + "_offset"] = off
            return f"{c}_offset ends beyond the data", d
        if kind == "offset-count":
            d[c + "_offset"] = np.append(off, off[-1])
            return f"{c}_offset has n + 2 entries", d
        if kind == "no-offset":
            if len(d[c]) == 0:
                return None
            d.pop(c + "_offset")
            return f"{c} without {c}_offset", d
        if kind == "offset-order":
            off = off.copy()
            if off[1] == off[-1] and off[1] == 0:
                return None
            j = r.randrange(1, len(off) - 1)
            off[j] = off[-1] + 1 if off[j] <= off[-1] else 0
            d[c + "_offset"] = off
            return f"{c}_offset not non-decreasing", d
        if kind == "offset-start":
            off = off.copy()
            if off[-1] == 0:
                return None
            off[0] = 1
            if len(off) > 1 and off[1] < 1:
                off[1] = 1 if off[-1] >= 1 else 0
            if np.any(np.diff(off.astype(np.int64)) < 0):
                return None
            d[c + "_offset"] = off
            return f"{c}_offset does not start at 0", d
        return None

    def op_set_columns(self, appending=False):
        r = self.rng
        switch = not appending and self.has_md and r.random() < 0.15
        if switch:
            # set_columns(metadata_schema=<text of ANOTHER schema>) replaces rows and schema in one call
            self.set_mode(r.choice([m_ for m_ in ("raw", "json", "struct") if m_ != self.mode]))
            self.ctx.feature("set_columns:other-schema")
        rows = self.new_rows()
        d = self.columns(rows)
        fn = self.t.append_columns if appending else self.t.set_columns
        if r.random() < 0.2 and not switch:
            c = self.corrupt(d, rows, appending)
            if c is not None:
                self.ctx.feature("columns:refused")
                self.expect_refused(c[0], fn, cleared_ok=not appending, **c[1])
                return
        if switch:
            d["metadata_schema"] = self.schema
        elif not appending and self.has_md and r.random() < 0.3:
            d["metadata_schema"] = r.choice([None, self.schema])
        if appending and not rows and not d:
            return
        if self.name == "populations" and not appending and "metadata" not in d:
            d = columns_from_rows(self.name, rows)
            if switch:
                d["metadata_schema"] = self.schema
        if r.random() < 0.35:
            self.ctx.feature("columns:argument-forms")
            for k in list(d):
                if k != "metadata_schema" and d[k] is not None and r.random() < 0.5:
                    d[k] = vary_array(r, d[k])
        self.must(fn, **d)
        if appending:
            self.M.extend(rows)
        else:
            self.M[:] = rows

    def op_append_columns(self):
        self.op_set_columns(appending=True)

    def op_packset(self):
        r = self.rng
        ragged = [(j, c, k) for j, (c, k) in enumerate(SPEC[self.name]) if k in ("B", "S", "Rf8", "Ri4")]
        j, col, kind = r.choice(ragged)
        n = len(self.M)
        fn = getattr(self.t, "packset_" + col)
        wrong = r.random() < 0.12
        k = n + r.choice([1, -1]) if wrong else n
        k = max(0, k)
        vals = []
        for i in range(k):
            row = self.g.row(n, api=False)[0]
            vals.append(row[j])
        if kind in ("Rf8", "Ri4"):
            arg = [np.array(v, dtype=np.float64 if kind == "Rf8" else np.int32) if r.random() < 0.5 else list(v)
                   for v in vals]
        else:
            arg = list(vals)
        if wrong and k != n:
            if self.name == "populations":
                return   # EITHER: metadata is the only column, so its offsets define the row count
            self.expect_refused(f"packset_{col} with {k} values for {n} rows", fn, arg, cleared_ok=True)
            return
        self.ctx.feature("packset_" + col)
        self.must(fn, arg)
        self.M[:] = [row[:j] + (vals[i],) + row[j + 1:] for i, row in enumerate(self.M)]

    def op_col_assign(self):
        r = self.rng
        n = len(self.M)
        spec = SPEC[self.name]
        names = [c for c, _ in spec]
        choices = []
        for j, (c, k) in enumerate(spec):
            if k in ("u4", "i4", "f8", "T"):
                choices.append(("fixed", j, c, k))
            elif k in ("Rf8", "Ri4", "S") or (k == "B" and self.mode == "raw"):
                choices.append(("repartition", j, c, k))
                choices.append(("data", j, c, k))
        if not choices:
            return
        how, j, c, k = r.choice(choices)
        t = self.t
        if how == "fixed":
            wrong = r.random() < 0.2
            m = n + r.choice([1, -1, 2]) if wrong else n
            m = max(0, m)
            vals = [self.g.row(n, api=False, wide=True)[0][j] for _ in range(m)]
            if k == "T":
                arr = np.array([tskit.UNKNOWN_TIME if v is None else v for v in vals], dtype=np.float64)
            else:
                arr = np.array(vals, dtype={"u4": np.uint32, "i4": np.int32, "f8": np.float64}[k])
            if wrong and m != n:
                self.expect_refused(f"t.{c} = array of {m} for {n} rows", setattr, t, c, arr, cleared_ok=True)
                return
            self.ctx.feature("assign:" + k)
            self.must(setattr, t, c, vary_array(r, arr) if r.random() < 0.4 else arr)
            self.M[:] = [row[:j] + (vals[i],) + row[j + 1:] for i, row in enumerate(self.M)]
            return
        flat, off = pack_ragged(k, [row[j] for row in self.M])
        total = len(flat)
        if k == "S" and how == "repartition" and np.any(flat < 0):
            return    # cutting inside a multi-byte character would make the text column undecodable
        if how == "repartition":
            cuts = sorted(r.randint(0, total) for _ in range(n - 1)) if n else []
            newoff = np.array(([0] + cuts + [total]) if n else [0], dtype=r.choice([np.uint32, np.uint64]))
            if n == 0:
                return
            if r.random() < 0.15 and total > 0:
                bad = newoff.copy()
                bad[-1] = total - 1 if r.random() < 0.5 else total + 1
                if not np.any(np.diff(bad.astype(np.int64)) < 0) or True:
                    self.expect_refused(f"t.{c}_offset ending at {bad[-1]} for {total} data items", setattr, t,
                                        c + "_offset", bad, cleared_ok=True)
                    return
            self.ctx.feature("assign:offset" + (":text" if k == "S" else ""))
            self.must(setattr, t, c + "_offset", vary_array(r, newoff) if r.random() < 0.3 else newoff)
            o = [int(x) for x in newoff]
        else:
            if total == 0:
                return
            if r.random() < 0.15:
                self.expect_refused(f"t.{c} = data of length {total + 1} (offsets end at {total})", setattr, t, c,
                                    np.concatenate([flat, flat[:1]]), cleared_ok=True)
                return
            if k == "B":
                flat = np.array([r.choice([0, 65, -1, 127, -128]) for _ in range(total)], dtype=np.int8)
            elif k == "S":
                flat = np.array([r.choice([65, 67, 71, 84, 48, 0]) for _ in range(total)], dtype=np.int8)
            elif k == "Rf8":
                flat = np.array([self.g.f() for _ in range(total)], dtype=np.float64)
            else:
                flat = np.array([self.g.ident(n, True) for _ in range(total)], dtype=np.int32)
            self.ctx.feature("assign:ragged-data" + (":text" if k == "S" else ""))
            self.must(setattr, t, c, vary_array(r, flat) if r.random() < 0.3 else flat)
            o = [int(x) for x in off]
        if k == "B":
            b = flat.tobytes()
            vals = [b[o[i]:o[i + 1]] for i in range(n)]
        elif k == "S":
            b = flat.tobytes()
            vals = [b[o[i]:o[i + 1]].decode("ascii") for i in range(n)]
        elif k == "Rf8":
            vals = [tuple(float(x) for x in flat[o[i]:o[i + 1]]) for i in range(n)]
        else:
            vals = [tuple(int(x) for x in flat[o[i]:o[i + 1]]) for i in range(n)]
        self.M[:] = [row[:j] + (vals[i],) + row[j + 1:] for i, row in enumerate(self.M)]

    def op_drop_metadata(self):
        if not self.has_md:
            return
        # under the struct schema an empty entry cannot be decoded, so the schema goes with the metadata there
        keep = self.rng.random() < 0.5 and self.mode != "struct"
        if keep:
            self.must(self.t.drop_metadata, keep_schema=True)
        elif self.rng.random() < 0.5:
            self.must(self.t.drop_metadata)
        else:
            self.must(self.t.drop_metadata, keep_schema=False)
        self.M[:] = [row[:-1] + (b"",) for row in self.M]
        if not keep:
            # rows added from now on carry raw bytes
            self.set_mode("raw")

    def op_copy(self):
        c = self.must(self.t.copy)
        if not isinstance(c, self.cls) or c is self.t:
            self.bad("result-type", f"copy() returned {type(c).__name__}")
            return
        self.verify(c, label="-copy")
        if self.rng.random() < 0.5:
            # carry on with the copy; the original is checked once more after the copy has been changed
            old, self.t = self.t, c
            self.tc = None
            snapshot = list(self.M)
            schema = self.schema
            self.op_add_row()
            self.verify(old, snapshot, schema, label="-original-after-copy-changed")
        else:
            c.clear()
            self.verify(label="-original-after-copy-cleared")

    def op_iter(self):
        n = len(self.M)
        rows = self.must(list, self.t)
        self.ctx.count("iteration")
        if len(rows) != n:
            self.bad("iteration-length", f"list(table) has {len(rows)} rows, model {n}")
            return
        idx = range(n) if n <= 60 else sorted(self.rng.sample(range(n), 60))
        for i in idx:
            msg = self.row_matches(rows[i], self.M[i])
            if msg:
                self.bad("iteration-row-differs", f"row {i} of {n}: {msg}")
                return

    def op_eq(self):
        twin = self.fresh()
        self.ctx.count("eq")
        if not (self.t == twin) or not self.t.equals(twin) or not (twin == self.t):
            self.bad("eq-false", f"table != a table set from the same {len(self.M)} rows")
        if self.M:
            rows = list(self.M)
            i = self.rng.randrange(len(rows))
            if self.name == "provenances":
                rows[i] = (rows[i][0] + "x", rows[i][1])
            elif self.jsonmode:
                rows[i] = rows[i][:-1] + (b'{"q":0}' if rows[i][-1] != b'{"q":0}' else b"{}",)
            elif self.mode == "struct":
                alt = struct_encode({"n": 7, "v": []})
                rows[i] = rows[i][:-1] + (alt if rows[i][-1] != alt else struct_encode({"n": 8, "v": [1]}),)
            else:
                rows[i] = rows[i][:-1] + (rows[i][-1] + b"\x00",)
            other = self.fresh(rows)
            if self.t == other or not (self.t != other):
                self.bad("eq-true", f"table == a table whose row {i} differs")
            # the twin differs in metadata (provenances: in a timestamp) only
            opt = {"ignore_timestamps": True} if self.name == "provenances" else {"ignore_metadata": True}
            if not self.must(self.t.equals, other, **opt) or not self.must(other.equals, self.t, **opt):
                self.bad("eq-false", f"equals(..., {opt}) is False for a table that differs in that column of row {i} only")
            if self.must(self.t.equals, other, **{k_: False for k_ in opt}):
                self.bad("eq-true", f"equals(..., {list(opt)[0]}=False) is True for a table whose row {i} differs")
            try:
                self.t.assert_equals(other)
            except AssertionError:
                pass
            except Exception as e:  # noqa: BLE001
                self.bad("assert_equals-raised-" + type(e).__name__, f"assert_equals on differing tables raised {e}")
            else:
                self.bad("eq-true", f"assert_equals did not raise for a table whose row {i} differs")
            if self.has_md and self.schema:
                # same rows, another schema text: unequal unless metadata is ignored
                bare = self.fresh(schema="")
                if self.t == bare or not self.must(self.t.equals, bare, ignore_metadata=True):
                    self.bad("eq-schema", "comparison with a table that differs in its metadata schema only: == is "
                                          f"{self.t == bare}, equals(ignore_metadata=True) is "
                                          f"{self.t.equals(bare, ignore_metadata=True)}")
        try:
            self.t.assert_equals(twin)
        except Exception as e:  # noqa: BLE001
            self.bad("eq-false", f"assert_equals raised {type(e).__name__} for a table set from the same rows: {e}")
        if self.t != twin or self.t == 5 or self.t == self.M or self.t == CLASSES[NAMES[(NAMES.index(self.name) + 1) % 8]]():
            self.bad("eq-type", "!= on an equal table, or == with an object of another type, is True")
        shorter = self.fresh(self.M[:-1]) if self.M else None
        if shorter is not None and (self.t == shorter or shorter == self.t
                                    or self.t.equals(shorter, **({"ignore_metadata": True} if self.has_md else {}))):
            self.bad("eq-true", "table == the same table without its last row")

    OPS = (
        ("add_row", 14), ("add_row_bad", 2), ("append", 5), ("getitem_int", 6), ("getitem_slice", 5),
        ("getitem_mask", 4), ("getitem_ids", 4), ("setitem", 8), ("setitem_foreign", 3), ("truncate", 4), ("keep_rows", 6), ("clear", 1),
        ("set_columns", 3), ("append_columns", 5), ("packset", 4), ("col_assign", 5), ("drop_metadata", 1),
        ("copy", 2), ("iter", 2), ("eq", 2),
        # audit widening (lib/props/c13_ext.py)
        ("same_row", 5), ("ts_row", 3), ("replace_with", 2), ("pickle", 2), ("extend_ll", 3), ("ll_row", 2),
        ("set_schema", 1), ("unpack", 2), ("tc_copy", 2), ("tc_clear", 1), ("fill_boundary", 0),
    )

    def run(self):
        r = self.rng
        nops = r.choice([10, 20, 40, 40, 80, 200])
        names = [n for n, _ in self.OPS]
        weights = [w for _, w in self.OPS]
        if self.large:
            # programs that live at the capacity boundaries: fewer, heavier operations
            nops = r.choice([8, 12, 16])
            weights = [12 if n == "fill_boundary" else 0 if n in ("clear", "tc_clear", "set_columns", "replace_with")
                       else w for n, w in self.OPS]
        self.verify()
        # start from a few rows so that every operation has something to work on
        for _ in range(r.choice([0, 1, 3, 5])):
            self.op = "add_row"
            try:
                self.op_add_row()
            except Refused:
                return
            self.ops_done.append("add_row")
        for _ in range(nops):
            op = r.choices(names, weights)[0]
            self.op = op.replace("_", "-") if op.startswith("getitem") or op.startswith("add_row_") else op
            self.ctx.count("op:" + op)
            before = len(self.ctx.violations)
            try:
                getattr(self, "op_" + op)()
            except Refused:
                return
            self.ops_done.append(op)
            if len(self.ctx.violations) > before or not self.verify():
                return   # the model and the table have diverged; later reports would only repeat this one
        self.op = "final"
        self.op_iter()


def _short(x):
    s = repr(x)
    return s if len(s) < 240 else s[:240] + "..."


def run_table(case, ctx, rng):
    h = TableHistory(case, ctx, rng)
    h.run()
    ctx.sig((case["table"], tuple(h.ops_done), cz(h.M[:50])), nontrivial=len(h.ops_done) >= 5)
    if case["k"] < 8:
        ctx.sample({"case": case, "ops": h.ops_done[:30], "final_rows": len(h.M)})


# =============================================================================================
# immutability of tree sequences
# =============================================================================================
TS_ARRAY_PROPS = [
    "individuals_flags", "nodes_time", "nodes_flags", "nodes_population", "nodes_individual",
    "edges_left", "edges_right", "edges_parent", "edges_child", "sites_position",
    "mutations_site", "mutations_node", "mutations_parent", "mutations_time",
    "migrations_left", "migrations_right", "migrations_node", "migrations_source", "migrations_dest", "migrations_time",
    "indexes_edge_insertion_order", "indexes_edge_removal_order",
]   # the *_metadata array properties need a struct schema; their bytes are in dump_tables() anyway
SKIP_NAMES = {"ll_tree_sequence", "get_ll_tree_sequence", "load", "load_tables", "check_index",
              "generate_balanced", "generate_comb", "generate_random_binary", "generate_star", "unrank",
              "tree_sequence"}


def fingerprint(ts, tables_only=False, prop=False):
    import hashlib
    h = hashlib.sha256()
    for p, dt, b in tables_bytes(ts.tables if prop else ts.dump_tables()):
        h.update(p.encode())
        h.update(dt.encode())
        h.update(b if isinstance(b, bytes) else b.encode())
    if tables_only:
        return h.hexdigest()
    for name in TS_ARRAY_PROPS:
        h.update(name.encode())
        h.update(np.asarray(getattr(ts, name)).tobytes())
    h.update(np.asarray(ts.samples()).tobytes())
    return h.hexdigest()


class Immut:
    def __init__(self, case, ctx, rng, tmp):
        self.ctx, self.rng, self.tmp = ctx, rng, tmp
        m = gen.gen_full(rng, max_nodes=9, max_bp=4, max_sites=5, migrations=True, meta=True, pops=True)
        m.provenances = [("2024-01-01T00:00:00", '{"a":1}')]
        if rng.random() < 0.4:   # uniform location lengths, so that individuals_location is defined
            m.individuals = [(f, (0.5 * j, 1.0 + j), p, md) for j, (f, _, p, md) in enumerate(m.individuals)]
        m.metadata = b"top"
        m.refseq = {"data": "ACGT", "url": "u"} if rng.random() < 0.5 else None
        if rng.random() < 0.5:
            # fixed-size struct metadata, so that the ts.<table>_metadata structured-array properties are defined
            sch = ('{"additionalProperties":false,"codec":"struct","properties":{"x":{"binaryFormat":"i","type":"integer"}},'
                   '"required":["x"],"type":"object"}')
            m.schemas["nodes"] = sch
            m.nodes = [row[:4] + ({"x": j},) for j, row in enumerate(m.nodes)]
            m.schemas["sites"] = sch
            m.sites = [row[:2] + ({"x": -j},) for j, row in enumerate(m.sites)]
            ctx.feature("ts:struct-metadata")
            if rng.random() < 0.5:
                for name in ("edges", "mutations", "populations", "migrations", "individuals"):
                    m.schemas[name] = sch
                    setattr(m, name, [row[:-1] + ({"x": 7 * j},) for j, row in enumerate(getattr(m, name))])
                ctx.feature("ts:struct-metadata-all-tables")
        self.m = m
        self.source = to_tables(m)
        if rng.random() < 0.35:
            # a "well-behaved" tree sequence (single roots, discrete genome, known mutation times, one-letter
            # alleles, JSON population metadata), so that methods which refuse the arbitrary one really run
            import msprime
            a = msprime.sim_ancestry(samples=rng.choice([2, 3, 4]), ploidy=rng.choice([1, 2]),
                                     sequence_length=rng.choice([4, 8, 10]),
                                     recombination_rate=rng.choice([0.0, 0.1, 0.3]),
                                     population_size=rng.choice([1, 5]), random_seed=rng.randrange(1, 2 ** 31))
            a = msprime.sim_mutations(a, rate=rng.choice([0.05, 0.2]), random_seed=rng.randrange(1, 2 ** 31))
            self.source = a.dump_tables()
            self.m = m = from_tables(self.source)
            ctx.feature("ts:msprime")
        self.ts = self.source.tree_sequence()
        self.other = gen_other(rng)
        self.fp = fingerprint(self.ts)
        self.deep = X.deep_state(self.ts)
        self._fp_tables = fingerprint(self.ts, tables_only=True)
        self.meddles = 0
        self.seen = 0
        self.calls = 0
        self.pending = []
        self.deep_before_write = self.deep
        self.trace = []
        ctx.sig(m.signature(), nontrivial=len(m.edges) > 0)

    def unchanged(self, what, deep=False, tables_prop=False):
        self.ctx.count("fingerprint")
        fp = fingerprint(self.ts)
        ok = True
        if tables_prop and fingerprint(self.ts, tables_only=True, prop=True) != self._fp_tables:
            # ts.tables is documented as (currently) a copy: what a caller did to an earlier result must not show
            self.ctx.violation(f"ts-tables-property-changed/{what}", f"ts.tables differs from the tables of the tree "
                                                                     f"sequence after {what}")
            ok = False
        if fp != self.fp:
            self.ctx.violation(f"ts-changed/{what}", f"tree sequence fingerprint changed after {what}; calls so far "
                                                     f"{self.trace[-5:]}", {"model": self.m.to_json()})
            self.fp = fp
            self._fp_tables = fingerprint(self.ts, tables_only=True)
            ok = False
        if deep and ok:
            # state derived from the tables (trees, sample lists, individual node lists, genotypes); never walked
            # while the tables themselves are known to have been overwritten
            self.ctx.count("deep-fingerprint")
            dp = X.deep_state(self.ts)
            self.deep_before_write = self.deep
            if dp != self.deep:
                self.ctx.violation(f"ts-derived-state-changed/{what}",
                                   f"trees / samples / individual nodes / genotypes of the tree sequence changed after "
                                   f"{what}; calls so far {self.trace[-5:]}", {"model": self.m.to_json()})
                self.deep = dp
                ok = False
        return ok

    def fp_tables(self):
        return self._fp_tables

    # ---- probing results
    def probe(self, x, what, depth=0):
        if depth > 4 or self.seen > 400:
            return
        if isinstance(x, np.ndarray):
            self.probe_array(x, what)
        elif isinstance(x, (str, bytes, int, float, bool, type(None), io.IOBase)):
            return
        elif isinstance(x, tskit.TableCollection):
            self.probe_tables(x, what)
        elif isinstance(x, tskit.TreeSequence):
            return
        elif isinstance(x, tskit.Tree):
            if depth < 2:
                self.probe_tree(x, what, depth)
        elif isinstance(x, tskit.Variant):
            self.probe_variant(x, what, depth)
        elif isinstance(x, dict):
            for k, v in list(x.items())[:20]:
                self.probe(v, what, depth + 1)
            self.meddle(x, what)
        elif isinstance(x, (tuple, list)):
            for v in x[:20]:
                self.probe(v, what, depth + 1)
            if isinstance(x, list):
                self.meddle(x, what)
        elif hasattr(x, "__dataclass_fields__"):
            for f in x.__dataclass_fields__:
                try:
                    v = getattr(x, f)
                except Exception:  # noqa: BLE001
                    continue
                self.probe(v, f"{what}.{f}", depth + 1)
            self.meddle(x, what)
        elif isinstance(x, tskit.BaseTable):
            for c in x.column_names:
                self.probe(getattr(x, c), f"{what}.{c}", depth + 1)
            self.meddle(x, what)
        elif isinstance(x, (tskit.ReferenceSequence, tskit.MetadataSchema)):
            self.meddle(x, what)
        elif isinstance(x, collections.abc.Mapping):
            # IdentitySegments and friends: the values carry the arrays
            try:
                keys = list(itertools.islice(iter(x), 8))
            except Exception:  # noqa: BLE001
                keys = []
            for k in keys:
                try:
                    self.probe(x[k], f"{what}[]", depth + 1)
                except Exception:  # noqa: BLE001
                    pass
            self.probe_properties(x, what, depth)
        elif hasattr(x, "__next__") or isinstance(x, types.GeneratorType) or (
                hasattr(x, "__iter__") and type(x).__module__.startswith("tskit")):
            try:
                for j, v in enumerate(x):
                    if j >= 12:
                        break
                    self.probe(v, what + "[]", depth + 1)
                    self.flush()     # nothing stays overwritten while the iterator advances
            except Exception:  # noqa: BLE001
                pass
            self.probe_properties(x, what, depth)
        elif type(x).__module__.startswith("tskit"):
            self.probe_properties(x, what, depth)

    def probe_properties(self, x, what, depth):
        """Objects of tskit classes without a special case (IdentitySegmentList, TopologyCounter, ...): their public
        properties may hand out arrays too."""
        if not type(x).__module__.startswith("tskit") or isinstance(x, types.GeneratorType):
            return
        for n in dir(type(x)):
            if n.startswith("_") or not isinstance(inspect.getattr_static(type(x), n, None), property):
                continue
            try:
                v = getattr(x, n)
            except Exception:  # noqa: BLE001
                continue
            self.ctx.feature(f"property-of:{type(x).__name__}")
            self.probe(v, f"{what}.{n}", depth + 1)

    def meddle(self, x, what):
        """Change a mutable object the tree sequence handed out (row object fields, lists, dicts, tables, the
        reference sequence, a schema object): the tree sequence must not notice."""
        if self.meddles >= 2:
            return
        self.flush()
        label = X.mutate_handed_out(x, self.rng)
        if label is None:
            return
        self.meddles += 1
        self.ctx.count("handed-out-mutation")
        self.ctx.feature("meddled:" + label)
        if not self.unchanged(f"mutating-{label}-from:{_generic(what)}",
                              deep=self.meddles == 1 and label in ("row-object", "list")):
            self.ctx.violation(f"handed-out-object-aliases-ts/{label}/{_generic(what)}",
                               f"changing the {label} obtained from {what} changed the tree sequence")

    def probe_array(self, a, what):
        self.seen += 1
        if a.size == 0:
            return
        if not a.flags.writeable:
            self.ctx.count("array-readonly")
            try:
                a[...] = a
            except (ValueError, TypeError):
                pass
            else:
                self.ctx.violation(f"array-readonly-but-written/{_generic(what)}", f"{what}: flags.writeable False yet assignment went through")
                return
            # numpy lets the caller switch the flag back on for arrays that own their memory (copies, Python-side
            # caches): EITHER - but a view of the tree sequence's own memory must refuse, or the tables would change
            try:
                a.setflags(write=True)
            except ValueError:
                return
            self.ctx.count("array-setflags-probe")
            if a.dtype == object or a.dtype.kind in "USV":
                a.setflags(write=False)
                return
            save = a.copy()
            try:
                a[...] = (~a if a.dtype.kind == "b" else a ^ 1 if a.dtype.kind in "iu"
                          else np.where(np.isfinite(a), a + 1.0, 0.25))
            except Exception:  # noqa: BLE001
                a.setflags(write=False)
                return
            tables_now = fingerprint(self.ts, tables_only=True)
            if tables_now != self.fp_tables():
                self.ctx.violation(f"array-aliases-ts/{_generic(what)}",
                                   f"{what} is a read-only view whose writeable flag can be switched on, and writing "
                                   f"into it changed the tables of the tree sequence")
            a[...] = save
            a.setflags(write=False)
            return
        self.ctx.count("array-writeable-probe")
        if a.dtype == object or a.dtype.kind in "USV":
            return
        save = a.copy()
        try:
            if a.dtype.kind == "b":
                a[...] = ~a
            elif a.dtype.kind in "iu":
                a[...] = a ^ 1
            else:
                a[...] = np.where(np.isfinite(a), a + 1.0, 0.25)
        except Exception:  # noqa: BLE001
            return
        # the write stays in place until flush(): one fingerprint for all arrays of a result
        self.pending.append((a, save, what))
        if len(self.pending) >= 16:
            self.flush()

    def flush(self):
        """Check the tree sequence after the pending writes into handed-out arrays, then undo them."""
        if not self.pending:
            return True
        pend, self.pending = self.pending, []
        ok = self.unchanged("write-into:" + _generic(pend[0][2]) + ("+..." if len(pend) > 1 else ""), deep=True)
        if ok:
            for a, save, _ in pend:
                a[...] = save
            return True
        # find the array(s) whose restoration changes the tree sequence back (tables first: the trees of a tree
        # sequence whose tables were overwritten are not walked)
        culprits = []
        for a, save, what in pend:
            before = fingerprint(self.ts)
            a[...] = save
            if fingerprint(self.ts) != before:
                culprits.append(what)
        if not culprits:
            # the tables never changed, so it was derived state: redo the writes one at a time
            for a, save, what in pend:
                try:
                    a[...] = (~a if a.dtype.kind == "b" else a ^ 1 if a.dtype.kind in "iu"
                              else np.where(np.isfinite(a), a + 1.0, 0.25))
                    changed = X.deep_state(self.ts) != self.deep_before_write
                except Exception:  # noqa: BLE001
                    changed = False
                a[...] = save
                if changed:
                    culprits.append(what)
        for what in culprits:
            self.ctx.violation(f"array-aliases-ts/{_generic(what)}",
                               f"{what} is writeable and writing into it changed the tree sequence")
        self.fp = fingerprint(self.ts)
        self.deep = X.deep_state(self.ts)
        return False

    def probe_tables(self, tc, what):
        self.ctx.count("tables-mutation-probe")
        for name, t in tc.table_name_map.items():
            for c in t.column_names:
                self.probe_array(getattr(t, c), f"{what}.{name}.{c}")
        try:
            tc.nodes.clear()
            tc.edges.clear()
            tc.sites.truncate(0)
            tc.provenances.add_row("x", timestamp="y")
            tc.sequence_length = tc.sequence_length + 1
            tc.time_units = "zzz"
            tc.metadata_schema = tskit.MetadataSchema(None)
            tc.reference_sequence.data = "GGGG"
            tc.drop_index()
        except Exception:  # noqa: BLE001
            pass
        self.flush()
        if not self.unchanged(f"mutating-result-of:{_generic(what)}", tables_prop=True):
            self.ctx.violation(f"tables-alias-ts/{_generic(what)}", f"mutating the tables from {what} changed the tree sequence")

    def probe_tree(self, tree, what, depth):
        self.ctx.count("tree-probe")
        names = [n for n in dir(tskit.Tree) if not n.startswith("_") and n not in SKIP_NAMES]
        for name in self.rng.sample(names, 10) + ["parent_array", "left_child_array"]:
            self.call(tree, "Tree", name, depth + 1)

    def probe_variant(self, var, what, depth):
        self.ctx.count("variant-probe")
        for name in [n for n in dir(tskit.Variant) if not n.startswith("_")]:
            self.call(var, "Variant", name, depth + 1)

    # ---- calling things
    def args_for(self, cls, name):
        ts, r = self.ts, self.rng
        L = ts.sequence_length
        samples = list(ts.samples())
        u = r.randrange(ts.num_nodes)
        v = r.randrange(ts.num_nodes)
        half = samples[: max(1, len(samples) // 2)]
        rest = samples[max(1, len(samples) // 2):] or samples[:1]
        ns = len(samples)
        if cls == "Tree":
            cat = {
                "seek": ((r.choice([0.0, L / 2, L * 0.99]),), {}), "seek_index": ((r.randrange(ts.num_trees),), {}),
                "kc_distance": None, "rf_distance": None, "map_mutations": None,
                "num_lineages": ((r.choice([0.0, 0.5, 1.0]),), {}),
                "mrca": ((u, v), {}), "tmrca": ((u, v), {}), "get_mrca": ((u, v), {}), "get_tmrca": ((u, v), {}),
                "distance_between": ((u, v), {}), "path_length": ((u, v), {}), "is_descendant": ((u, v), {}),
                "draw": ((), {"format": "unicode"}),
            }
            if name == "map_mutations":
                return (([r.choice([0, 1]) for _ in range(ns)], ["A", "T"]), {}) if ns else None
            if name in ("kc_distance", "rf_distance"):
                return ((ts.at_index(r.randrange(ts.num_trees), sample_lists=True),), {})
            if name in cat:
                return cat[name]
            return self.by_signature(tskit.Tree, name, {"u": u, "v": v, "t": 1.0})
        if cls == "Variant":
            if name == "decode":
                return ((r.randrange(ts.num_sites),), {}) if ts.num_sites else None
            return ((), {})
        W = np.ones((ns, 1))
        idx = {"node": ts.num_nodes, "edge": ts.num_edges, "site": ts.num_sites, "mutation": ts.num_mutations,
               "individual": ts.num_individuals, "population": ts.num_populations, "migration": ts.num_migrations,
               "provenance": ts.num_provenances}
        if name in idx:
            return ((r.randrange(idx[name]),), {}) if idx[name] else None
        two = (([half, rest],), {})    # (args, kwargs)
        Wv = np.arange(ns, dtype=np.float64).reshape(ns, 1)
        W2 = np.ones((ns, 2))
        zero_pos = {"allow_position_zero": True}

        def groups(k):
            return (([samples[j::k] for j in range(k)],), {}) if ns >= k else None
        cat = {
            "at": ((r.choice([0.0, L / 2, L * 0.99]),), {}), "at_index": ((r.randrange(ts.num_trees),), {}),
            "coiterate": ((self.other,), {}), "kc_distance": ((ts,), {}), "equals": ((self.other,), {}),
            "decapitate": ((r.choice([0.5, 1.0, 2.0]),), {}), "split_edges": ((r.choice([0.5, 1.0, 2.0]),), {}),
            "delete_intervals": (([[0, L / 4]],), {}), "keep_intervals": (([[L / 4, L / 2]],), {}),
            "delete_sites": ((list(range(min(1, ts.num_sites))),), {}),
            "subset": ((list(range(0, ts.num_nodes, 2)),), {}),
            "dump": ((os.path.join(self.tmp, "d.trees"),), {}),
            "write_vcf": ((io.StringIO(),), zero_pos), "as_vcf": ((), zero_pos), "write_fasta": ((io.StringIO(),), {}),
            "write_nexus": ((io.StringIO(),), {}),
            "get_population": ((u,), {}), "get_time": ((u,), {}),
            "Fst": two, "divergence": two, "f2": two, "Y2": two, "genetic_relatedness": two,
            "Y1": (([samples],), {}), "mean_descendants": two,
            "genealogical_nearest_neighbours": ((half, [half, rest]), {}),
            "trait_covariance": ((W,), {}), "trait_correlation": ((Wv,), {}), "trait_linear_model": ((Wv,), {}),
            "trait_regression": ((Wv,), {}),
            "genetic_relatedness_weighted": ((W2,), {}), "genetic_relatedness_vector": ((W,), {"mode": "branch"}),
            "general_stat": ((W, lambda x: x, 1), {"polarised": True, "strict": False}),
            "sample_count_stat": (([samples], lambda x: x, 1), {"polarised": True, "strict": False}),
            "parse_windows": (("trees",), {}), "parse_positions": (([[0.0, L / 2], [L / 4]],), {}),
            "parse_sites": (([list(range(min(2, ts.num_sites))), list(range(min(1, ts.num_sites)))],), {}),
            "pca": ((1,), {}), "pair_coalescence_quantiles": ((np.array([0.5]),), {}),
            "pair_coalescence_rates": ((np.array([0.0, np.inf]),), {}),
            "union": ((self.other, np.full(self.other.num_nodes, -1, dtype=np.int32)), {"check_shared_equality": False}),
            "Y3": groups(3), "f3": groups(3), "f4": groups(4),
            "simplify": ((), r.choice([{}, {"samples": half}, {"keep_unary": True}, {"map_nodes": True}])),
            "samples": ((), r.choice([{}, {"population": 0}, {"time": 0}])),
            "variants": ((), r.choice([{}, {"samples": half}, {"isolated_as_missing": False}, {"copy": False}])),
            "trees": ((), r.choice([{}, {"sample_lists": True}, {"tracked_samples": half}])),
            "breakpoints": ((), r.choice([{}, {"as_array": True}])),
            "haplotypes": ((), {}), "genotype_matrix": ((), {}),
            "ibd_segments": ((), r.choice([{}, {"store_pairs": True, "store_segments": True}])),
            "draw_svg": ((), {}), "draw_text": ((), {}),
            "dump_text": ((), {"nodes": io.StringIO(), "edges": io.StringIO(), "sites": io.StringIO(),
                               "mutations": io.StringIO()}),
            "diversity": ((), r.choice([{}, {"mode": "branch"}, {"windows": "trees"}, {"sample_sets": [half, rest]}])),
            "allele_frequency_spectrum": ((), r.choice([{}, {"mode": "branch", "polarised": True}])),
            "first": ((), {}), "last": ((), {}), "aslist": ((), {}),
        }
        if name in cat:
            return cat[name]
        return ((), {})

    @staticmethod
    def by_signature(klass, name, values):
        """Arguments for the required parameters of klass.name taken from `values` by parameter name."""
        try:
            sig = inspect.signature(getattr(klass, name))
        except (TypeError, ValueError):
            return None
        args = []
        for p_ in list(sig.parameters.values())[1:]:
            if p_.default is not p_.empty or p_.kind in (p_.VAR_POSITIONAL, p_.VAR_KEYWORD):
                continue
            if p_.name not in values:
                return None
            args.append(values[p_.name])
        return tuple(args), {}

    def call(self, obj, cls, name, depth=0):
        if name in SKIP_NAMES:
            return
        static = inspect.getattr_static(type(obj), name, None)
        label = f"{cls}.{name}"
        if isinstance(static, (classmethod, staticmethod)):
            return
        try:
            if isinstance(static, property):
                self.ctx.feature("read:" + label)

                def fetch():
                    return getattr(obj, name)
            else:
                a = self.args_for(cls, name)
                if a is None:
                    self.ctx.feature("skipped:" + label)
                    return
                self.ctx.feature("call:" + label)

                def fetch():
                    return getattr(obj, name)(*a[0], **a[1])
            res = fetch()
        except Exception as e:  # noqa: BLE001  the call's own success is not this property's business
            self.ctx.count("call-raised")
            self.ctx.feature("raised:" + label)
            res = None
            self.trace.append(f"{label}!{type(e).__name__}")
        else:
            self.trace.append(label)
        self.ctx.count("call")
        self.seen = 0
        self.meddles = 0
        self.calls += 1
        try:
            if cls != "Variant" and isinstance(res, np.ndarray):
                self.alias_probe(res, fetch, label)
            self.probe(res, label, depth)
        finally:
            if self.pending:
                self.flush()
            else:
                self.unchanged(label, deep=depth == 0 and self.calls % 8 == 0, tables_prop=self.calls % 16 == 0)

    def alias_probe(self, a, fetch, label):
        """A writeable array must be a copy: after writing into it, asking the object again must not show the write.
        (Variant buffers are exempt: they are the Variant's own working state, not the tree sequence's.)"""
        if not a.flags.writeable or a.size == 0 or a.dtype.kind not in "biuf":
            return
        self.ctx.count("array-alias-probe")
        save = a.copy()
        if a.dtype.kind == "b":
            a[...] = ~a
        elif a.dtype.kind in "iu":
            a[...] = a ^ 1
        else:
            a[...] = np.where(np.isfinite(a), a + 1.0, 0.25)
        try:
            again = fetch()
        except Exception:  # noqa: BLE001
            again = None
        if isinstance(again, np.ndarray) and again.shape == save.shape and again.dtype == save.dtype:
            if again.tobytes() != save.tobytes() and again.tobytes() == a.tobytes():
                self.ctx.violation(f"array-aliases-object-state/{label}",
                                   f"{label} returned a writeable array; after writing into it the same call returns "
                                   f"the written values {_short(again)} instead of {_short(save)}")
        a[...] = save

    def extra(self, name):
        """Entry points that dir() does not list: dunder methods behind pickle / copy / str / ==, attribute
        assignment, the TableCollection the tree sequence was built from, hops through handed-out tables."""
        ts, r = self.ts, self.rng
        label = "extra:" + name
        self.ctx.feature(label)
        self.ctx.count("call")
        self.meddles = -4      # a few more modification attempts than for an ordinary call
        self.seen = 0
        self.trace.append(label)
        res = None
        try:
            if name == "pickle":
                res = pickle.loads(pickle.dumps(ts, protocol=r.choice([2, 4, 5])))
                res = res.dump_tables()
            elif name == "copy":
                res = [copy.copy(ts), copy.deepcopy(ts)]
                res = res[1].dump_tables() if res[1] is not ts else None
            elif name == "text":
                res = [str(ts), repr(ts), ts._repr_html_(), ts == self.other, ts != self.other, ts == ts,
                       str(ts.first()), ts.first()._repr_html_(), hash(ts) if ts.__hash__ else None]
                res = None
            elif name == "setattr":
                # properties without a setter must refuse; whatever happens the tree sequence stays the same
                props = [n for n in dir(tskit.TreeSequence) if isinstance(inspect.getattr_static(tskit.TreeSequence, n),
                                                                           property) and not n.startswith("_")]
                for n in r.sample(props, 6) + ["tables", "sequence_length", "nodes_time", "metadata"]:
                    old = ts.__dict__.get(n, self)
                    try:
                        setattr(ts, n, r.choice([0, None, np.zeros(3), "x"]))
                    except Exception:  # noqa: BLE001
                        continue
                    self.ctx.feature("setattr-accepted:" + n)
                    # an instance attribute shadowing nothing is the caller's business; undo it
                    if old is self:
                        ts.__dict__.pop(n, None)
                    else:
                        ts.__dict__[n] = old
            elif name == "source-tables":
                # the tree sequence is a snapshot of the TableCollection it was built from
                self.ctx.count("source-tables-mutation")
                try:
                    X.mutate_source_tables(self.source)
                except Exception:  # noqa: BLE001
                    pass
            elif name == "hops":
                # arrays and rows reached through several hops
                tc = ts.tables
                t = r.choice(list(tc.table_name_map.values()))
                res = [ts.reference_sequence, t.asdict(), t[: max(1, len(t) // 2)], t.copy(), list(t)[:3], tc.indexes,
                       tc.copy(), tc.reference_sequence, tc.metadata_schema, ts.table_metadata_schemas,
                       ts.metadata_schema, ts.metadata]
                if ts.num_individuals:
                    res.append(ts.individual(r.randrange(ts.num_individuals)))
                if ts.num_sites:
                    res.append(ts.site(r.randrange(ts.num_sites)))
            elif name == "low-level":
                ll = ts.ll_tree_sequence
                res = [ll.get_samples(), ll.get_breakpoints(), ts.get_ll_tree_sequence() is ll]
            elif name == "ld":
                ld = tskit.LdCalculator(ts)
                res = [ld.r2_matrix(), ld.r2_array(0, max_sites=3), ld.r2(0, ts.num_sites - 1)]
        except Exception as e:  # noqa: BLE001
            self.ctx.count("call-raised")
            self.ctx.feature("raised:" + label)
            self.trace[-1] += "!" + type(e).__name__
            res = None
        try:
            self.probe(res, label)
        finally:
            self.flush()
            self.unchanged(label, deep=True, tables_prop=True)

    TREE_ARRAYS = ("parent_array", "left_child_array", "right_child_array", "left_sib_array", "right_sib_array",
                   "num_children_array", "edge_array")

    def run(self):
        r = self.rng
        names = [n for n in dir(tskit.TreeSequence) if not n.startswith("_") and n not in SKIP_NAMES]
        prog = r.sample(names, 20) + r.sample(TS_ARRAY_PROPS, 3) + ["tables", "dump_tables", "samples"]
        prog += ["extra:" + n for n in r.sample(["pickle", "copy", "text", "setattr", "source-tables", "hops", "hops",
                                                  "low-level", "ld"], 3)]
        r.shuffle(prog)
        for name in prog:
            if name.startswith("extra:"):
                self.extra(name[6:])
            else:
                self.call(self.ts, "TreeSequence", name)
        # a Tree and a Variant obtained from it, driven directly
        tree = self.ts.at_index(r.randrange(self.ts.num_trees), **r.choice([{}, {}, {"sample_lists": True}]))
        tnames = [n for n in dir(tskit.Tree) if not n.startswith("_") and n not in SKIP_NAMES]
        for name in r.sample(tnames, 12) + list(r.sample(self.TREE_ARRAYS, 4)) + ["preorder", "samples"]:
            self.call(tree, "Tree", name, depth=1)
        if self.ts.num_sites:
            var = tskit.Variant(self.ts)
            self.call(var, "Variant", "decode", depth=1)
            for name in ("genotypes", "alleles", "samples", "counts", "frequencies", "states", "copy", "site"):
                self.call(var, "Variant", name, depth=1)


def _generic(what):
    return what.replace("[]", "")


def gen_other(rng):
    m = gen.gen_full(rng, max_nodes=6, max_bp=2, max_sites=2)
    return to_tables(m).tree_sequence()


def run_ts(case, ctx, rng):
    tmp = tempfile.mkdtemp(prefix="verif-c13-")
    try:
        Immut(case, ctx, rng, tmp).run()
    finally:
        shutil.rmtree(tmp, ignore_errors=True)


def run_case(case, ctx):
    rng = case_rng(case)
    if case["gen"] == "table":
        run_table(case, ctx, rng)
    else:
        run_ts(case, ctx, rng)
