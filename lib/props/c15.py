"""C15 — tree ranks are a bijection; topology counts match brute-force enumeration.

Reference semantics (written from docs/topological-analysis.md and the docstrings of Tree.rank / Tree.unrank /
all_trees / all_tree_shapes / all_tree_labellings / Tree.count_topologies / TreeSequence.count_topologies):

* a topology is identified by a canonical nested tuple computed from the *edge rows* (children sorted by the
  smallest leaf label below them) — nothing of tskit.combinatorics is used for that;
* the rank of a topology is *defined by its position* in all_trees(n): shape rank = index of the run of equal
  unlabelled shapes, label rank = index inside the run.  Density, cardinalities (A000311, A000669 by an
  independent Euler transform, n!/|Aut(shape)| labellings per shape) and strict monotonicity are checked on the way;
* count_topologies: for every sub-family of the sample sets and every choice of one sample per set, restrict the
  reference forest to the chosen leaves, suppress unary nodes, relabel by position of the set index and look the
  canonical form up in the position-defined rank table.

Audit pass (lib/AUDIT-BRIEF.md; gap list in lib/props/AUDIT-C15.md): lib/props/c15_ext.py adds the families `life`
(scripted node life cycles for the incremental counter: internal with set samples below -> absent -> back as a childless
leaf / internal / root, gaps, moves, breakpoints that leave the set samples alone, delete_intervals / keep_intervals /
decapitate output), `bigcount` (>= 256 children, depth 300-600, 120-250 trees, 40 x 40 sets, k = 5; chosen by case
index) and `rforms` (argument forms of unrank / all_trees / all_tree_shapes / all_tree_labellings, the Rank named tuple,
rank() on trees obtained in eleven ways, leaf ids that are not 0..n-1), a `wide` mode of `big` (root with 255-400
children) and, on the `count` / `cnt_ms` inputs, the other spellings of sample_sets, of the TopologyCounter key, of the
way a Tree is obtained and of the way the incremental generator is consumed (list / zip with trees() / results doctored
between next() calls / two generators interleaved), plus node ids that do not exist (negative aliases of real samples).

EITHER zones (docs silent, accepted both ways, never asserted):
* the order in which all_tree_shapes yields shapes and the labelling it picks;
* rank() on trees with unary nodes or non-sample leaves, unrank() with n = 0 or non-integer ranks;
* count_topologies with an internal sample that is *not* in any sample set, with overlapping sets; WHICH exception an
  out-of-range / negative node id raises (that it is refused is documented and asserted, see c15_ext.check_invalid_ids);
* combinations whose chosen samples sit under different roots have no embedded topology (not counted) — that is
  what "reducing the tree to those samples" gives and the real code agrees on the unchanged tree.
"""
import collections
import itertools
import math

import tskit

from lib import gen
from lib.harness import case_rng
from lib.model import NODE_IS_SAMPLE, NULL, RowModel, sort_edges_key
from lib.props import c15_ext
from lib.tsk import to_ts

ID = "C15"

A000311 = {1: 1, 2: 1, 3: 4, 4: 26, 5: 236, 6: 2752, 7: 39208, 8: 660032}
A000669 = {1: 1, 2: 1, 3: 2, 4: 5, 5: 12, 6: 33, 7: 90, 8: 261}



# ------------------------------------------------------------------------------------------- reference


_shapes_cache = {1: 1}


def ref_num_shapes(n):
    """Number of series-reduced rooted tree shapes with n unlabelled leaves: multisets (size >= 2) of smaller
    shapes whose leaf counts sum to n.  m(n) = [x^n] prod_{k<n} (1-x^k)^(-a(k)), by the Euler-transform recurrence
    j * e(j) = sum_i c(i) e(j-i), c(i) = sum_{d | i, d < n} d a(d)."""
    if n in _shapes_cache:
        return _shapes_cache[n]
    a = [0] + [ref_num_shapes(k) for k in range(1, n)]
    c = [0] * (n + 1)
    for d in range(1, n):
        for i in range(d, n + 1, d):
            c[i] += d * a[d]
    e = [1] + [0] * n
    for j in range(1, n + 1):
        tot = sum(c[i] * e[j - i] for i in range(1, j + 1))
        assert tot % j == 0
        e[j] = tot // j
    _shapes_cache[n] = e[n]
    return e[n]


def forest_of(ts, x):
    """({child: parent}, {parent: [children]}) from the raw edge columns for position x."""
    par = {}
    kids = {}
    L, R, P, C = ts.edges_left, ts.edges_right, ts.edges_parent, ts.edges_child
    for j in range(len(L)):
        if L[j] <= x < R[j]:
            c, p = int(C[j]), int(P[j])
            par[c] = p
            kids.setdefault(p, []).append(c)
    return par, kids


def canon(kids, u, lab=None):
    """(min label, (child forms sorted by their min label)); a leaf is (label, ())."""
    ch = kids.get(u)
    if not ch:
        return ((u if lab is None else lab[u]), ())
    forms = sorted((canon(kids, c, lab) for c in ch), key=lambda f: f[0])
    return (forms[0][0], tuple(forms))


def restrict(kids, u, lab):
    """Canonical form of the subtree below u reduced to the leaves in `lab` (relabelled through it), unary nodes
    suppressed; None when no chosen leaf is below u."""
    if u in lab:
        return (lab[u], ())
    forms = []
    for c in kids.get(u, ()):
        f = restrict(kids, c, lab)
        if f is not None:
            forms.append(f)
    if not forms:
        return None
    if len(forms) == 1:
        return forms[0]
    forms.sort(key=lambda f: f[0])
    return (forms[0][0], tuple(forms))


def shape_of(form):
    return tuple(sorted(shape_of(c) for c in form[1]))


def aut(shape):
    a = 1
    for s, m in collections.Counter(shape).items():
        a *= math.factorial(m) * aut(s) ** m
    return a


def leaves_of(form):
    if not form[1]:
        return [form[0]]
    out = []
    for c in form[1]:
        out += leaves_of(c)
    return out


def has_unary(form):
    if not form[1]:
        return False
    return len(form[1]) == 1 or any(has_unary(c) for c in form[1])


def fmt(form):
    if not form[1]:
        return str(form[0])
    return "(" + ",".join(fmt(c) for c in form[1]) + ")"


def tree_form(ctx, t, n, span=1, branch_length=1, what="unrank"):
    """Structure checks documented for trees returned by unrank/all_trees; returns the canonical form or None."""
    ts = t.tree_sequence
    bad = []
    if ts.num_trees != 1 or ts.sequence_length != span or tuple(t.interval) != (0, span):
        bad.append(f"num_trees={ts.num_trees} sequence_length={ts.sequence_length} interval={tuple(t.interval)} "
                   f"expected one tree over [0,{span})")
    if [int(u) for u in ts.samples()] != list(range(n)):
        bad.append(f"samples {list(ts.samples())} expected 0..{n - 1}")
    par, kids = forest_of(ts, 0)
    if any(not (l == 0 and r == span) for l, r in zip(ts.edges_left, ts.edges_right)):
        bad.append("an edge does not span the whole tree")
    roots = [u for u in range(ts.num_nodes) if u not in par]
    if len(roots) != 1:
        bad.append(f"{len(roots)} parentless nodes {roots[:5]} (junk nodes or several roots)")
    form = None
    if not bad:
        form = canon(kids, roots[0])
        lv = sorted(leaves_of(form))
        if lv != list(range(n)):
            bad.append(f"leaf set {lv} expected 0..{n - 1}")
        if has_unary(form):
            bad.append("unary node present")
        times = ts.nodes_time
        for u in range(ts.num_nodes):
            if u in kids:
                exp = max(times[c] for c in kids[u]) + branch_length
                if times[u] != exp:
                    bad.append(f"time of internal node {u} is {times[u]}, expected max child time + "
                               f"{branch_length} = {exp}")
                    break
            elif times[u] != 0:
                bad.append(f"leaf {u} has time {times[u]}")
                break
        # the Tree object itself must agree with its own edge rows (cheap spot check)
        if int(t.root) != roots[0] or any(int(t.parent(c)) != p for c, p in par.items()):
            bad.append("Tree.parent/root disagree with the edge rows")
    if bad:
        ctx.violation(f"{what}/malformed-tree", f"{what} n={n}: " + "; ".join(bad[:3]))
        return None
    return form


def expect_out_of_range(ctx, n, rank, why):
    """Tree.unrank documents ValueError for ranks out of bounds."""
    ctx.count("out-of-range-probe")
    try:
        t = tskit.Tree.unrank(n, rank)
    except ValueError:
        return True
    except Exception as e:  # documented exception type is ValueError
        ctx.violation("unrank/out-of-range-wrong-exception",
                      f"Tree.unrank({n}, {rank}) [{why}] raised {type(e).__name__}: {e}; documented: ValueError")
        return False
    try:
        got = tuple(t.rank())
    except Exception as e:
        got = f"<rank() raised {type(e).__name__}>"
    ctx.violation("unrank/out-of-range-accepted",
                  f"Tree.unrank({n}, {rank}) [{why}] returned a tree (its rank() = {got}) instead of raising "
                  f"ValueError")
    return False


_tables = {}


def rank_table(n):
    """canonical form -> (shape index, label index) by position in all_trees(n); None if the enumeration is not
    usable (reported by the walk cases)."""
    if n in _tables:
        return _tables[n]
    tab = {}
    s, l, cur = -1, 0, None
    for t in tskit.all_trees(n):
        _, kids = forest_of(t.tree_sequence, 0)
        ts = t.tree_sequence
        par = set(int(c) for c in ts.edges_child)
        roots = [u for u in range(ts.num_nodes) if u not in par]
        f = canon(kids, roots[0])
        sh = shape_of(f)
        if sh != cur:
            s, l, cur = s + 1, 0, sh
        tab[f] = (s, l)
        l += 1
    _tables[n] = tab
    return tab


# ------------------------------------------------------------------------------------------- cases


# one cycle of the random families; `life`, `rforms` (and `bigcount`, chosen by case index) are in lib/props/c15_ext.py
CYCLE = ("big", "inv", "tab", "count", "life", "cnt_ms", "count", "life", "rforms")
BIGCOUNT_MODES = ("wide", "deep", "manytrees", "bigsets")


def cases(tier, seed):
    nmax = 6 if tier == "quick" else 7
    yield {"gen": "tiny"}
    for n in range(1, nmax + 1):
        for s in range(A000669[n]):
            yield {"gen": "shape", "n": n, "s": s}
    nrand = {"quick": 3600, "thorough": 135000}[tier]
    for k in range(nrand):
        g = CYCLE[k % 9]
        c = {"gen": g, "k": k}
        # structurally extreme instances are chosen by the CASE INDEX (never left to chance): each bigcount mode once
        # within the first 36 random cases, then one every 360; a >= 255-children topology for rank/unrank every 450
        if k % 9 == 4 and (k < 36 or k % 360 == 4):
            c = {"gen": "bigcount", "k": k, "mode": BIGCOUNT_MODES[(k // 9 if k < 36 else k // 360) % 4]}
        elif g == "big" and (k // 9) % 50 == 1:
            c["mode"] = "wide"
        yield c
        if k == 40:
            # the long sequential walks are started early enough to finish inside the budget
            for n in range(1, nmax + 1):
                yield {"gen": "walk", "n": n}


def run_case(case, ctx):
    g = case["gen"]
    ctx.feature("gen:" + g)
    {"tiny": run_tiny, "walk": run_walk, "shape": run_shape, "big": run_big, "inv": run_inv,
     "tab": run_tab, "count": run_count, "cnt_ms": run_count, "life": c15_ext.run_life,
     "bigcount": c15_ext.run_bigcount, "rforms": c15_ext.run_rforms}[g](case, ctx)


def run_tiny(case, ctx):
    ctx.sig(("tiny",), nontrivial=True)
    for n, ok in ((1, [(0, 0)]), (2, [(0, 0)]), (3, [(0, 0), (1, 0), (1, 1), (1, 2)])):
        for r in ok:
            t = tskit.Tree.unrank(n, r)
            tree_form(ctx, t, n)
            ctx.count("unrank-rank-roundtrip")
            if tuple(t.rank()) != r:
                ctx.violation("rank/roundtrip", f"Tree.unrank({n}, {r}).rank() = {tuple(t.rank())}")
    # docs: the four 3-leaf ranks are (0,0) star, then (1,0),(1,1),(1,2)
    got = [tuple(t.rank()) for t in tskit.all_trees(3)]
    if got != [(0, 0), (1, 0), (1, 1), (1, 2)]:
        ctx.violation("all_trees/order", f"ranks of all_trees(3) = {got}")
    for n in (1, 2, 3):
        S = A000669[n]
        for s in (S, S + 1, S + 4, 5, 10 ** 20):
            if s >= S:
                expect_out_of_range(ctx, n, (s, 0), f"shape rank >= number of shapes ({S}) for n={n}")
        for l in (1, 2, 5, 10 ** 20):
            if n < 3:
                expect_out_of_range(ctx, n, (0, l), f"label rank >= number of labellings (1) for n={n}")
        expect_out_of_range(ctx, n, (-1, 0), "negative shape rank")
        expect_out_of_range(ctx, n, (0, -1), "negative label rank")
        expect_out_of_range(ctx, n, (S, 1), "both out of range")
    expect_out_of_range(ctx, 3, (0, 1), "star has one labelling")
    expect_out_of_range(ctx, 3, (1, 3), "cherry shape has three labellings")


def run_walk(case, ctx):
    n = case["n"]
    rng = case_rng(case)
    span = rng.choice([1, 1, 2.5, 8])
    ctx.sig(("walk", n), nontrivial=n >= 3)
    prev = None
    seen = {}
    groups = []  # [shape, count]
    for idx, t in enumerate(tskit.all_trees(n, span=span) if span != 1 else tskit.all_trees(n)):
        f = tree_form(ctx, t, n, span=span, what="all_trees")
        if f is None:
            return
        r = tuple(t.rank())
        ctx.count("all_trees-order")
        if prev is not None and not prev < r:
            ctx.violation("all_trees/not-increasing",
                          f"all_trees({n}) item {idx}: rank {r} follows {prev} (not strictly increasing)")
        prev = r
        if f in seen:
            ctx.violation("all_trees/duplicate-topology",
                          f"all_trees({n}) items {seen[f]} and {idx} are both {fmt(f)}")
        seen[f] = idx
        sh = shape_of(f)
        if not groups or groups[-1][0] != sh:
            if any(g[0] == sh for g in groups):
                ctx.violation("all_trees/shape-run-split", f"all_trees({n}): shape of item {idx} reappears")
            groups.append([sh, 0])
        pos = (len(groups) - 1, groups[-1][1])
        groups[-1][1] += 1
        if r != pos:
            ctx.violation("rank/not-position",
                          f"all_trees({n}) item {idx} = {fmt(f)} has rank() {r} but is labelling {pos[1]} of "
                          f"shape {pos[0]} in the enumeration")
    total = sum(g[1] for g in groups)
    ctx.count("cardinality")
    if total != A000311[n] or len(groups) != A000669[n] or len(groups) != ref_num_shapes(n):
        ctx.violation("all_trees/cardinality",
                      f"all_trees({n}) yielded {total} trees in {len(groups)} shapes; expected "
                      f"{A000311[n]} trees (A000311), {A000669[n]} shapes (A000669)")
    for s, (sh, cnt) in enumerate(groups):
        ctx.count("labellings-per-shape")
        exp = math.factorial(n) // aut(sh)
        if cnt != exp:
            ctx.violation("all_trees/labellings-per-shape",
                          f"all_trees({n}): shape {s} has {cnt} labellings, n!/|Aut| = {exp}")
    # all_tree_shapes: the same set of shapes, each once
    sh_seen = {}
    for idx, t in enumerate(tskit.all_tree_shapes(n, span=span)):
        f = tree_form(ctx, t, n, span=span, what="all_tree_shapes")
        if f is None:
            return
        sh = shape_of(f)
        ctx.count("all_tree_shapes")
        if sh in sh_seen:
            ctx.violation("all_tree_shapes/duplicate", f"all_tree_shapes({n}) items {sh_seen[sh]} and {idx} equal")
        sh_seen[sh] = idx
        r = tuple(t.rank())
        want = [i for i, g in enumerate(groups) if g[0] == sh]
        if not want or r[0] != want[0]:
            ctx.violation("all_tree_shapes/rank", f"all_tree_shapes({n}) item {idx} has rank {r}, its shape is "
                                                   f"shape {want} of all_trees")
    if set(sh_seen) != {g[0] for g in groups}:
        ctx.violation("all_tree_shapes/cardinality",
                      f"all_tree_shapes({n}) yielded {len(sh_seen)} shapes, all_trees has {len(groups)}")


def run_shape(case, ctx):
    n, s = case["n"], case["s"]
    rng = case_rng(case)
    ctx.sig(("shape", n, s), nontrivial=n >= 3)
    S = A000669[n]
    try:
        t0 = tskit.Tree.unrank(n, (s, 0))
    except Exception as e:
        ctx.violation("unrank/valid-rank-rejected", f"Tree.unrank({n}, ({s}, 0)) raised {type(e).__name__}: {e}")
        return
    f0 = tree_form(ctx, t0, n)
    if f0 is None:
        return
    sh = shape_of(f0)
    L = math.factorial(n) // aut(sh)
    forms = []
    seen = {}
    for l in range(L):
        kw = {}
        if l % 7 == 3:
            kw = {"span": rng.choice([2, 0.5, 100]), "branch_length": rng.choice([2, 0.25, 3])}
        try:
            t = tskit.Tree.unrank(n, (s, l), **kw)
        except Exception as e:
            ctx.violation("unrank/valid-rank-rejected",
                          f"Tree.unrank({n}, ({s}, {l})) raised {type(e).__name__}: {e}; shape has n!/|Aut| = {L} "
                          f"labellings")
            return
        f = tree_form(ctx, t, n, **kw)
        if f is None:
            return
        forms.append(f)
        ctx.count("unrank-rank-roundtrip")
        r = tuple(t.rank())
        if r != (s, l):
            ctx.violation("rank/roundtrip", f"Tree.unrank({n}, ({s}, {l})) = {fmt(f)} has rank() {r}")
        if shape_of(f) != sh:
            ctx.violation("unrank/shape-depends-on-label",
                          f"Tree.unrank({n}, ({s}, {l})) = {fmt(f)} has a different shape from label rank 0 "
                          f"{fmt(f0)}")
        if f in seen:
            ctx.violation("unrank/not-injective",
                          f"Tree.unrank({n}, ({s}, {seen[f]})) and ({s}, {l}) are both {fmt(f)}")
        seen[f] = l
    ctx.count("labellings-per-shape")
    for why, r in (("label rank == number of labellings", (s, L)), ("label rank == L+1", (s, L + 1)),
                   ("huge label rank", (s, L * 1000003 + 17)), ("negative label rank", (s, -1)),
                   ("negative shape rank", (-1, 0)), ("shape rank == number of shapes", (S, 0)),
                   ("shape rank > number of shapes", (S + 1 + rng.randrange(50), 0)),
                   ("huge shape rank", (10 ** 30 + s, 0)), ("both out of range", (S, L)),
                   ("negative both", (-1 - s, -1))):
        expect_out_of_range(ctx, n, r, f"{why}; n={n} has {S} shapes, shape {s} has {L} labellings")
    # all_tree_labellings from an arbitrary member of the shape, rebuilt with other ids/times
    src = tskit.Tree.unrank(n, (s, rng.randrange(L)))
    if rng.random() < 0.5 and n >= 2:
        par, _ = forest_of(src.tree_sequence, 0)
        src = rebuild(rng, [(par, n)], n)[0].first()
    span = rng.choice([1, 1, 3])
    it = tskit.all_tree_labellings(src, span=span) if span != 1 else tskit.all_tree_labellings(src)
    got = []
    prev = None
    for idx, t in enumerate(it):
        f = tree_form(ctx, t, n, span=span, what="all_tree_labellings")
        if f is None:
            return
        got.append(f)
        r = tuple(t.rank())
        ctx.count("all_tree_labellings")
        if r[0] != s or (prev is not None and not prev < r):
            ctx.violation("all_tree_labellings/order",
                          f"all_tree_labellings(shape {s} of n={n}) item {idx} has rank {r} after {prev}")
        prev = r
        if idx > L + 2:
            break
    if sorted(got) != sorted(forms) or len(set(got)) != len(got):
        ctx.violation("all_tree_labellings/set",
                      f"all_tree_labellings(shape {s} of n={n}) yields {len(got)} trees ({len(set(got))} distinct); "
                      f"the shape has {L} labellings; missing e.g. "
                      f"{[fmt(f) for f in forms if f not in set(got)][:3]}")


def run_big(case, ctx):
    """Big-integer ranks.  tskit's unrank costs (sum over non-root subtrees of their shape rank) loop iterations
    (Combination.with_replacement_unrank), so inputs are drawn from regimes where that sum is bounded: uniform
    ranks for n <= 15/16, low shape ranks or root-capped random topologies (subtrees <= 12/13 leaves, n <= 28/32)."""
    rng = case_rng(case)
    tier = case["tier"]
    mode = case.get("mode") or rng.choice(["uniform", "uniform", "low", "topo", "topo", "groups", "groups",
                                          "biggroups"])
    umax = 15 if tier == "quick" else 16
    cap = 12 if tier == "quick" else 13
    ctx.feature("big:" + mode)
    f_src = None
    if mode == "uniform":
        n = rng.randint(8, umax)
        S = ref_num_shapes(n)
        s = rng.choice([rng.randrange(S)] * 6 + [0, S - 1, rng.randrange(min(S, 50)),
                                                 S - 1 - rng.randrange(min(S, 50))])
    elif mode == "low":
        n = rng.randint(umax + 1, 60)
        S = ref_num_shapes(n)
        s = rng.randrange(min(S, 3000))
    else:
        # rank()/unrank() also walk the partitions of n up to the tree's own one: p(32) = 8 349, p(60) = 966 467
        if mode == "groups":
            par, n = grouped_topology(rng)
        elif mode == "biggroups":
            par, n = big_grouped_topology(rng)
            ctx.feature(f"biggroups:labellings-2^{(math.factorial(n) // aut(shape_of(canon(_kids_of(par), _root_of(par))))).bit_length() - 1}")
        elif mode == "wide":
            # a root with 255-400 children (leaves + a few cherries / 3-stars): case index, see cases()
            par, n = c15_ext.wide_topology(rng)
            ctx.feature(f"wide:root-children={len(_kids_of(par)[_root_of(par)])}")
        else:
            n = rng.randint(umax + 1, 28 if tier == "quick" else 32)
            par = random_topology(rng, n, n, cap=cap)
        # the number of shapes is not needed (and costly) for the wide instances: no upper bound asserted there
        S = ref_num_shapes(n) if mode != "wide" else float("inf")
        ts, m = rebuild(rng, [(par, n)], n)
        _, kids = forest_of(ts, 0)
        root = [u for u in kids if u not in forest_of(ts, 0)[0]][0]
        f_src = canon(kids, root)
        ctx.count("rank-of-random-topology")
        try:
            r = tuple(ts.first().rank())
        except Exception as e:
            ctx.violation("rank/raises-on-valid-tree", f"rank() raised {type(e).__name__}: {e} on {fmt(f_src)}",
                          {"model": m.to_json()})
            return
        Lsrc = math.factorial(n) // aut(shape_of(f_src))
        if not (0 <= r[0] < S and 0 <= r[1] < Lsrc):
            ctx.violation("rank/out-of-range",
                          f"rank() = {r} for {fmt(f_src)}: n={n} has {S} shapes and this shape n!/|Aut| = {Lsrc} "
                          f"labellings", {"model": m.to_json()})
            return
        s = r[0]
    ctx.feature(f"n:{n // 10 * 10}-{n // 10 * 10 + 9}")
    ctx.sig(("big", n, s, mode), nontrivial=True)
    try:
        t0 = tskit.Tree.unrank(n, (s, 0))
    except Exception as e:
        ctx.violation("unrank/valid-rank-rejected",
                      f"Tree.unrank({n}, ({s}, 0)) raised {type(e).__name__}: {e}; n={n} has {S} shapes")
        return
    f0 = tree_form(ctx, t0, n)
    if f0 is None:
        return
    sh = shape_of(f0)
    L = math.factorial(n) // aut(sh)
    ls = {0, L - 1, rng.randrange(L), rng.randrange(L), rng.randrange(min(L, 100))}
    if f_src is not None:
        ls = {r[1], rng.choice([L - 1, rng.randrange(L)])}
        if shape_of(f_src) != sh:
            ctx.violation("unrank/roundtrip", f"Tree.unrank({n}, ({s}, 0)) has another shape than {fmt(f_src)} "
                                              f"whose rank() is {r}")
    seen = {}
    for l in sorted(ls):
        kw = {"span": 4, "branch_length": 0.5} if l % 3 == 1 else {}
        try:
            t = tskit.Tree.unrank(n, (s, l), **kw)
        except Exception as e:
            ctx.violation("unrank/valid-rank-rejected",
                          f"Tree.unrank({n}, ({s}, {l})) raised {type(e).__name__}: {e}; n!/|Aut| = {L}")
            continue
        f = tree_form(ctx, t, n, **kw)
        if f is None:
            continue
        ctx.count("unrank-rank-roundtrip")
        ctx.count("unrank-rank-roundtrip:big")
        rr = tuple(t.rank())
        if rr != (s, l):
            ctx.violation("rank/roundtrip", f"Tree.unrank({n}, ({s}, {l})).rank() = {rr}; tree {fmt(f)}")
        if shape_of(f) != sh:
            ctx.violation("unrank/shape-depends-on-label",
                          f"Tree.unrank({n}, ({s}, {l})) has a different shape from label rank 0")
        if f in seen:
            ctx.violation("unrank/not-injective", f"Tree.unrank({n}, ({s}, {seen[f]})) == Tree.unrank({n}, ({s}, {l}))")
        seen[f] = l
        if f_src is not None and l == r[1] and f != f_src:
            ctx.violation("unrank/roundtrip", f"Tree.unrank({n}, {r}) = {fmt(f)} but rank() of {fmt(f_src)} is {r}")
    for why, q in (("label rank == number of labellings", (s, L)),
                   ("label rank beyond", (s, L + rng.randrange(10 ** 6))),
                   ("negative label", (s, -1 - rng.randrange(5))), ("negative shape", (-1, rng.randrange(L)))):
        expect_out_of_range(ctx, n, q, f"{why}; shape {s} of n={n} has n!/|Aut| = {L} labellings")
    if n <= 24:
        for why, q in (("shape rank == number of shapes", (S, 0)),
                       ("shape rank beyond", (S + rng.randrange(10 ** 6), 0))):
            expect_out_of_range(ctx, n, q, f"{why}; n={n} has {S} shapes")
    if mode == "uniform":
        # a different shape rank gives a different shape
        s2 = rng.randrange(S)
        if s2 != s:
            t2 = tskit.Tree.unrank(n, (s2, 0))
            f2 = tree_form(ctx, t2, n)
            ctx.count("shape-injective")
            if f2 is not None and shape_of(f2) == sh:
                ctx.violation("unrank/shape-not-injective", f"shape ranks {s} and {s2} of n={n} give the same shape")


# ------------------------------------------------------------------------------------------- rebuilding


def rebuild(rng, trees, n, junk=None, unsquashed=False):
    """Tree sequence holding the given topologies ({child: parent} over leaves 0..n-1, internal ids arbitrary) on
    consecutive intervals, with fresh internal ids (random order, optionally interleaved with isolated non-sample
    junk nodes), random leaf times and strictly increasing random dyadic internal times.  Returns (ts, model)."""
    junk = rng.choice([0, 0, 1, 3]) if junk is None else junk
    internals = []
    for ti, (par, _) in enumerate(trees):
        for p in sorted(set(par.values())):
            internals.append((ti, p))
    slots = internals + [None] * junk
    rng.shuffle(slots)
    newid = {}
    for k, sl in enumerate(slots):
        if sl is not None:
            newid[sl] = n + k
    num_nodes = n + len(slots)
    leaf_mode = rng.choice(["zero", "zero", "neg", "mixed"])
    times = [0.0] * num_nodes
    for u in range(n):
        times[u] = {"zero": 0.0, "neg": -4.0, "mixed": rng.choice([0.0, -1.5, 0.25, 0.0])}[leaf_mode]
    scale = rng.choice([1.0, 0.125, 1024.0, 3.0])
    bounds = [0.0]
    for _ in trees:
        bounds.append(bounds[-1] + rng.choice([1.0, 0.5, 3.0]))
    m = RowModel(bounds[-1])
    edges = []
    for ti, (par, _) in enumerate(trees):
        kids = {}
        for c, p in par.items():
            kids.setdefault(p, []).append(c)

        def nid(u, ti=ti):
            return u if u < n else newid[(ti, u)]

        def settime(u, kids=kids, nid=nid):
            if u not in kids:
                return times[nid(u)]
            t = max(settime(c) for c in kids[u]) + rng.randint(1, 8) * scale
            times[nid(u)] = t
            return t

        roots = [p for p in kids if p not in par]
        for r in roots:
            settime(r)
        l, r_ = bounds[ti], bounds[ti + 1]
        for c, p in par.items():
            if unsquashed and r_ - l >= 1.0 and rng.random() < 0.3:
                mid = (l + r_) / 2
                edges.append((l, mid, nid(p), nid(c), b""))
                edges.append((mid, r_, nid(p), nid(c), b""))
            else:
                edges.append((l, r_, nid(p), nid(c), b""))
    m.nodes = [(NODE_IS_SAMPLE if u < n else 0, times[u], NULL, NULL, b"") for u in range(num_nodes)]
    m.edges = sorted(edges, key=sort_edges_key(m))
    return to_ts(m), m


def _kids_of(par):
    kids = {}
    for c, p in par.items():
        kids.setdefault(p, []).append(c)
    return kids


def _root_of(par):
    return [p for p in set(par.values()) if p not in par][0]


# (number of sibling subtrees, leaves in each): the number of ways to deal the labels over the group,
# (m k)! / (k!^m m!), lies around and beyond 2^53 / 2^63 / 2^64 while every single binomial factor stays small
BIG_GROUPS = [(8, 4), (11, 3), (5, 7), (4, 10), (3, 16), (18, 2), (6, 6), (7, 5), (9, 4), (12, 3), (20, 2),
              (7, 4), (16, 2), (17, 2), (10, 3), (6, 5), (5, 6), (4, 8), (3, 12)]


def big_grouped_topology(rng):
    """A root whose children are m >= 3 stars (cherries for k = 2) of k leaves each (+ 0-2 extra leaves): child
    shape ranks stay tiny, so tskit's unrank terminates, while the label counts need exact big-integer arithmetic."""
    m_, k = rng.choice(BIG_GROUPS)
    extra = rng.choice([0, 0, 0, 1, 2])
    n = m_ * k + extra
    labels = list(range(n))
    rng.shuffle(labels)
    par = {}
    root = n
    for j in range(m_):
        for x in labels[j * k:(j + 1) * k]:
            par[x] = n + 1 + j
        par[n + 1 + j] = root
    for x in labels[m_ * k:]:
        par[x] = root
    return par, n


def grouped_topology(rng):
    """A root with 4-5 sibling subtrees of IDENTICAL shape (cherries, 3-stars, 3-combs), optionally next to
    extra leaves, with a random leaf labelling: the same-shape sibling groups are
    where the label rank needs its multinomial bookkeeping (n = 8..24)."""
    shape = rng.choice(["cherry", "cherry", "cherry", "star3", "comb3"])
    k = {"cherry": 2, "star3": 3, "comb3": 3}[shape]
    g = rng.randint(4, 5) if k == 2 else 4
    extra = rng.choice([0, 0, 1, 2]) if g * k <= 10 else 0
    n = g * k + extra      # 8..12: tskit's unrank is linear in the shape rank of every subtree, so keep them tiny
    labels = list(range(n))
    rng.shuffle(labels)
    nxt = [n]
    par = {}

    def node():
        nxt[0] += 1
        return nxt[0] - 1

    def sub(ls):
        me = node()
        if shape in ("cherry", "star3"):
            for x in ls:
                par[x] = me
        elif shape == "comb3":
            inner = node()
            par[ls[0]] = me
            par[inner] = me
            par[ls[1]] = inner
            par[ls[2]] = inner
        else:
            a, b = node(), node()
            par[a] = me
            par[b] = me
            par[ls[0]] = a
            par[ls[1]] = a
            par[ls[2]] = b
            par[ls[3]] = b
        return me

    group_parent = node()
    for j in range(g):
        par[sub(labels[j * k:(j + 1) * k])] = group_parent
    for x in labels[g * k:]:
        par[x] = group_parent
    return par, n


def random_topology(rng, n, first_internal, cap=None):
    """Random rooted tree on leaves 0..n-1 with polytomies, no unary nodes: {child: parent}.  With `cap`, every
    subtree below the root has at most `cap` leaves (bounds the cost of tskit's unrank, see META ASSUMPTIONS)."""
    nxt = [first_internal]
    par = {}

    def build(labels, top=False):
        if len(labels) == 1:
            return labels[0]
        rng.shuffle(labels)
        if top and cap is not None and len(labels) > cap:
            parts, i = [], 0
            while i < len(labels):
                k = rng.randint(1, cap)
                parts.append(labels[i:i + k])
                i += k
        else:
            k = rng.choice([2, 2, 2, 3, 4, len(labels)])
            k = max(2, min(k, len(labels)))
            cuts = sorted(rng.sample(range(1, len(labels)), k - 1))
            parts = [labels[i:j] for i, j in zip([0] + cuts, cuts + [len(labels)])]
        me = nxt[0]
        nxt[0] += 1
        for part in parts:
            par[build(part)] = me
        return me

    build(list(range(n)), top=True)
    return par


def run_inv(case, ctx):
    """rank() is a function of the leaf-labelled topology only."""
    rng = case_rng(case)
    n = rng.choice([2, 3, 4, 5, 6, 7, 8, 9, 10, 12, 14])
    S = ref_num_shapes(n)
    ntrees = rng.choice([1, 1, 2, 3])
    want, tops = [], []
    for _ in range(ntrees):
        s = rng.randrange(S)
        t0 = tskit.Tree.unrank(n, (s, 0))
        f0 = tree_form(ctx, t0, n)
        if f0 is None:
            return
        L = math.factorial(n) // aut(shape_of(f0))
        l = rng.randrange(L)
        t = tskit.Tree.unrank(n, (s, l))
        par, _ = forest_of(t.tree_sequence, 0)
        want.append((s, l))
        tops.append((par, n))
    ctx.sig(("inv", n, tuple(want)), nontrivial=n >= 3)
    ts, m = rebuild(rng, tops, n, unsquashed=rng.random() < 0.3)
    ctx.feature(f"inv:trees={ntrees}")
    bps = m.breakpoints()
    if ts.num_trees != len(bps) - 1:
        ctx.violation("rebuild/num_trees", f"rebuilt ts has {ts.num_trees} trees, expected {len(bps) - 1}",
                      {"model": m.to_json()})
        return
    # original interval of each tree (unsquashed edges add breakpoints inside an interval)
    own = []
    seen_tops = []
    for j in range(len(bps) - 1):
        x = (bps[j] + bps[j + 1]) / 2
        fr = m.forest_at(x)
        if fr not in seen_tops:
            seen_tops.append(fr)
        own.append(seen_tops.index(fr))
    if len(seen_tops) != ntrees:
        raise AssertionError("rebuild produced unexpected topologies")
    for how in ("trees", "at"):
        for j in range(len(bps) - 1):
            i = own[j]
            if how == "at":
                t = ts.at(rng.choice([bps[j], (bps[j] + bps[j + 1]) / 2]))
            else:
                t = next(itertools.islice(ts.trees(), j, None))
            ctx.count("rank-invariance")
            try:
                r = tuple(t.rank())
            except Exception as e:
                ctx.violation("rank/raises-on-valid-tree",
                              f"rank() raised {type(e).__name__}: {e} on a rebuilt copy of unrank({n}, {want[i]})",
                              {"model": m.to_json()})
                continue
            if r != want[i]:
                ctx.violation("rank/not-invariant",
                              f"rank() = {r} on a copy of Tree.unrank({n}, {want[i]}) rebuilt with permuted internal "
                              f"ids / other times (tree {j} of {ts.num_trees}, via {how})", {"model": m.to_json()})
    # several roots -> documented ValueError
    if n >= 3 and rng.random() < 0.3:
        par = dict(tops[0][0])
        kids = {}
        for c, p in par.items():
            kids.setdefault(p, []).append(c)
        root = [p for p in kids if p not in par][0]
        for c in kids[root]:
            del par[c]
        ts2, m2 = rebuild(rng, [(par, n)], n, junk=0)
        ctx.count("rank-multiroot")
        try:
            r = ts2.first().rank()
            ctx.violation("rank/multiroot-accepted", f"rank() returned {tuple(r)} on a tree with "
                                                     f"{ts2.first().num_roots} roots", {"model": m2.to_json()})
        except ValueError:
            pass
        except Exception as e:
            ctx.violation("rank/multiroot-wrong-exception", f"rank() on a multi-root tree raised "
                                                            f"{type(e).__name__}: {e}", {"model": m2.to_json()})


def run_tab(case, ctx):
    """rank() of arbitrary trees (random polytomies, msprime) against the position-defined table."""
    rng = case_rng(case)
    nmax = 5 if case["tier"] == "quick" else 6
    src = rng.choice(["poly", "poly", "msprime"])
    ctx.feature("tab:" + src)
    if src == "poly":
        n = rng.randint(1, nmax)
        ntrees = rng.choice([1, 2, 3])
        tops = [(random_topology(rng, n, n), n) for _ in range(ntrees)]
        ts, m = rebuild(rng, tops, n, unsquashed=rng.random() < 0.2)
        detail = {"model": m.to_json()}
    else:
        import msprime

        n = rng.randint(2, nmax)
        ts = msprime.sim_ancestry(samples=n, ploidy=1, sequence_length=rng.choice([4, 10]),
                                  recombination_rate=rng.choice([0.05, 0.2, 0.5]),
                                  random_seed=rng.randrange(1, 2 ** 31))
        detail = {"msprime": True}
    tab = rank_table(n)
    sigs = []
    for t in ts.trees():
        x = t.interval.left
        par, kids = forest_of(ts, x)
        roots = [u for u in range(ts.num_nodes) if u not in par and (u in kids or (u < n and n == 1))]
        if len(roots) != 1:
            continue
        f = canon(kids, roots[0])
        if has_unary(f) or sorted(leaves_of(f)) != list(range(n)):
            continue
        want = tab.get(f)
        ctx.count("rank-vs-table")
        sigs.append(f)
        try:
            r = tuple(t.rank())
        except Exception as e:
            ctx.violation("rank/raises-on-valid-tree", f"rank() raised {type(e).__name__}: {e} on {fmt(f)}", detail)
            continue
        if want is None:
            ctx.violation("all_trees/missing-topology", f"topology {fmt(f)} never appears in all_trees({n})", detail)
        elif r != want:
            ctx.violation("rank/not-position",
                          f"rank() = {r} for {fmt(f)}, which is labelling {want[1]} of shape {want[0]} in "
                          f"all_trees({n})", detail)
        else:
            ctx.count("unrank-rank-roundtrip")
            u = tskit.Tree.unrank(n, r)
            fu = tree_form(ctx, u, n)
            if fu is not None and fu != f:
                ctx.violation("unrank/roundtrip", f"Tree.unrank({n}, {r}) = {fmt(fu)} but rank() of {fmt(f)} is {r}",
                              detail)
    ctx.sig(("tab", n, tuple(sigs)), nontrivial=n >= 3 and bool(sigs))


# ------------------------------------------------------------------------------------------- counting


def forests_to_model(L, bounds, times, flags, pars, pops=None):
    """RowModel from per-interval {child: parent} maps (maximal runs per (child, parent))."""
    m = RowModel(L)
    n = len(times)
    m.nodes = [(flags[u], times[u], NULL if pops is None else pops[u], NULL, b"") for u in range(n)]
    edges = []
    for c in range(n):
        start, cur = None, NULL
        for i, par in enumerate(pars + [{}]):
            p = par.get(c, NULL) if i < len(pars) else NULL
            if p != cur:
                if cur != NULL:
                    edges.append((start, bounds[i], cur, c, b""))
                start, cur = bounds[i], p
    m.edges = sorted(edges, key=sort_edges_key(m))
    return m


def gen_count_model(case, rng, ctx):
    """Tree sequences whose samples are leaves everywhere (plus, rarely, one internal sample)."""
    if case["gen"] == "cnt_ms":
        import msprime

        n = rng.randint(2, 9)
        ts = msprime.sim_ancestry(samples=n, ploidy=1, sequence_length=rng.choice([4, 8, 16]),
                                  recombination_rate=rng.choice([0.05, 0.2, 0.6]),
                                  random_seed=rng.randrange(1, 2 ** 31))
        times = [float(x) for x in ts.nodes_time]
        flags = [int(x) for x in ts.nodes_flags]
        bounds = [float(x) for x in ts.breakpoints()]
        pars = [forest_of(ts, (bounds[i] + bounds[i + 1]) / 2)[0] for i in range(len(bounds) - 1)]
        # collapse random internal nodes into polytomies / detach subtrees, interval by interval
        victims = [u for u in range(n, len(times)) if rng.random() < 0.25]
        mode = rng.choice(["plain", "collapse", "collapse", "detach", "both"])
        ctx.feature("cnt_ms:" + mode)
        for par in pars:
            if mode in ("collapse", "both"):
                for u in victims:
                    if u in par:
                        for c in [c for c, p in par.items() if p == u]:
                            par[c] = par[u]
                        del par[u]
            if mode in ("detach", "both") and rng.random() < 0.5 and par:
                del par[rng.choice(sorted(par))]
        m = forests_to_model(bounds[-1], bounds, times, flags, pars)
    else:
        m = gen.gen_topology(rng, max_nodes=rng.choice([6, 9, 12, 14]), max_bp=rng.choice([0, 2, 4, 6]),
                             sample_mode="none")
        parents = {e[2] for e in m.edges}
        cand = [u for u in range(m.num_nodes) if u not in parents]
        keep = [u for u in cand if rng.random() < 0.85]
        m.nodes = [((f | NODE_IS_SAMPLE) if u in keep else (f & ~NODE_IS_SAMPLE), t, p, i, md)
                   for u, (f, t, p, i, md) in enumerate(m.nodes)]
    return m


def brute_counts(m, x, sets, tabs):
    """{key: {rank: count}} for every non-empty sub-family `key` of the sample sets, at position x."""
    par = m.forest_at(x)
    kids = {}
    for c, p in par.items():
        kids.setdefault(p, []).append(c)

    def root_of(u):
        while u in par:
            u = par[u]
        return u

    out = {}
    k = len(sets)
    for size in range(1, k + 1):
        for key in itertools.combinations(range(k), size):
            cnt = collections.Counter()
            for choice in itertools.product(*(sets[i] for i in key)):
                roots = {root_of(u) for u in choice}
                if len(roots) != 1:
                    continue  # no single embedded topology
                lab = {u: j for j, u in enumerate(choice)}
                f = restrict(kids, roots.pop(), lab)
                cnt[tabs[size][f]] += 1
            out[key] = dict(cnt)
    return out


def norm_counter(tc, k):
    """Observable content of a TopologyCounter: {key: {rank: count}} without zero counts, plus the raw keys."""
    raw_keys = list(tc.topologies.keys())
    out = {}
    for size in range(1, k + 1):
        for key in itertools.combinations(range(k), size):
            got = tc[key] if size > 1 else tc[key[0]]
            out[key] = {tuple(r): c for r, c in got.items() if c != 0}
    return out, raw_keys


def run_count(case, ctx):
    rng = case_rng(case)
    m = gen_count_model(case, rng, ctx)
    samples = m.samples()
    for t in gen.topo_tags(m):
        ctx.feature(t)
    k = rng.choice([1, 2, 2, 3, 3, 3, 4, 4])
    # five and six sample sets (a share of the cases with enough samples): keys spanning >= 6 sets are the first whose
    # embedded topologies can have two same-shape sibling subtrees of three tips, i.e. several labellings per subtree
    many = len(samples) >= 5 and rng.random() < 0.35
    if many:
        k = min(len(samples), rng.choice([5, 6, 6, 6]))
    pool = list(samples)
    rng.shuffle(pool)
    sets = [[] for _ in range(k)]
    style = rng.choice(["random", "random", "all", "by-pop"])
    if many:
        # every set non-empty, at most two samples per set (the brute force multiplies the set sizes)
        for i in range(k):
            sets[i].append(pool[i])
        for u in pool[k:]:
            i = rng.randrange(k)
            if len(sets[i]) < 2 and rng.random() < 0.6:
                sets[i].append(u)
        if style == "all":
            style = "random"
        ctx.feature(f"many-sample-sets:{k}")
    else:
        for u in pool:
            if style == "random" and rng.random() < 0.2:
                continue
            sets[rng.randrange(k)].append(u)
    sets = [s[:4] if len(pool) > 10 else s for s in sets]
    if rng.random() < 0.5:
        sets = [sorted(s) for s in sets]
    if style == "by-pop":
        pops = [NULL] * m.num_nodes
        for i, s in enumerate(sets):
            for u in s:
                pops[u] = i
        m.populations = [(b"",) for _ in range(k)]
        m.nodes = [(f, t, pops[u], i, md) for u, (f, t, _, i, md) in enumerate(m.nodes)]
        # the documented default groups *all* samples by population, in id order
        sets = [[u for u in samples if pops[u] == p] for p in range(k)]
    ctx.feature(f"k={k}")
    ctx.feature("sets:" + style)
    detail = {"model": m.to_json(), "sample_sets": sets}
    ts = to_ts(m)
    tabs = {j: rank_table(j) for j in range(1, k + 1)}
    bps = m.breakpoints()
    ntrees = len(bps) - 1
    ctx.sig(("count", m.signature(), tuple(map(tuple, sets))),
            nontrivial=k >= 2 and sum(1 for s in sets if s) >= 2)
    if case["k"] < 12:
        ctx.sample({"case": case, "edges": len(m.edges), "trees": ntrees, "sample_sets": sets})
    parents_somewhere = {e[2] for e in m.edges}
    assert not any(u in parents_somewhere for u in samples)
    expected = [brute_counts(m, (bps[i] + bps[i + 1]) / 2, sets, tabs) for i in range(ntrees)]

    def compare(tc, i, how):
        got, raw = norm_counter(tc, k)
        ok = True
        for key in raw:
            if tuple(sorted(key)) != tuple(key) or not set(key) <= set(range(k)) or len(set(key)) != len(key):
                ctx.violation("count_topologies/bad-key", f"[{how}] tree {i}: counter exposes key {key}", detail)
                ok = False
        for key, exp in expected[i].items():
            if got[key] != exp:
                ctx.violation("count_topologies/wrong-count",
                              f"[{how}] tree {i} interval [{bps[i]},{bps[i + 1]}) sample_sets={sets} key={key}: "
                              f"got {got[key]}, brute force {exp}", detail)
                ok = False
                break
        return ok

    kwargs = {} if style == "by-pop" and rng.random() < 0.7 else {"sample_sets": sets}
    ctx.feature("default-sample-sets" if not kwargs else "explicit-sample-sets")
    per_tree_ok = True
    for i, tree in enumerate(ts.trees()):
        ctx.count("count-topologies-bruteforce")
        try:
            tc = tree.count_topologies(**kwargs)
        except Exception as e:
            ctx.violation("count_topologies/raises", f"Tree.count_topologies({sets}) raised {type(e).__name__}: {e} "
                                                     f"on tree {i}", detail)
            per_tree_ok = False
            continue
        per_tree_ok &= compare(tc, i, "Tree.count_topologies")
    ctx.count("count-topologies-incremental")
    try:
        seq = list(ts.count_topologies(**kwargs))
    except Exception as e:
        ctx.violation("count_topologies/raises", f"TreeSequence.count_topologies({sets}) raised "
                                                 f"{type(e).__name__}: {e}", detail)
        seq = None
    if seq is not None:
        if len(seq) != ntrees:
            ctx.violation("count_topologies/incremental-length",
                          f"TreeSequence.count_topologies yielded {len(seq)} counters for {ntrees} trees", detail)
        else:
            for i, tc in enumerate(seq):
                ctx.count("count-topologies-incremental:trees")
                if not compare(tc, i, "TreeSequence.count_topologies (incremental)"):
                    break
    # audit: the same expectation through the other argument forms / tree sources / consumption styles (c15_ext)
    rng2 = case_rng(case, "ext")
    if per_tree_ok and rng2.random() < (0.6 if case["gen"] == "count" else 0.35):
        c15_ext.check_counts(ctx, rng2, ts, m, sets, {"model": m.to_json()}, "count", expected=expected,
                             default_ok=(style == "by-pop"))
        if rng2.random() < 0.15:
            c15_ext.check_invalid_ids(ctx, rng2, ts, c15_ext.View(ts), sets, detail, "count")
    # documented rejections
    r = rng.random()
    nonsamples = [u for u in range(m.num_nodes) if u not in samples]
    if r < 0.25 and nonsamples and sets:
        bad = [list(s) for s in sets]
        bad[rng.randrange(k)].append(rng.choice(nonsamples))
        for how, call in (("Tree", lambda: ts.first().count_topologies(bad)),
                          ("TreeSequence", lambda: list(ts.count_topologies(bad)))):
            ctx.count("count-topologies-rejects-nonsample")
            try:
                call()
                ctx.violation("count_topologies/non-sample-accepted",
                              f"{how}.count_topologies({bad}) accepted a non-sample node", detail)
            except ValueError:
                pass
            except Exception as e:
                ctx.violation("count_topologies/non-sample-wrong-exception",
                              f"{how}.count_topologies({bad}) raised {type(e).__name__}: {e}", detail)
    elif r < 0.45 and m.edges and sets and any(sets):
        # make one internal node a sample and put it into a set: ValueError wherever it is internal
        p = rng.choice(sorted(parents_somewhere))
        m2 = m.copy()
        f, t, pop, ind, md = m2.nodes[p]
        m2.nodes[p] = (f | NODE_IS_SAMPLE, t, pop, ind, md)
        bad = [list(s) for s in sets]
        bad[rng.randrange(k)].append(p)
        ts2 = to_ts(m2)
        d2 = {"model": m2.to_json(), "sample_sets": bad}
        raised = False
        for i, tree in enumerate(ts2.trees()):
            x = (bps[i] + bps[i + 1]) / 2
            internal_here = p in set(m2.forest_at(x).values())
            if not internal_here:
                continue
            ctx.count("count-topologies-rejects-internal-sample")
            try:
                tree.count_topologies(bad)
                ctx.violation("count_topologies/internal-sample-accepted",
                              f"Tree.count_topologies({bad}) accepted internal sample {p} on tree {i}", d2)
            except ValueError:
                raised = True
            except Exception as e:
                ctx.violation("count_topologies/internal-sample-wrong-exception",
                              f"Tree.count_topologies({bad}) raised {type(e).__name__}: {e}", d2)
        if raised:
            try:
                list(ts2.count_topologies(bad))
                ctx.violation("count_topologies/internal-sample-accepted",
                              f"TreeSequence.count_topologies({bad}) accepted internal sample {p}", d2)
            except ValueError:
                pass
            except Exception as e:
                ctx.violation("count_topologies/internal-sample-wrong-exception",
                              f"TreeSequence.count_topologies({bad}) raised {type(e).__name__}: {e}", d2)
