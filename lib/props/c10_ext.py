"""C10 helpers added by the audit (see AUDIT-C10.md).

* an independent kastore WRITER (`pack`) next to the independent reader of c10.Layout: a list of (key, type, raw bytes)
  is laid out from the kastore format description (64-byte header, 64-byte descriptors, keys back to back, arrays 8-byte
  aligned, file_size in the header).  With it an item can be dropped / retyped / resized / duplicated and the file
  RE-PACKED, so that every kastore-level check passes and the alteration reaches the tskit-level checks (format name /
  version / uuid / sequence_length shape, column type, row-count agreement, offset columns, index length), which
  single-byte edits only reach when the new extent happens to fit the 8-byte alignment padding.
* `format_reasons`: the file-format requirements written down from the data-model documentation (every column of a
  table has one row count; a ragged column is a data array plus an offset array with rows+1 non-decreasing entries from
  0 to len(data); column types as dump() writes them, offsets uint32 or uint64; both index arrays or neither, one
  entry per edge; fixed-shape format/name, format/version, uuid, sequence_length).  A non-empty result means MUST RAISE;
  an empty one means EITHER (raise, or return a well-formed object).
* loader argument forms that the path/file-object loaders of c10 did not cover (bytes path, int fd, raw unbuffered
  file, pipe, socket, TreeSequence.load, the low-level _tskit classes, a re-used low-level object).
* a structurally LARGE file (> 65535 rows, > 64 KiB ragged column and blobs) with sampled faults.
"""
import fcntl
import os
import socket
import struct

import numpy as np
import tskit

import _tskit

MAGIC = b"\x89KAS\r\n\x1a\n"
HEADER = 64
DESC = 64
TYPE_SIZE = [1, 1, 2, 2, 4, 4, 8, 8, 4, 8]
INT8, UINT8, INT32, UINT32, INT64, UINT64, F32, F64 = 0, 1, 4, 5, 6, 7, 8, 9


# ----------------------------------------------------------------------------- independent reader / writer


def parse_items(data):
    """[(key bytes, type code, raw array bytes)] in file order."""
    (n,) = struct.unpack_from("<I", data, 12)
    out = []
    for j in range(n):
        off = HEADER + j * DESC
        typ = data[off]
        ks, kl, as_, al = struct.unpack_from("<QQQQ", data, off + 8)
        out.append((bytes(data[ks:ks + kl]), typ, bytes(data[as_:as_ + al * TYPE_SIZE[typ]])))
    return out


def pack(items, sort=True):
    """kastore file image of [(key, type, raw)].  Keys in byte order (a shorter key before its extensions), which is
    what the reader's binary search assumes; sort=False keeps the given order (an UNSORTED store)."""
    items = sorted(items, key=lambda it: it[0]) if sort else list(items)
    n = len(items)
    off = HEADER + n * DESC
    kstarts = []
    for key, _, _ in items:
        kstarts.append(off)
        off += len(key)
    astarts = []
    for _, typ, raw in items:
        off = (off + 7) // 8 * 8
        astarts.append(off)
        off += len(raw)
    file_size = off
    out = bytearray(file_size)
    out[0:8] = MAGIC
    struct.pack_into("<HHIQ", out, 8, 1, 0, n, file_size)
    for j, (key, typ, raw) in enumerate(items):
        d = HEADER + j * DESC
        out[d] = typ
        struct.pack_into("<QQQQ", out, d + 8, kstarts[j], len(key), astarts[j], len(raw) // TYPE_SIZE[typ])
        out[kstarts[j]:kstarts[j] + len(key)] = key
        out[astarts[j]:astarts[j] + len(raw)] = raw
    return bytes(out)


# ----------------------------------------------------------------------------- file-format requirements

TABLES = ("nodes", "edges", "sites", "mutations", "migrations", "individuals", "populations", "provenances")


def loader_reads(key, loader):
    """Does this read path consult the item at all?  (skip_tables / skip_reference_sequence are documented to leave the
    tables / the reference sequence unread.)"""
    if "/" not in key or key.startswith("format/"):
        return True
    if key.startswith("reference_sequence/"):
        return "skip_reference_sequence" not in loader
    return "skip_tables" not in loader


def _arr(typ, raw):
    dt = ["<i1", "<u1", "<i2", "<u2", "<i4", "<u4", "<i8", "<u8", "<f4", "<f8"][typ]
    return np.frombuffer(raw, dtype=dt)


def format_reasons(items, ref_types, optional, loader):
    """items: [(key bytes, type, raw)] of the altered file; ref_types: {key str: type} of the file dump() wrote.
    Returns the list of format requirements the altered file breaks among the items `loader` reads."""
    R = []
    d = {}
    for key, typ, raw in items:
        k = key.decode("utf8", "replace")
        if k in d:
            continue  # duplicated keys: which copy a reader finds is not defined -> judged by the EITHER rule
        d[k] = (typ, raw)
    reads = lambda k: loader_reads(k, loader)  # noqa: E731
    n_of = lambda k: len(d[k][1]) // TYPE_SIZE[d[k][0]]  # noqa: E731
    for k in ref_types:
        if k not in d and reads(k) and k not in optional:
            R.append("missing-required:" + k)
    for k, t in ref_types.items():
        if k.endswith("_offset"):
            dk = k[:-7]
            if (dk in d) != (k in d) and reads(k):
                R.append("ragged-pair-incomplete:" + dk)
    for k, (typ, raw) in d.items():
        if k not in ref_types or not reads(k):
            continue
        if k.endswith("_offset"):
            if typ not in (UINT32, UINT64):
                R.append("type:" + k)
        elif typ != ref_types[k]:
            R.append("type:" + k)
    if "format/name" in d and bytes(d["format/name"][1]) != b"tskit.trees":
        R.append("format/name")
    if "format/version" in d and d["format/version"][0] == UINT32:
        v = _arr(UINT32, d["format/version"][1])
        if len(v) != 2 or v[0] != 12:
            R.append("format/version")
    if "uuid" in d and n_of("uuid") != 36:
        R.append("uuid-length")
    if "sequence_length" in d and d["sequence_length"][0] == F64:
        v = _arr(F64, d["sequence_length"][1])
        if len(v) != 1 or not (v[0] > 0):
            R.append("sequence_length")
    rows = {}
    for tname in TABLES:
        if not reads(tname + "/x"):
            continue
        counts = {}
        for k in d:
            if not k.startswith(tname + "/") or k.endswith("/metadata_schema") or k not in ref_types:
                continue
            if k.endswith("_offset"):
                if d[k][0] in (UINT32, UINT64):
                    counts[k] = n_of(k) - 1
                    off = _arr(d[k][0], d[k][1]).astype(object)
                    dk = k[:-7]
                    if len(off) == 0:
                        R.append("offsets-empty:" + k)
                    elif dk in d and (off[0] != 0 or off[-1] != n_of(dk) or any(a > b for a, b in zip(off, off[1:]))):
                        R.append("offsets-malformed:" + k)
            elif k + "_offset" in ref_types:
                pass  # ragged data: its length is tied to the last offset above
            else:
                counts[k] = n_of(k)
        if len(set(counts.values())) > 1:
            R.append("row-counts-differ:" + tname)
        if counts:
            rows[tname] = max(counts.values())
    a, b = "indexes/edge_insertion_order", "indexes/edge_removal_order"
    if reads(a):
        if (a in d) != (b in d):
            R.append("index-pair-incomplete")
        elif a in d and "edges" in rows and not (n_of(a) == n_of(b) == rows["edges"]):
            R.append("index-length")
    return R


# ----------------------------------------------------------------------------- re-packed alterations


def _resize(typ, raw, how):
    s = TYPE_SIZE[typ]
    n = len(raw) // s
    if how == "drop-last":
        return raw[:(n - 1) * s] if n > 0 else None
    if how == "append-zero":
        return raw + bytes(s)
    if how == "append-copy":
        return raw + raw[-s:] if n > 0 else None
    if how == "empty":
        return b"" if n > 1 else None
    raise ValueError(how)


def to_offset64(items, only=None):
    out = []
    for key, typ, raw in items:
        if key.endswith(b"_offset") and typ == UINT32 and (only is None or key == only):
            out.append((key, UINT64, _arr(UINT32, raw).astype("<u8").tobytes()))
        else:
            out.append((key, typ, raw))
    return out


def table_resized(items, tname, ref_types, how):
    """Every column of one table loses its last row / gains a copy of its last row (ragged: an empty entry), so that
    the table stays self-consistent.  None if not applicable."""
    d = {k.decode(): (t, r) for k, t, r in items}
    pre = tname + "/"
    out = []
    touched = False
    for key, typ, raw in items:
        k = key.decode()
        if not k.startswith(pre) or k.endswith("/metadata_schema"):
            out.append((key, typ, raw))
            continue
        s = TYPE_SIZE[typ]
        if k.endswith("_offset"):
            off = _arr(typ, raw)
            if how == "drop-last":
                if len(off) < 2:
                    return None
                new = off[:-1]
            else:
                new = np.append(off, off[-1])
            out.append((key, typ, new.astype(off.dtype).tobytes()))
            touched = True
        elif k + "_offset" in d:
            off = _arr(d[k + "_offset"][0], d[k + "_offset"][1])
            if how == "drop-last":
                if len(off) < 2:
                    return None
                out.append((key, typ, raw[:int(off[-2]) * s]))
            else:
                out.append((key, typ, raw))
            touched = True
        else:
            n = len(raw) // s
            if how == "drop-last":
                if n == 0:
                    return None
                out.append((key, typ, raw[:(n - 1) * s]))
            else:
                if n == 0:
                    return None
                out.append((key, typ, raw + raw[-s:]))
            touched = True
    return out if touched else None


def repack_edits(items, ref_types, rng):
    """Yield (label, mechanism class, new item list, sort flag, expect) - expect in {"model", "equal"}:
    model -> format_reasons decides MUST-RAISE vs EITHER; equal -> a valid alternative encoding that must load equal."""
    keys = [k for k, _, _ in items]
    for j, (key, typ, raw) in enumerate(items):
        k = key.decode()
        yield (f"item {k} removed", "drop", items[:j] + items[j + 1:], True, "model")
    # both members of an optional pair removed together (a legitimately absent optional column)
    for a, b in ((b"edges/metadata", b"edges/metadata_offset"), (b"migrations/metadata", b"migrations/metadata_offset"),
                 (b"individuals/parents", b"individuals/parents_offset"),
                 (b"indexes/edge_insertion_order", b"indexes/edge_removal_order")):
        if a in keys and b in keys:
            yield (f"items {a.decode()} and {b.decode()} removed together", "drop-pair",
                   [it for it in items if it[0] not in (a, b)], True, "model")
    for j, (key, typ, raw) in enumerate(items):
        k = key.decode()
        same = [t for t in range(10) if t != typ and TYPE_SIZE[t] == TYPE_SIZE[typ]]
        other = [t for t in range(10) if TYPE_SIZE[t] != TYPE_SIZE[typ] and len(raw) % TYPE_SIZE[t] == 0]
        rng.shuffle(other)
        for t in same + other[:2]:
            yield (f"item {k} stored as type {t} instead of {typ} ({len(raw)} bytes)", "retype",
                   items[:j] + [(key, t, raw)] + items[j + 1:], True, "model")
    for j, (key, typ, raw) in enumerate(items):
        k = key.decode()
        for how in ("drop-last", "append-zero", "append-copy", "empty"):
            new = _resize(typ, raw, how)
            if new is not None:
                yield (f"item {k} ({len(raw) // TYPE_SIZE[typ]} x type {typ}) resized: {how}", "resize",
                       items[:j] + [(key, typ, new)] + items[j + 1:], True, "model")
    for tname in TABLES:
        for how in ("drop-last", "append-copy"):
            new = table_resized(items, tname, ref_types, how)
            if new is not None:
                yield (f"table {tname}: every column {how}", "table-" + how, new, True, "model")
                if tname == "edges":
                    noidx = [it for it in new if not it[0].startswith(b"indexes/")]
                    yield (f"table edges: every column {how}, index removed", "table-" + how + "-noindex", noidx, True, "model")
    ia, ib = b"indexes/edge_insertion_order", b"indexes/edge_removal_order"
    if ia in keys and ib in keys:
        for how in ("drop-last", "append-zero", "append-copy"):
            new = []
            ok = True
            for key, typ, raw in items:
                if key in (ia, ib):
                    r2 = _resize(typ, raw, how)
                    if r2 is None:
                        ok = False
                        break
                    new.append((key, typ, r2))
                else:
                    new.append((key, typ, raw))
            if ok:
                yield (f"both index arrays resized together: {how}", "index-resize", new, True, "model")
    yield ("every offset column stored as uint64", "offset64", to_offset64(items), True, "equal")
    offs = [k for k in keys if k.endswith(b"_offset")]
    for k in rng.sample(offs, min(3, len(offs))):
        yield (f"offset column {k.decode()} alone stored as uint64", "offset64-one", to_offset64(items, only=k), True, "equal")
    # contents of two same-shaped columns of one table exchanged (parent<->child, left<->right, ...)
    by = {}
    for j, (key, typ, raw) in enumerate(items):
        if b"/" in key and not key.endswith((b"_offset", b"metadata_schema")) and len(raw) > 0:
            by.setdefault((key.split(b"/")[0], typ, len(raw)), []).append(j)
    for grp in by.values():
        for a in range(len(grp)):
            for b in range(a + 1, len(grp)):
                ja, jb = grp[a], grp[b]
                if items[ja][2] == items[jb][2]:
                    continue
                new = list(items)
                new[ja] = (items[ja][0], items[ja][1], items[jb][2])
                new[jb] = (items[jb][0], items[jb][1], items[ja][2])
                yield (f"contents of {items[ja][0].decode()} and {items[jb][0].decode()} exchanged", "exchange", new, True, "model")
    # duplicated / unsorted / unknown keys
    for j in rng.sample(range(len(items)), min(4, len(items))):
        key, typ, raw = items[j]
        yield (f"item {key.decode()} stored twice", "duplicate", items[:j + 1] + [(key, typ, raw)] + items[j + 1:], False, "either")
    for j in rng.sample(range(len(items) - 1), min(4, len(items) - 1)):
        new = list(items)
        new[j], new[j + 1] = new[j + 1], new[j]
        yield (f"items {items[j][0].decode()} and {items[j + 1][0].decode()} stored in the wrong key order", "unsorted", new, False, "either")
    for key in (b"a", b"edges/zzz", b"zzz/extra", b"uuid2"):
        yield (f"unknown extra item {key.decode()}", "extra-key", items + [(key, rng.choice([UINT8, INT32, F64]), bytes(8))], True, "either")


# ----------------------------------------------------------------------------- loader argument forms


def _via_pipe(data, fn, as_int):
    r, w = os.pipe()
    try:
        if len(data) > 60000:
            fcntl.fcntl(w, 1031, max(len(data) + 4096, 65536))  # F_SETPIPE_SZ
            if fcntl.fcntl(w, 1032) < len(data):  # F_GETPIPE_SZ
                raise OSError("pipe too small")
        os.write(w, data)
        os.close(w)
        w = None
        if as_int:
            return fn(r)
        with os.fdopen(os.dup(r), "rb", buffering=0) as f:
            return fn(f)
    finally:
        if w is not None:
            os.close(w)
        os.close(r)


def _via_socket(data, fn):
    a, b = socket.socketpair()
    try:
        a.setsockopt(socket.SOL_SOCKET, socket.SO_SNDBUF, max(4 * len(data), 1 << 16))
        a.setblocking(False)
        sent = a.send(data) if data else 0
        if sent != len(data):
            raise OSError("socket buffer too small")
        a.close()
        a = None
        return fn(b)
    finally:
        if a is not None:
            a.close()
        b.close()


def _ll_tc(f, reuse_with=None, **kw):
    ll = _tskit.TableCollection()
    if reuse_with is not None:
        with open(reuse_with, "rb") as g:
            ll.load(g)
    try:
        ll.load(f, **kw)
    except Exception:
        # the failed object must stay safe to touch and to load into again
        try:
            ll.asdict()
        except Exception:  # noqa: BLE001
            pass
        raise
    return tskit.TableCollection(ll_tables=ll)


def _ll_ts(f, **kw):
    ll = _tskit.TreeSequence()
    ll.load(f, **kw)
    return tskit.TreeSequence(ll)


def _open(p, fn, **okw):
    with open(p, "rb", **okw) as f:
        return fn(f)


def _fd(p, fn):
    fd = os.open(p, os.O_RDONLY)
    try:
        return fn(fd)
    finally:
        os.close(fd)


# name -> (callable, takes: "path" | "data").  The name carries the options ("skip_tables" /
# "skip_reference_sequence" substrings are what the classifier looks at) and starts with the public entry point.
EXTRA_LOADERS = {
    "TreeSequence.load": (lambda p: tskit.TreeSequence.load(p), "path"),
    "TreeSequence.load(fileobj,skip_reference_sequence)":
        (lambda p: _open(p, lambda f: tskit.TreeSequence.load(f, skip_reference_sequence=True)), "path"),
    "tskit.load(bytes path)": (lambda p: tskit.load(os.fsencode(p)), "path"),
    "tskit.load(file=path keyword)": (lambda p: tskit.load(file=p), "path"),
    "TableCollection.load(file_or_path=fileobj keyword)": (lambda p: _open(p, lambda f: tskit.TableCollection.load(file_or_path=f)), "path"),
    "tskit.load(int fd)": (lambda p: _fd(p, tskit.load), "path"),
    "TableCollection.load(int fd)": (lambda p: _fd(p, tskit.TableCollection.load), "path"),
    "TableCollection.load(raw fileobj)": (lambda p: _open(p, tskit.TableCollection.load, buffering=0), "path"),
    "tskit.load(fileobj,skip_tables)": (lambda p: _open(p, lambda f: tskit.load(f, skip_tables=True)), "path"),
    "TableCollection.load(skip_tables,skip_reference_sequence)":
        (lambda p: tskit.TableCollection.load(p, skip_tables=True, skip_reference_sequence=True), "path"),
    "tskit.load(pipe fd)": (lambda d: _via_pipe(d, tskit.load, True), "data"),
    "TableCollection.load(pipe fileobj)": (lambda d: _via_pipe(d, tskit.TableCollection.load, False), "data"),
    "tskit.load(socket)": (lambda d: _via_socket(d, tskit.load), "data"),
    "TableCollection.load(_tskit low-level)": (lambda p: _open(p, _ll_tc), "path"),
    "TableCollection.load(_tskit low-level,skip_tables)": (lambda p: _open(p, lambda f: _ll_tc(f, skip_tables=True)), "path"),
    "tskit.load(_tskit low-level)": (lambda p: _open(p, _ll_ts), "path"),
}


def ll_reused(path_bad, path_good):
    """The low-level object is loaded with a good file first, then with the file under test."""
    with open(path_bad, "rb") as f:
        return _ll_tc(f, reuse_with=path_good)


def is_ts_loader(name):
    return name.startswith(("tskit.load", "TreeSequence.load"))


# ----------------------------------------------------------------------------- structurally large file


def large_tables(rng):
    """> 65535 rows in a table whose ragged column and offsets go beyond 16 bits, blobs and a single ragged entry beyond
    64 KiB; a valid tree sequence.  (Kept under 1 MiB so that it fits a pipe without privileges.)"""
    n_pops = 65536 + rng.randint(1, 700)
    L = 16.0
    tc = tskit.TableCollection(L)
    tc.populations.set_columns(metadata=np.full(n_pops, ord("p"), dtype=np.int8),
                               metadata_offset=np.arange(n_pops + 1, dtype=np.uint64))
    tc.nodes.add_row(flags=1, time=0, population=n_pops - 1)
    tc.nodes.add_row(flags=1, time=0, population=65535)
    tc.nodes.add_row(flags=0, time=1, population=65536)
    tc.edges.add_row(0, L, 2, 0)
    tc.edges.add_row(0, L, 2, 1)
    for x in (1.0, 2.0, 3.0):
        s = tc.sites.add_row(x, "A")
        tc.mutations.add_row(site=s, node=0, derived_state="T" * 3)
    tc.metadata = b"m" * (65536 + rng.randint(1, 9))
    tc.reference_sequence.data = "ACGT" * (16384 + rng.randint(1, 9))
    tc.provenances.add_row("{}" + " " * 70000, timestamp="2020")
    tc.build_index()
    return tc
