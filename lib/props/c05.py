"""C05 — storage and interchange are lossless: dump/load, dict, pickle, copy round-trip; equals/assert_equals agree.

Four kinds of cases (all on generated table collections, VALID OR NOT):

  stream       history checker: a random program of dump(obj_i, stream) / load(stream) events over one transport
               (separate reader/writer handles on a regular file, one "w+b" handle, pipe, socketpair); the model is a
               FIFO of snapshots; stream offsets are compared with the kastore headers read independently; the load
               after the last object must raise EOFError (and a truncated object must NOT).
  path         per-object dumps in every argument form, independent kastore parse of the written bytes against the
               dict encoding (and file_uuid against the stored uuid), loads in every argument form, skip_tables /
               skip_reference_sequence loads, a re-encoding of the file with 64-bit offset columns (all or a subset),
               the same store without one optional key (earlier format versions), the second object of a two-object
               file loaded from a positioned handle with and without skip options, overwriting a path.
  interchange  copy / copy.copy / copy.deepcopy / pickle (protocols 0..5) / asdict->fromdict (also force_offset_64,
               through _tskit.LightweightTableCollection, optional keys removed or None, numeric forms of
               sequence_length), the indexes property, per-table copy/pickle/copy module (columns AND the schema text
               as stored, and copy.equals(original)), TreeSequence dump_tables / tables / load_tables / dump+load /
               pickle / copy module, and the loaded TreeSequence's own accessors against the stored columns.
  equality     pairs (a, b), b = a with 1-2 field classes perturbed, x subsets of the six ignore_* flags: equals()
               must equal the documented prediction, assert_equals() must raise AssertionError iff equals() is False;
               same per table (ignore_metadata / ignore_timestamps) and for TreeSequence.equals.
  chain        a history on ONE object: 3-6 transports applied one after the other, each to the RESULT of the previous
               one (path / file-object / fd dump+load, tskit.load, pickle, copy.copy/deepcopy, copy(), dict, 64-bit
               dict, LightweightTableCollection, TreeSequence pickle / load_tables, and "touch": the same rows appended
               to the travelling object and to a never-serialised twin); after every step the object must be
               column-byte-wise the original and equals()/assert_equals() must say so.
  large        structurally extreme objects, forced (not left to chance): > 65535 rows, one ragged entry > 64 KiB,
               ragged columns > 64 KiB, MiB-sized reference sequence, > 64 KiB url / top-level metadata / schema text /
               time units / provenance record, >= 65536 indexed edges; through path, pickle, copy, dict, equals and a
               pipe or socketpair fed by `cat` (objects far larger than the kernel buffer, several back to back).

Argument forms (lib/props/c05_forms.py): every path-like (str, bytes, pathlib, other os.PathLike, keyword) and every
handle form (buffered file object, raw unbuffered file object, integer descriptor; for reading from a socketpair also the
socket object itself) is drawn for dumps and loads, on single files and on multi-object streams.

EITHER zones (documentation leaves them open, so nothing is asserted):
  * stream position after a load with skip_tables / skip_reference_sequence (documented as unsupported for streaming) —
    skip loads are only done by path / on a fresh handle;
  * which exception class is raised for a truncated object or a dict lacking a required key — only "an exception that is
    not EOFError" / "an exception" is required;
  * the index of a skip_tables load; tskit.load is only applied to files that hold an index (it refuses others);
  * file_uuid differs by design and is never compared;
  * row metadata / top-level metadata are arbitrary bytes only where no schema is set; under a schema the bytes are
    codec-valid (otherwise assert_equals surfaces the codec's own exception, which the docs do not rule out).
"""
import copy as copymod
import fcntl
import itertools
import json
import math
import os
import pathlib
import pickle
import random
import shutil
import socket
import struct
import subprocess
import tempfile

import _tskit
import numpy as np
import tskit

from lib import gen
from lib.harness import case_rng
from lib.model import RowModel
from lib.props import c05_forms as forms
from lib.tsk import SPEC, columns_from_rows, from_tables, pack_ragged, tables_bytes

ID = "C05"

FLAGS = ("ignore_metadata", "ignore_ts_metadata", "ignore_provenance", "ignore_timestamps", "ignore_tables",
         "ignore_reference_sequence")
META_TABLES = ("nodes", "edges", "sites", "mutations", "individuals", "populations", "migrations")


def cases(tier, seed):
    n = 200000 if tier == "quick" else 3000000
    # 40-cycle: stream 10, path 7, interchange 9, equality 7, chain 5, large 2 (a large case costs ~10 ordinary ones)
    kinds = ("stream", "path", "interchange", "equality", "chain", "stream", "interchange", "path",
             "stream", "equality", "interchange", "large", "stream", "path", "chain", "equality",
             "interchange", "stream", "path", "interchange", "stream", "equality", "chain", "path",
             "interchange", "stream", "equality", "interchange", "stream", "path", "chain", "large",
             "equality", "stream", "interchange", "path", "stream", "equality", "interchange", "chain")
    for k in range(n):
        yield {"gen": kinds[k % len(kinds)], "k": k}


# =============================================================================================
# generators
# =============================================================================================

def _f(bits):
    return struct.unpack("<d", struct.pack("<Q", bits))[0]


F_JUNK = [0.0, -0.0, 1.0, 0.5, 0.1, -3.25, 1e-310, 5e-324, 1.7976931348623157e308, math.inf, -math.inf,
          math.nan, _f(0x7FF8000000000002), _f(0xFFF8000000000000), 1e15 + 0.5, math.pi]
STRS = ["", "A", "C", "é", "\x00", "AC\x00GT", "日本語", "x" * 70, "\U0001F600", "0", "ACGT" * 9]
TIMESTAMPS = ["2024-01-01T00:00:00", "", "1999-12-31T23:59:59.999999", "é", "t"]
TIME_UNITS = ["unknown", "generations", "ticks", "années", "", "uncalibrated", "年"]
RAW_SCHEMAS = [
    '{"codec":"json"}',
    '{"codec":"json","description":"plain"}',
    '{"codec":"json","properties":{"a":{"type":"number"}},"type":"object"}',
    '{"codec":"json","description":"café – 日本"}',          # raw non-ASCII text
    '{ "codec" : "json",  "title": "späced" }',                              # non-canonical spelling
]
STRUCT_SCHEMA = ('{"additionalProperties":false,"codec":"struct","description":"s","properties":{"a":'
                 '{"binaryFormat":"i","type":"integer"}},"required":["a"],"type":"object"}')
STRUCT_SCHEMA2 = STRUCT_SCHEMA.replace('"description":"s"', '"description":"t"')


def jf(rng):
    return rng.choice(F_JUNK) if rng.random() < 0.5 else rng.randint(-64, 64) / 8


def jid(rng, wide):
    pool = [-1, -1, 0, 0, 1, 2, 3, 7, 12, 2 ** 31 - 2]
    if wide:
        pool += [-2, -(2 ** 31), 2 ** 31 - 1, -7]
    return rng.choice(pool)


def jflags(rng):
    return rng.choice([0, 1, 1, 2, 1 << 16, 1 << 31, 2 ** 32 - 1, 0x10001])


def jbytes(rng):
    k = rng.choice([0, 0, 0, 1, 2, 3, 8, 17, 300])
    return bytes(rng.choice([0, 0, 1, 65, 97, 255, 255, 10, 128, 200, 0x7F]) for _ in range(k))


def jstr(rng):
    return rng.choice(STRS)


def jjson(rng):
    """codec-valid JSON bytes (not necessarily canonical)."""
    r = rng.random()
    if r < 0.2:
        return b""
    obj = {}
    for _ in range(rng.randint(0, 3)):
        k = rng.choice(["a", "b", "é", "k k", ""])
        # one of the schemas declares "a" a number and the metadata setters validate
        obj[k] = rng.choice([1, 2.5, -3, 0]) if k == "a" else rng.choice([1, 2.5, "x", "é", None, [1, 2], {"z": 0}, True])
    return json.dumps(obj, ensure_ascii=rng.random() < 0.5, sort_keys=rng.random() < 0.5,
                      separators=rng.choice([(",", ":"), (", ", ": ")])).encode()


def jstruct(rng):
    return struct.pack("<i", rng.choice([0, 1, -1, 2 ** 31 - 1, -(2 ** 31), 258]))


def junk_row(rng, name, wide):
    if name == "nodes":
        return (jflags(rng), jf(rng), jid(rng, wide), jid(rng, wide), jbytes(rng))
    if name == "edges":
        return (jf(rng), jf(rng), jid(rng, wide), jid(rng, wide), jbytes(rng))
    if name == "sites":
        return (jf(rng), jstr(rng), jbytes(rng))
    if name == "mutations":
        return (jid(rng, wide), jid(rng, wide), jstr(rng), jid(rng, wide),
                None if rng.random() < 0.4 else jf(rng), jbytes(rng))
    if name == "individuals":
        return (jflags(rng), tuple(jf(rng) for _ in range(rng.choice([0, 0, 1, 2, 3, 40]))),
                tuple(jid(rng, wide) for _ in range(rng.choice([0, 0, 1, 2, 33]))), jbytes(rng))
    if name == "populations":
        return (jbytes(rng),)
    if name == "migrations":
        return (jf(rng), jf(rng), jid(rng, wide), jid(rng, wide), jid(rng, wide), jf(rng), jbytes(rng))
    if name == "provenances":
        return (rng.choice(TIMESTAMPS), rng.choice(['{"a":1}', "", "réc\x00ord", "r" * 200, "x"]))
    raise KeyError(name)


def set_row_metadata(m, name, fn):
    rows = getattr(m, name)
    setattr(m, name, [r[:-1] + (fn(),) for r in rows])


def gen_arb(rng, min_prov=0, allow_big=True):
    """RowModel (valid or not) + build options."""
    r = rng.random()
    mode = "valid" if r < 0.4 else "mixed" if r < 0.6 else "junk" if r < 0.9 else "empty"
    wide = rng.random() < 0.4
    big = rng.random() < 0.04 and allow_big
    if mode in ("valid", "mixed"):
        if big:
            m = gen.gen_full(rng, max_nodes=40, max_bp=20, max_sites=30, migrations=True)
        else:
            m = gen.gen_full(rng, max_nodes=8, max_bp=4, max_sites=5, migrations=True)
    else:
        # "positive sequence length" includes +inf, the smallest subnormal and the largest finite double
        m = RowModel(rng.choice([1.0, 0.5, 3.0, 1e-300, 1e300, 0.1, 7.25, 2.0 ** 40 + 0.5, 5e-324, math.inf,
                                 1.7976931348623157e308]))
    if mode == "junk":
        for name in RowModel.TABLES:
            n = rng.choice([0, 0, 1, 2, 3, 5, 12]) if not big else rng.choice([0, 40, 300, 1100])
            setattr(m, name, [junk_row(rng, name, wide) for _ in range(n)])
    elif mode == "mixed":
        for name in rng.sample(RowModel.TABLES, rng.randint(1, 3)):
            rows = list(getattr(m, name))
            for _ in range(rng.randint(1, 3)):
                rows.insert(rng.randint(0, len(rows)), junk_row(rng, name, wide))
            setattr(m, name, rows)
    m.tags = {"mode:" + mode} | ({"wide-ids"} if wide else set()) | ({"big"} if big else set())
    # provenance
    nprov = max(min_prov, rng.choice([0, 0, 1, 2, 3]))
    if mode != "junk" or len(m.provenances) < nprov:
        m.provenances = [junk_row(rng, "provenances", wide) for _ in range(nprov)]
    # table schemas + codec-valid row metadata
    m.schemas = {}
    for name in META_TABLES:
        r = rng.random()
        if r < 0.2:
            m.schemas[name] = rng.choice(RAW_SCHEMAS)
            set_row_metadata(m, name, lambda: jjson(rng))
        elif r < 0.27:
            m.schemas[name] = STRUCT_SCHEMA
            set_row_metadata(m, name, lambda: jstruct(rng))
        elif r < 0.45:
            set_row_metadata(m, name, lambda: jbytes(rng))
    # top level
    r = rng.random()
    if r < 0.25:
        m.metadata_schema, m.metadata = rng.choice(RAW_SCHEMAS[:3]), jjson(rng)
    elif r < 0.32:
        m.metadata_schema, m.metadata = STRUCT_SCHEMA, jstruct(rng)
    elif r < 0.6:
        m.metadata_schema, m.metadata = "", jbytes(rng)
    m.time_units = rng.choice(TIME_UNITS)
    if rng.random() < 0.5:
        rs = {"data": rng.choice(["", "ACGT", "N" * 100, "acgt\x00é", "A"]),
              "url": rng.choice(["", "http://example.com/ref.fa", "file:///é"]),
              "metadata_schema": "", "metadata": b""}
        r = rng.random()
        if r < 0.3:
            rs["metadata_schema"], rs["metadata"] = rng.choice(RAW_SCHEMAS[:3]), jjson(rng)
        elif r < 0.6:
            rs["metadata"] = jbytes(rng)
        if rs["data"] or rs["url"] or rs["metadata"] or rs["metadata_schema"]:
            m.refseq = rs
    # "ties": a VALID index that is not the one build_index() makes - edges that tie on the sort key of the insertion /
    # removal order are listed in another order (files written by other tools, or by hand through `indexes`)
    idx = rng.choice(["none", "build", "build", "arbitrary", "ties", "ties"])
    return m, {"wide": wide, "index": idx, "bseed": rng.getrandbits(32)}


def _canonical(s):
    try:
        return tskit.canonical_json(json.loads(s)) == s
    except Exception:
        return False


def _add_row(t, name, row):
    if name == "nodes":
        fl, tm, pop, ind, md = row
        t.add_row(flags=fl, time=tm, population=pop, individual=ind, metadata=md)
    elif name == "edges":
        l, r, p, c, md = row
        t.add_row(l, r, p, c, metadata=md)
    elif name == "sites":
        pos, anc, md = row
        t.add_row(pos, anc, metadata=md)
    elif name == "mutations":
        s, u, d, p, tm, md = row
        t.add_row(site=s, node=u, derived_state=d, parent=p, time=tm, metadata=md)
    elif name == "individuals":
        fl, loc, par, md = row
        t.add_row(flags=fl, location=list(loc), parents=list(par), metadata=md)
    elif name == "populations":
        t.add_row(metadata=row[0])
    elif name == "migrations":
        l, r, u, src, dst, tm, md = row
        t.add_row(l, r, u, src, dst, tm, metadata=md)
    else:
        t.add_row(row[1], timestamp=row[0])


def build_tc(m, opts):
    """Load a RowModel through the public table API.  Row metadata and top-level metadata go in as raw bytes before
    any schema is attached (attaching a schema does not re-validate stored bytes)."""
    rng = random.Random(opts["bseed"])
    tc = tskit.TableCollection(m.L)
    for name in RowModel.TABLES:
        rows = getattr(m, name)
        t = getattr(tc, name)
        if opts["wide"] or rng.random() < 0.3:
            if rows:
                t.set_columns(**columns_from_rows(name, rows))
        else:
            for row in rows:
                _add_row(t, name, row)
    for name, s in m.schemas.items():
        t = getattr(tc, name)
        if _canonical(s) and rng.random() < 0.6:
            t.metadata_schema = tskit.MetadataSchema(json.loads(s))
        else:
            d = t.asdict()
            d["metadata_schema"] = s
            t.set_columns(**d)
    if m.metadata:
        tc.metadata = m.metadata
    if m.metadata_schema:
        tc.metadata_schema = tskit.MetadataSchema(json.loads(m.metadata_schema))
    if m.time_units != "unknown":
        tc.time_units = m.time_units
    if m.refseq is not None:
        rs = tc.reference_sequence
        if m.refseq["metadata"]:
            rs.metadata = m.refseq["metadata"]
        if m.refseq["metadata_schema"]:
            rs.metadata_schema = tskit.MetadataSchema(json.loads(m.refseq["metadata_schema"]))
        if m.refseq["data"]:
            rs.data = m.refseq["data"]
        if m.refseq["url"]:
            rs.url = m.refseq["url"]
    if opts["index"] == "build":
        try:
            tc.build_index()
        except tskit.LibraryError:
            pass
    elif opts["index"] == "ties":
        try:
            tc.build_index()
            trng = random.Random(opts["bseed"] ^ 0x71E5)
            t = tc.edges
            ptime = tc.nodes.time[t.parent] if t.num_rows else np.zeros(0)
            new = []
            for order, coord in ((tc.indexes.edge_insertion_order, t.left), (tc.indexes.edge_removal_order, t.right)):
                out, group, key = [], [], None
                for e in [int(x) for x in order]:
                    k = (float(coord[e]), float(ptime[e]))
                    if k != key and group:
                        trng.shuffle(group)
                        out += group
                        group = []
                    key = k
                    group.append(e)
                trng.shuffle(group)
                out += group
                new.append(np.array(out, dtype=np.int32))
            built = (tc.indexes.edge_insertion_order.copy(), tc.indexes.edge_removal_order.copy())
            tc.indexes = tskit.TableCollectionIndexes(new[0], new[1])
            try:
                tc.tree_sequence()
            except (tskit.LibraryError, ValueError):
                if t.num_rows and (not np.array_equal(new[0], built[0]) or not np.array_equal(new[1], built[1])):
                    # not every collection is a tree sequence; an index the library refuses is not kept for those that are
                    tc.indexes = tskit.TableCollectionIndexes(built[0], built[1])
        except tskit.LibraryError:
            pass
    elif opts["index"] == "arbitrary":
        ne = len(m.edges)
        tc.indexes = tskit.TableCollectionIndexes(
            np.array([rng.randrange(ne) for _ in range(ne)], dtype=np.int32),
            np.array([rng.randrange(ne) for _ in range(ne)], dtype=np.int32))
    return tc


# =============================================================================================
# canonical forms and comparison
# =============================================================================================

def cz(x):
    """floats -> their bit pattern (NaN payloads and -0.0 are data)."""
    if isinstance(x, float):
        return ("f", struct.pack(">d", x).hex())
    if isinstance(x, (tuple, list)):
        return tuple(cz(y) for y in x)
    return x


def canon_model(m, schemas=True):
    rs = None
    if m.refseq is not None:
        rs = (m.refseq.get("data") or "", m.refseq.get("url") or "", bytes(m.refseq.get("metadata") or b""))
        if schemas:
            rs += (m.refseq.get("metadata_schema") or "",)
        if not any(rs):
            rs = None
    out = {"L": cz(float(m.L)), "metadata": bytes(m.metadata), "time_units": m.time_units, "refseq": rs}
    for name in RowModel.TABLES:
        out[name] = cz(getattr(m, name))
    if schemas:
        out["metadata_schema"] = m.metadata_schema
        out["schemas"] = tuple(sorted((k, v) for k, v in m.schemas.items() if v))
    return out


def diff_keys(a, b):
    return [k for k in sorted(set(a) | set(b)) if a.get(k) != b.get(k)]


def tb_dict(tc):
    return {p: (dt, b) for p, dt, b in tables_bytes(tc)}


def strip(d, prefixes):
    return {k: v for k, v in d.items() if not any(k == p or k.startswith(p + "/") for p in prefixes)}


class Snap:
    """Everything observable about an original object, taken once."""

    def __init__(self, tc, light=False):
        self.tb = tb_dict(tc)
        self.cm = None if light else canon_model(from_tables(tc))
        self.has_index = tc.has_index()


def same(ctx, what, got, snap, drop=(), model=None, light=False):
    """Monitor: `got` (a TableCollection) is column-byte-wise the snapshot (minus `drop` prefixes).
    light=True leaves out the row-by-row read-back (used for the very large objects, where it is done once)."""
    ctx.count("same:" + what)
    ok = True
    a, b = strip(tb_dict(got), drop), strip(snap.tb, drop)
    if a != b:
        ks = diff_keys(a, b)
        k = ks[0]
        ctx.violation(f"{what}/differs{_generic(k)}",
                      f"{what}: key {k}: got {_short(a.get(k))} expected {_short(b.get(k))} (all differing: {ks[:8]})")
        ok = False
    if light:
        if not drop and got.has_index() != snap.has_index:
            ctx.violation(f"{what}/index-presence", f"{what}: has_index()={got.has_index()} original {snap.has_index}")
            ok = False
        return ok
    if not drop:
        cm = canon_model(from_tables(got))
        if cm != snap.cm:
            ks = diff_keys(cm, snap.cm)
            ctx.violation(f"{what}/rows-differ/{ks[0]}",
                          f"{what}: raw rows of {ks[0]}: got {_short(cm.get(ks[0]))} expected {_short(snap.cm.get(ks[0]))}")
            ok = False
        if got.has_index() != snap.has_index:
            ctx.violation(f"{what}/index-presence", f"{what}: has_index()={got.has_index()} original {snap.has_index}")
            ok = False
    return ok


def _generic(k):
    return k


def _short(x):
    s = repr(x)
    return s if len(s) < 300 else s[:300] + "..."


def guarded(ctx, what, fn, *a, **kw):
    """Run a call that must succeed; an exception is a violation of the round-trip property."""
    try:
        return True, fn(*a, **kw)
    except Exception as e:  # noqa: BLE001
        ctx.violation(f"{what}/raised-{type(e).__name__}", f"{what} raised {type(e).__name__}: {e}")
        return False, None


# =============================================================================================
# kastore, read independently (c/subprojects/kastore: 64-byte header, 64-byte descriptors, keys, 8-aligned arrays)
# =============================================================================================
KAS_MAGIC = b"\x89KAS\r\n\x1a\n"
KAS_TYPES = {0: np.int8, 1: np.uint8, 2: np.int16, 3: np.uint16, 4: np.int32, 5: np.uint32, 6: np.int64,
             7: np.uint64, 8: np.float32, 9: np.float64}
KAS_CODE = {np.dtype(v).str: k for k, v in KAS_TYPES.items()}


def kas_size(b, off=0):
    if b[off:off + 8] != KAS_MAGIC:
        return None
    return struct.unpack_from("<Q", b, off + 16)[0]


def kas_walk(b):
    """Object boundaries of a concatenation of kastores, from the headers only."""
    bounds = [0]
    while bounds[-1] < len(b):
        sz = kas_size(b, bounds[-1])
        if sz is None or sz < 64 or bounds[-1] + sz > len(b):
            return None
        bounds.append(bounds[-1] + sz)
    return bounds


def kas_parse(b):
    """{key: ndarray}, plus a list of structural complaints."""
    bad = []
    n = struct.unpack_from("<I", b, 12)[0]
    fs = struct.unpack_from("<Q", b, 16)[0]
    if fs != len(b):
        bad.append(f"header file_size {fs} != {len(b)} bytes written")
    items = {}
    prev_key = None
    for j in range(n):
        ds = b[64 + 64 * j:128 + 64 * j]
        typ = ds[0]
        ks, kl, as_, al = struct.unpack_from("<QQQQ", ds, 8)
        key = b[ks:ks + kl].decode()
        dt = np.dtype(KAS_TYPES[typ])
        if as_ % 8:
            bad.append(f"array of {key} not 8-byte aligned ({as_})")
        if as_ + al * dt.itemsize > len(b):
            bad.append(f"array of {key} out of bounds")
        if prev_key is not None and not prev_key < key:
            bad.append(f"keys not strictly sorted: {prev_key!r} then {key!r}")
        prev_key = key
        items[key] = np.frombuffer(b, dtype=dt, count=al, offset=as_)
    return items, bad


def kas_write(items):
    keys = sorted(items)
    n = len(keys)
    off = 64 + 64 * n
    kpos = []
    for k in keys:
        kpos.append(off)
        off += len(k.encode())
    apos = []
    for k in keys:
        off += (-off) % 8
        apos.append(off)
        off += items[k].nbytes
    out = bytearray(off)
    out[0:8] = KAS_MAGIC
    struct.pack_into("<HHIQ", out, 8, 1, 2, n, off)
    for j, k in enumerate(keys):
        a = np.ascontiguousarray(items[k])
        kb = k.encode()
        struct.pack_into("<B7xQQQQ", out, 64 + 64 * j, KAS_CODE[a.dtype.str], kpos[j], len(kb), apos[j], a.size)
        out[kpos[j]:kpos[j] + len(kb)] = kb
        out[apos[j]:apos[j] + a.nbytes] = a.tobytes()
    return bytes(out)


def check_file_against_dict(ctx, what, b, tc):
    """The written bytes, parsed independently, hold exactly the dict encoding's columns."""
    ctx.count("file-structure")
    items, bad = kas_parse(b)
    for msg in bad:
        ctx.violation(f"{what}/kastore-structure", f"{what}: {msg}")
    d = tc.asdict()
    exp = {}

    def walk(prefix, x):
        if isinstance(x, dict):
            for k, v in x.items():
                walk(f"{prefix}/{k}" if prefix else k, v)
        elif isinstance(x, np.ndarray):
            exp[prefix] = (x.dtype.str, x.tobytes())
        elif isinstance(x, str):
            exp[prefix] = ("s", x.encode())
        elif isinstance(x, bytes):
            exp[prefix] = ("s", x)
        elif isinstance(x, float):
            exp[prefix] = ("<f8", struct.pack("<d", x))
    walk("", d)
    exp.pop("encoding_version", None)
    for k, (dt, by) in exp.items():
        if k not in items:
            # empty strings / schemas may be stored as zero-length arrays or omitted; both carry the same information
            if len(by) == 0:
                continue
            ctx.violation(f"{what}/file-key-missing/{k}", f"{what}: key {k} ({len(by)} bytes) not in the file")
            continue
        a = items[k]
        if a.tobytes() != by:
            ctx.violation(f"{what}/file-column-differs/{k}",
                          f"{what}: file key {k} holds {_short(a.tobytes())}, dict encoding {_short(by)}")
        elif dt != "s" and a.dtype.str != dt and not (a.dtype.itemsize == 1 and np.dtype(dt).itemsize == 1):
            ctx.violation(f"{what}/file-column-dtype/{k}", f"{what}: file key {k} dtype {a.dtype} dict {dt}")
    has_idx = "indexes/edge_insertion_order" in items
    if has_idx != tc.has_index():
        ctx.violation(f"{what}/file-index-presence", f"{what}: index in file {has_idx}, has_index()={tc.has_index()}")
    return items


# =============================================================================================
# objects
# =============================================================================================

class Obj:
    def __init__(self, rng, ctx, min_prov=0, want_ts=None, allow_big=True):
        self.m, self.opts = gen_arb(rng, min_prov=min_prov, allow_big=allow_big)
        self.tc = build_tc(self.m, self.opts)
        self.ts = None
        self.valid = False
        if self.opts["index"] != "arbitrary":     # a made-up index is storable data, but not a tree sequence
            try:
                build_tc(self.m, self.opts).tree_sequence()
                self.valid = True
            except (tskit.LibraryError, ValueError):
                pass
        use_ts = self.valid and (rng.random() < 0.5 if want_ts is None else want_ts)
        if use_ts:
            # tree_sequence() builds the index in the table collection it is called on (documented)
            self.ts = self.tc.tree_sequence()
        self.snap = Snap(self.tc)
        # tskit.load needs an indexed file ("Table collection must be indexed" otherwise)
        self.ts_loadable = self.valid and self.snap.has_index
        for t in self.m.tags:
            ctx.feature(t)
        ctx.feature("valid-ts" if self.valid else "invalid-ts")
        ctx.feature("index:" + ("yes" if self.snap.has_index else "no"))
        ctx.feature("refseq" if self.m.refseq else "no-refseq")
        if self.m.schemas:
            ctx.feature("table-schema")
        if any(not s.isascii() for s in self.m.schemas.values()):
            ctx.feature("non-ascii-schema")
        if not self.m.time_units.isascii():
            ctx.feature("non-ascii-time-units")
        if self.m.metadata:
            ctx.feature("ts-metadata")
        if self.opts["index"] == "arbitrary" and self.snap.has_index:
            ctx.feature("index:arbitrary")
        if self.opts["index"] == "ties" and self.snap.has_index:
            c = self.tc.copy()
            c.build_index()
            if not (np.array_equal(c.indexes.edge_insertion_order, self.tc.indexes.edge_insertion_order)
                    and np.array_equal(c.indexes.edge_removal_order, self.tc.indexes.edge_removal_order)):
                ctx.feature("index:valid-but-not-the-built-one" + (":tree-sequence" if self.valid else ""))
        check_build(ctx, self)

    @property
    def dumper(self):
        return self.ts if self.ts is not None else self.tc

    def nrows(self):
        return sum(len(getattr(self.m, n)) for n in RowModel.TABLES)


def check_build(ctx, o):
    """Trusted-base cross-check: what went in through add_row/set_columns comes out of the raw accessors."""
    ctx.count("build-readback")
    got = canon_model(from_tables(o.tc), schemas=False)
    exp = canon_model(o.m, schemas=False)
    if got != exp:
        k = diff_keys(got, exp)[0]
        ctx.violation(f"build/readback-differs/{k}", f"built {k}: got {_short(got[k])} expected {_short(exp[k])}")
    d = o.tc.asdict()
    for name, s in o.m.schemas.items():
        if d[name]["metadata_schema"] != s:
            ctx.violation("build/schema-text-differs", f"{name} schema {d[name]['metadata_schema']!r} set {s!r}")


# =============================================================================================
# case: stream
# =============================================================================================
INFLIGHT_LIMIT = 30000


def tc_of(x):
    return x.dump_tables() if isinstance(x, tskit.TreeSequence) else x


# name -> (callable, name of its file parameter)
LOADERS = {"tskit.load": (tskit.load, "file"),
           "TreeSequence.load": (tskit.TreeSequence.load, "file_or_path"),
           "TableCollection.load": (tskit.TableCollection.load, "file_or_path")}


def load_at_offset(ctx, rng, p, offset, o, what):
    """Object `o` starts at byte `offset` > 0 of the seekable multi-object file p: a handle positioned there loads exactly
    that object, with or without skip options (only the position AFTER a skip load is an EITHER zone)."""
    skip_tables, skip_refseq = rng.choice([(False, False), (True, False), (False, True), (True, True)])
    as_ts = rng.random() < 0.5 and (o.ts_loadable or skip_tables)
    lname = rng.choice(["tskit.load", "TreeSequence.load"]) if as_ts else "TableCollection.load"
    loader, kwname = LOADERS[lname]
    how = rng.choice(forms.HANDLE_FORMS)
    kw = {}
    if skip_tables or rng.random() < 0.3:
        kw["skip_tables"] = skip_tables
    if skip_refseq or rng.random() < 0.3:
        kw["skip_reference_sequence"] = skip_refseq
    ctx.count("load-at-offset")
    ctx.feature("at-offset:" + ("skip_tables" if skip_tables else "") + ("+skip_refseq" if skip_refseq else "")
                if (skip_tables or skip_refseq) else "at-offset:full")
    ok, got = guarded(ctx, f"{what}/{lname}/{how}", forms.load_form, loader, kwname, p, how, offset=offset, **kw)
    if not ok:
        return
    got = tc_of(got)
    if skip_tables or skip_refseq:
        check_skip(ctx, o, got, skip_tables, skip_refseq, as_ts, what=what)
    else:
        same(ctx, what, got, o.snap)


def run_stream(case, ctx, rng, tmp):
    nobj = rng.choice([1, 2, 2, 3, 3, 4, 5, 6])
    objs = [Obj(rng, ctx) for _ in range(nobj)]
    ctx.sig(tuple(repr(o.snap.cm) for o in objs), nontrivial=any(o.nrows() for o in objs))
    sizes = []
    for j, o in enumerate(objs):
        p = os.path.join(tmp, f"m{j}.trees")
        ok, _ = guarded(ctx, "dump-path", o.dumper.dump, p)
        if not ok:
            return
        sizes.append(os.path.getsize(p))
    transport = rng.choice(["file2", "file2", "file1", "pipe", "pipe", "socket", "socket"])
    if transport in ("pipe", "socket") and max(sizes) > INFLIGHT_LIMIT:
        transport = "file2"
    ctx.feature("transport:" + transport)
    ctx.feature(f"objects:{nobj}")
    if any(o.ts is not None for o in objs) and any(o.ts is None for o in objs):
        ctx.feature("interleaved-tc-ts")
    path = os.path.join(tmp, "stream.bin")
    sock = None
    if transport == "file2":
        # buffered (default) or raw unbuffered Python file objects
        raw = rng.random() < 0.3
        if raw:
            ctx.feature("stream-handle:raw")
        w = open(path, "wb", buffering=0) if raw and rng.random() < 0.7 else open(path, "wb")
        r = open(path, "rb", buffering=0) if raw and rng.random() < 0.7 else open(path, "rb")
    elif transport == "file1":
        w = r = open(path, "w+b")
    elif transport == "pipe":
        rfd, wfd = os.pipe()
        try:
            fcntl.fcntl(wfd, 1031, 1 << 20)  # F_SETPIPE_SZ
        except OSError:
            pass
        w, r = os.fdopen(wfd, "wb"), os.fdopen(rfd, "rb")
    else:
        sa, sb = socket.socketpair()
        for s in (sa, sb):
            s.setsockopt(socket.SOL_SOCKET, socket.SO_SNDBUF, 1 << 20)
            s.setsockopt(socket.SOL_SOCKET, socket.SO_RCVBUF, 1 << 20)
        w, r = sa.makefile("wb"), sb.makefile("rb")
        sock = (sa, sb)
    seekable = transport in ("file2", "file1")

    # ARGUMENT FORM of the stream, drawn per call: the Python handle, its integer descriptor (tskit must not close
    # it: the next call uses the same descriptor), and for reading from a socketpair the socket object itself.
    def warg():
        if rng.random() < 0.3:
            ctx.feature("stream-arg:fd")
            return w.fileno(), "fd"
        return w, "obj"

    def rarg():
        x = rng.random()
        if x < 0.3:
            ctx.feature("stream-arg:fd")
            return r.fileno(), "fd"
        if sock is not None and x < 0.5:
            ctx.feature("stream-arg:socket-object")
            return sock[1], "sockobj"
        return r, "obj"

    try:
        pending = list(range(nobj))
        fifo = []
        written = 0     # bytes dumped so far (by recorded sizes)
        consumed = 0    # bytes the loads should have consumed
        inflight = 0
        wtells = []
        while pending or fifo:
            can_dump = bool(pending) and (seekable or inflight + sizes[pending[0]] <= INFLIGHT_LIMIT)
            if transport == "file1":
                do_dump = bool(pending)      # one handle: write everything first, then rewind
            elif can_dump and fifo:
                do_dump = rng.random() < 0.5
            else:
                do_dump = can_dump
            if do_dump:
                j = pending.pop(0)
                ctx.count("stream-dump")
                wa, wform = warg()
                ok, _ = guarded(ctx, f"stream-dump/{transport}/{wform}", objs[j].dumper.dump, wa)
                if not ok:
                    return
                written += sizes[j]
                inflight += sizes[j]
                fifo.append(j)
                if seekable:
                    wtells.append(w.tell())
                    if w.tell() != written:
                        ctx.violation("stream/write-offset",
                                      f"{transport}: after dumping {len(wtells)} objects the write offset is {w.tell()}, "
                                      f"sizes of the same objects dumped alone sum to {written}")
                if transport == "file1" and not pending:
                    w.seek(0)
                continue
            j = fifo.pop(0)
            o = objs[j]
            as_ts = o.ts_loadable and rng.random() < 0.5
            lname = rng.choice(["tskit.load", "tskit.load", "TreeSequence.load"]) if as_ts else "TableCollection.load"
            loader = LOADERS[lname][0]
            ctx.count("stream-load")
            ra, rform = rarg()
            ok, got = guarded(ctx, f"stream-load/{transport}/{lname}/{rform}", loader, ra)
            if not ok:
                return
            consumed += sizes[j]
            inflight -= sizes[j]
            same(ctx, "stream-load", tc_of(got), o.snap)
            if seekable:
                ctx.count("stream-offset")
                if r.tell() != consumed:
                    ctx.violation("stream/read-offset",
                                  f"{transport}: after load #{j + 1} ({lname}) the stream offset is {r.tell()}, the "
                                  f"first {j + 1} objects occupy {consumed} bytes")
                # premature end-of-stream probe on a regular file whose reader has caught up with the writer
                if transport == "file2" and not fifo and pending and rng.random() < 0.5:
                    expect_eof(ctx, transport + "/caught-up", rarg()[0], rng, objs)
                    if r.tell() != consumed:
                        ctx.violation("stream/eof-moved-offset", f"EOFError load moved the offset to {r.tell()}")
        # end of stream
        if transport != "file1":
            w.close()
        if sock is not None:
            sock[0].close()
        expect_eof(ctx, transport, rarg()[0], rng, objs)
        expect_eof(ctx, transport, rarg()[0], rng, objs)
        if seekable:
            r.seek(0)
            b = r.read()
            bounds = kas_walk(b)
            ctx.count("stream-headers")
            exp = [0] + list(itertools.accumulate(sizes))
            if bounds != exp:
                ctx.violation("stream/header-sizes",
                              f"{transport}: object boundaries from the kastore headers {bounds}, expected {exp}")
            # a load that starts inside an object is a format error, never end-of-stream and never an object
            if len(b) > 64:
                pos = rng.choice([1, 8, 63, 64, len(b) - 1, rng.randrange(1, len(b))])
                if pos not in exp:
                    r.seek(pos)
                    expect_not_eof(ctx, "misaligned-start", r, rng)
            # an object in the MIDDLE of a seekable multi-object file, from a fresh handle positioned at its start,
            # with and without skip options
            if nobj >= 2 and bounds == exp:
                k = rng.randrange(1, nobj)
                load_at_offset(ctx, rng, path, exp[k], objs[k], "stream-load-at-offset")
    finally:
        for f in (w, r):
            try:
                f.close()
            except Exception:  # noqa: BLE001
                pass
        if sock is not None:
            for s in sock:
                s.close()
    # truncated object: distinct from end-of-stream
    b = open(os.path.join(tmp, "m0.trees"), "rb").read()
    cut = rng.choice([1, 7, 8, 63, 64, 65, len(b) - 1, rng.randrange(1, len(b))])
    p = os.path.join(tmp, "trunc.trees")
    with open(p, "wb") as f:
        f.write(b[:cut])
    expect_not_eof(ctx, "truncated", p, rng)
    with open(p, "wb") as f:
        pass
    expect_eof(ctx, "empty-file", p, rng, objs)


def expect_eof(ctx, what, f, rng, objs):
    lname = rng.choice(sorted(LOADERS))
    loader = LOADERS[lname][0]
    ctx.count("eof")
    try:
        got = loader(f)
    except EOFError:
        return
    except Exception as e:  # noqa: BLE001
        ctx.violation(f"eof/{lname}/raised-{type(e).__name__}",
                      f"{what}: load at end of stream raised {type(e).__name__}: {e} instead of EOFError")
        return
    ctx.violation(f"eof/{lname}/returned-object", f"{what}: load at end of stream returned {type(got).__name__}")


def expect_not_eof(ctx, what, f, rng):
    lname = rng.choice(sorted(LOADERS))
    loader = LOADERS[lname][0]
    ctx.count("not-eof")
    try:
        got = loader(f)
    except EOFError as e:
        ctx.violation(f"{what}/{lname}/eoferror", f"{what}: a malformed object was reported as end-of-stream ({e})")
        return
    except Exception:  # noqa: BLE001  EITHER: which error class
        return
    ctx.violation(f"{what}/{lname}/returned-object", f"{what}: malformed object loaded as {type(got).__name__}")


# =============================================================================================
# case: path
# =============================================================================================

# keys a store may lack (files written by earlier minor versions of the format): (where, key) -> kastore keys.
# The loader documents them as optional columns (c/tskit/tables.c, TSK_COL_OPTIONAL); absent means "default".
FILE_OPTIONAL = {
    ("top", "metadata"): ["metadata"], ("top", "metadata_schema"): ["metadata_schema"],
    ("top", "time_units"): ["time_units"],
    ("top", "reference_sequence"): ["reference_sequence/data", "reference_sequence/url",
                                    "reference_sequence/metadata", "reference_sequence/metadata_schema"],
    ("top", "indexes"): ["indexes/edge_insertion_order", "indexes/edge_removal_order"],
    ("edges", "metadata"): ["edges/metadata", "edges/metadata_offset"],
    ("migrations", "metadata"): ["migrations/metadata", "migrations/metadata_offset"],
    ("individuals", "parents"): ["individuals/parents", "individuals/parents_offset"],
    ("mutations", "time"): ["mutations/time"],
}
for _n in META_TABLES:
    FILE_OPTIONAL[(_n, "metadata_schema")] = [_n + "/metadata_schema"]


def run_path(case, ctx, rng, tmp):
    o = Obj(rng, ctx)
    ctx.sig(repr(o.snap.cm), nontrivial=o.nrows() > 0)
    p = os.path.join(tmp, "a.trees")
    how = rng.choice(forms.DUMP_FORMS + (("zlib", "zlib") if o.ts is not None else ()))
    ctx.feature("dump-target:" + how)
    ok, _ = guarded(ctx, "dump-" + how, forms.dump_form, o.dumper, p, how)
    if not ok:
        return
    b = open(p, "rb").read()
    items = check_file_against_dict(ctx, "dump", b, o.tc)
    # plain loads, every argument form in turn
    for lform in rng.sample(forms.LOAD_FORMS, 3):
        ctx.feature("load-source:" + lform)
        ok, got = guarded(ctx, f"path-load/TableCollection.load/{lform}", forms.load_form,
                          tskit.TableCollection.load, "file_or_path", p, lform)
        if ok:
            same(ctx, "path-load", got, o.snap)
            ctx.count("file-uuid")
            # "The UUID for the file this TableCollection is derived from, or None if not derived from a file"
            stored = items["uuid"].tobytes().decode() if items is not None and "uuid" in items else None
            if got.file_uuid != stored or o.tc.file_uuid is not None:
                ctx.violation("path-load/file-uuid", f"file_uuid of the loaded collection {got.file_uuid!r}, stored in the "
                              f"file {stored!r}; of the never-stored original {o.tc.file_uuid!r}")
    if o.ts_loadable:
        lname = rng.choice(["tskit.load", "TreeSequence.load"])
        lform = rng.choice(forms.LOAD_FORMS)
        ctx.feature("load-source:" + lform)
        ok, got = guarded(ctx, f"path-load/{lname}/{lform}", forms.load_form, LOADERS[lname][0], LOADERS[lname][1], p, lform)
        if ok:
            same(ctx, "path-load-ts", got.dump_tables(), o.snap)
            check_ts_surface(ctx, "path-load-ts", got, o.snap)
    # skip options (fresh handle / path only: the stream position afterwards is documented as unusable)
    for skip_tables, skip_refseq in ((True, False), (False, True), (True, True)):
        for as_ts in (False, True):
            if as_ts and not (o.ts_loadable or skip_tables):
                continue
            lname = rng.choice(["tskit.load", "TreeSequence.load"]) if as_ts else "TableCollection.load"
            kw = {"skip_tables": skip_tables, "skip_reference_sequence": skip_refseq}
            if rng.random() < 0.3:       # the False option left to its default
                kw = {k: v for k, v in kw.items() if v}
            lform = rng.choice(forms.LOAD_FORMS)
            ok, got = guarded(ctx, f"skip-load/{lname}/{lform}", forms.load_form, LOADERS[lname][0], LOADERS[lname][1],
                              p, lform, **kw)
            if not ok:
                continue
            got = tc_of(got)
            ctx.count("skip-load")
            check_skip(ctx, o, got, skip_tables, skip_refseq, as_ts)
    if items is not None:
        # the same content re-encoded with 64-bit offset columns (all of them, or an arbitrary subset: the width is
        # chosen per column) must load to the same tables
        allof = rng.random() < 0.4
        ctx.feature("offset64-file:" + ("all" if allof else "mixed"))
        it2 = {}
        for k, a in items.items():
            it2[k] = a.astype(np.uint64) if k.endswith("_offset") and (allof or rng.random() < 0.5) else a
        p64 = os.path.join(tmp, "o64.trees")
        with open(p64, "wb") as f:
            f.write(kas_write(it2))
        ok, got = guarded(ctx, "load-offset64-file", tskit.TableCollection.load, p64)
        if ok:
            same(ctx, "load-offset64-file", got, o.snap)
        # a store without one optional key (group) loads as the original with that part defaulted
        m0 = from_tables(o.tc)
        for where, key in rng.sample(sorted(FILE_OPTIONAL), 2):
            gone = [k for k in FILE_OPTIONAL[(where, key)] if k in items]
            if not gone:
                continue
            exp, exp_index = defaulted(m0, o.snap.has_index, where, key)
            it3 = {k: a for k, a in items.items() if k not in gone}
            pl = os.path.join(tmp, "legacy.trees")
            with open(pl, "wb") as f:
                f.write(kas_write(it3))
            ctx.count("file-optional-key")
            ctx.feature(f"file-without:{where}/{key}")
            ok, got = guarded(ctx, f"load-file-without/{where}/{key}", tskit.TableCollection.load, pl)
            if not ok:
                continue
            gotm, want = canon_model(from_tables(got)), canon_model(exp)
            if gotm != want:
                k = diff_keys(gotm, want)[0]
                ctx.violation(f"load-file-without/{where}/{key}/differs/{k}",
                              f"file without {gone}: {k} got {_short(gotm[k])} expected {_short(want[k])}")
            if got.has_index() != exp_index:
                ctx.violation(f"load-file-without/{where}/{key}/index-presence",
                              f"has_index()={got.has_index()} expected {exp_index}")
    # several objects in one file: a path load returns the first, a handle positioned at the second returns the second
    o2 = Obj(rng, ctx)
    with open(p, "ab") as f:
        ok2, _ = guarded(ctx, "dump-append", o2.dumper.dump, f if rng.random() < 0.6 else f.fileno())
    ok, got = guarded(ctx, "path-load-first", tskit.TableCollection.load, p)
    if ok:
        same(ctx, "path-load-first", got, o.snap)
    if ok2:
        load_at_offset(ctx, rng, p, len(b), o2, "path-load-second")
    # overwriting a path truncates it
    how2 = rng.choice(forms.PATH_FORMS)
    ok, _ = guarded(ctx, "dump-overwrite/" + how2, forms.dump_form, o2.dumper, p, how2)
    if ok:
        b2 = open(p, "rb").read()
        ctx.count("overwrite")
        if kas_walk(b2) is None or len(kas_walk(b2)) != 2:
            ctx.violation("dump-overwrite/leftover-bytes",
                          f"after overwriting a {len(b)}-byte file the path holds {len(b2)} bytes, header says "
                          f"{kas_size(b2)}")
        ok, got = guarded(ctx, "path-load/overwritten", tskit.TableCollection.load, p)
        if ok:
            same(ctx, "path-load-overwritten", got, o2.snap)


def check_ts_surface(ctx, what, ts, snap):
    """A loaded TreeSequence reports the stored content through its OWN accessors too (they are filled from the
    low-level tree sequence when it is constructed, independently of dump_tables())."""
    ctx.count("ts-surface")
    tb = snap.tb
    pairs = [("nodes_time", "/nodes/time"), ("nodes_flags", "/nodes/flags"), ("nodes_population", "/nodes/population"),
             ("nodes_individual", "/nodes/individual"), ("edges_left", "/edges/left"), ("edges_right", "/edges/right"),
             ("edges_parent", "/edges/parent"), ("edges_child", "/edges/child"), ("sites_position", "/sites/position"),
             ("mutations_site", "/mutations/site"), ("mutations_node", "/mutations/node"),
             ("mutations_parent", "/mutations/parent"), ("mutations_time", "/mutations/time"),
             ("migrations_left", "/migrations/left"), ("migrations_right", "/migrations/right"),
             ("migrations_node", "/migrations/node"), ("migrations_source", "/migrations/source"),
             ("migrations_dest", "/migrations/dest"), ("migrations_time", "/migrations/time"),
             ("individuals_flags", "/individuals/flags"),
             ("indexes_edge_insertion_order", "/indexes/edge_insertion_order"),
             ("indexes_edge_removal_order", "/indexes/edge_removal_order")]
    for attr, key in pairs:
        a = np.asarray(getattr(ts, attr))
        if key not in tb:
            continue
        if (str(a.dtype), a.tobytes()) != tb[key]:
            ctx.violation(f"{what}/ts-accessor/{attr}", f"{what}: ts.{attr} = {_short(a)} but the stored column {key} is "
                          f"{_short(np.frombuffer(tb[key][1], dtype=tb[key][0]))}")
    scal = {"sequence_length": ("/sequence_length", repr(ts.sequence_length)),
            "time_units": ("/time_units", repr(ts.time_units)),
            "metadata_schema": ("/metadata_schema", repr(repr(ts.metadata_schema)))}
    # (the dict encoding leaves out empty top-level metadata / schemas)
    dflt = {"/metadata": repr(b""), "/metadata_schema": repr("")}
    if tb.get("/metadata_schema", ("py", repr("")))[1] == repr(""):       # without a schema ts.metadata is the raw bytes
        scal["metadata"] = ("/metadata", repr(ts.metadata))
    for name, (key, got) in scal.items():
        want = tb.get(key, ("py", dflt.get(key)))[1]
        if got != want:
            ctx.violation(f"{what}/ts-accessor/{name}", f"{what}: ts.{name} is {got} but the stored value is {want}")
    has = any(k.startswith("/reference_sequence/") for k in tb)
    if bool(ts.has_reference_sequence()) != has:
        ctx.violation(f"{what}/ts-accessor/has_reference_sequence",
                      f"{what}: ts.has_reference_sequence() = {ts.has_reference_sequence()}, stored: {has}")
    elif has:
        rs = ts.reference_sequence
        for name, got in (("data", rs.data), ("url", rs.url), ("metadata", rs.metadata_bytes),
                          ("metadata_schema", repr(rs.metadata_schema))):
            want = tb.get("/reference_sequence/" + name, ("py", repr(b"" if name == "metadata" else "")))[1]
            if repr(got) != want:
                ctx.violation(f"{what}/ts-accessor/reference_sequence.{name}",
                              f"{what}: ts.reference_sequence.{name} is {got!r}, stored {want}")
    counts = {"num_nodes": "/nodes/flags", "num_edges": "/edges/left", "num_sites": "/sites/position",
              "num_mutations": "/mutations/site", "num_migrations": "/migrations/left",
              "num_individuals": "/individuals/flags"}
    for attr, key in counts.items():
        n = len(np.frombuffer(tb[key][1], dtype=tb[key][0]))
        if getattr(ts, attr) != n:
            ctx.violation(f"{what}/ts-accessor/{attr}", f"{what}: ts.{attr} = {getattr(ts, attr)}, stored rows {n}")
    npop = len(np.frombuffer(tb["/populations/metadata_offset"][1], dtype=tb["/populations/metadata_offset"][0])) - 1
    nprov = len(np.frombuffer(tb["/provenances/record_offset"][1], dtype=tb["/provenances/record_offset"][0])) - 1
    if ts.num_populations != npop or ts.num_provenances != nprov:
        ctx.violation(f"{what}/ts-accessor/num_populations-provenances",
                      f"{what}: ts.num_populations={ts.num_populations} ({npop}), num_provenances={ts.num_provenances} ({nprov})")


def check_skip(ctx, o, got, skip_tables, skip_refseq, as_ts, what="skip-load"):
    what = what + ("/tables" if skip_tables else "") + ("/refseq" if skip_refseq else "")
    a, b = tb_dict(got), dict(o.snap.tb)
    if skip_refseq:
        a, b = strip(a, ["/reference_sequence"]), strip(b, ["/reference_sequence"])
        if got.has_reference_sequence():
            ctx.violation(f"{what}/refseq-present", "skip_reference_sequence load has a reference sequence")
    if skip_tables:
        names = ["/" + n for n in RowModel.TABLES] + ["/indexes"]
        a2 = strip(a, names)
        b2 = strip(b, names)
        if a2 != b2:
            k = diff_keys(a2, b2)[0]
            ctx.violation(f"{what}/top-level-differs{k}", f"{what}: {k}: got {_short(a2.get(k))} expected {_short(b2.get(k))}")
        for n in RowModel.TABLES:
            t = getattr(got, n)
            if t.num_rows != 0:
                ctx.violation(f"{what}/rows-present", f"{what}: table {n} has {t.num_rows} rows")
            if n != "provenances" and repr(t.metadata_schema) != "":
                ctx.violation(f"{what}/schema-present", f"{what}: table {n} has schema {t.metadata_schema!r}")
    else:
        if a != b:
            k = diff_keys(a, b)[0]
            ctx.violation(f"{what}/differs{k}", f"{what}: {k}: got {_short(a.get(k))} expected {_short(b.get(k))}")


# =============================================================================================
# case: interchange
# =============================================================================================
OPTIONAL = {
    "nodes": ["population", "individual", "metadata", "metadata_schema"],
    "edges": ["metadata", "metadata_schema"],
    "sites": ["metadata", "metadata_schema"],
    "mutations": ["parent", "time", "metadata", "metadata_schema"],
    "individuals": ["location", "parents", "metadata", "metadata_schema"],
    "migrations": ["metadata", "metadata_schema"],
    "populations": ["metadata_schema"],
}
REQUIRED_KEYS = {
    "nodes": ["flags", "time"], "edges": ["left", "right", "parent", "child"],
    "sites": ["position", "ancestral_state", "ancestral_state_offset"],
    "mutations": ["site", "node", "derived_state", "derived_state_offset"],
    "individuals": ["flags"], "migrations": ["left", "right", "node", "source", "dest", "time"],
    "populations": ["metadata", "metadata_offset"],
    "provenances": ["timestamp", "timestamp_offset", "record", "record_offset"],
}


def table_bytes(t):
    """Every column of a table, plus the schema text AS STORED (low-level accessor): the high-level metadata_schema
    attribute is the parsed schema, whose repr() is tskit's canonical re-serialisation, not the stored bytes."""
    out = {}
    for k, v in t.asdict().items():
        out[k] = (str(v.dtype), v.tobytes()) if isinstance(v, np.ndarray) else ("py", repr(v))
    if hasattr(t.ll_table, "metadata_schema"):
        out["metadata_schema(stored)"] = ("py", repr(t.ll_table.metadata_schema))
    return out


def via_lwt(d, force64=False):
    """dict -> _tskit.LightweightTableCollection (the class other extension modules embed to exchange tables with
    tskit) -> dict -> TableCollection."""
    lwt = _tskit.LightweightTableCollection()
    lwt.fromdict(d)
    d2 = lwt.asdict(force_offset_64=True) if force64 else lwt.asdict()
    for name in RowModel.TABLES:     # the offset width asked for (no column here needs 64 bits)
        for k, v in d2[name].items():
            if k.endswith("_offset") and v.dtype != (np.uint64 if force64 else np.uint32):
                raise AssertionError(f"LightweightTableCollection.asdict(force_offset_64={force64}): {name}/{k} is {v.dtype}")
    return tskit.TableCollection.fromdict(d2)


def dict_receiver(ctx, rng):
    if rng.random() < 0.35:
        ctx.feature("dict-receiver:lwt")
        return via_lwt
    ctx.feature("dict-receiver:TableCollection.fromdict")
    return tskit.TableCollection.fromdict


def check_stale_index(ctx, o, rng, tmp):
    """A collection whose index went STALE because the number of edge rows changed after it was built (has_index() is
    then False although the old arrays are still allocated) is an ordinary object: it must dump and load back equal,
    without an index, through every route."""
    tc = o.tc.copy()
    try:
        tc.build_index()
    except tskit.LibraryError:
        return
    ne = tc.edges.num_rows
    how = rng.choice(["append-row", "append-row", "truncate-1", "truncate-all", "extend-self", "keep-rows"])
    e = tc.edges
    if how == "append-row":
        if tc.nodes.num_rows == 0:
            return
        # through the columns: row metadata is raw bytes here, whatever the schema says (add_row would validate)
        e.append_columns(left=np.array([0.0]), right=np.array([float(tc.sequence_length)]),
                         parent=np.array([0], dtype=np.int32), child=np.array([0], dtype=np.int32),
                         metadata=np.zeros(0, dtype=np.int8), metadata_offset=np.zeros(2, dtype=np.uint64))
    elif how == "truncate-1" and ne > 0:
        e.truncate(ne - 1)
    elif how == "truncate-all" and ne > 0:
        e.truncate(0)
    elif how == "extend-self" and ne > 0:
        e.append_columns(left=e.left.copy(), right=e.right.copy(), parent=e.parent.copy(), child=e.child.copy(),
                         metadata=e.metadata.copy(), metadata_offset=e.metadata_offset.copy())
    elif how == "keep-rows" and ne > 1:
        e.keep_rows(np.arange(ne) % 2 == 0)
    else:
        return
    ctx.count("stale-index-roundtrip")
    ctx.feature("stale-index:" + how)
    if tc.has_index():
        ctx.violation("stale-index/has_index-true", f"has_index() is True after the edge table went from {ne} to "
                      f"{tc.edges.num_rows} rows ({how}) without a rebuild")
        return
    snap = Snap(tc)
    p = os.path.join(tmp, "stale.trees")
    route = rng.choice(["path", "fileobj", "stream-middle"])
    try:
        if route == "path":
            tc.dump(p)
        elif route == "fileobj":
            with open(p, "wb") as f:
                tc.dump(f)
        else:
            with open(p, "wb") as f:
                o.tc.dump(f)
                tc.dump(f)
                o.tc.dump(f)
    except Exception as ex:  # noqa: BLE001
        ctx.violation(f"stale-index/dump-raised-{type(ex).__name__}", f"dump ({route}) of a collection with a stale index ({how}) "
                      f"raised {type(ex).__name__}: {ex}")
        return
    try:
        if route == "stream-middle":
            with open(p, "rb") as f:
                tskit.TableCollection.load(f)
                back = tskit.TableCollection.load(f)
                third = tskit.TableCollection.load(f)
            same(ctx, "stale-index/stream-third", third, o.snap)
        else:
            back = tskit.TableCollection.load(p)
    except Exception as ex:  # noqa: BLE001
        ctx.violation(f"stale-index/load-raised-{type(ex).__name__}", f"a collection whose index went stale ({how}: {ne} -> "
                      f"{tc.edges.num_rows} edge rows) was dumped ({route}) but cannot be loaded back: {type(ex).__name__}: {ex}")
        return
    same(ctx, "stale-index/" + route, back, snap)
    if back.has_index():
        ctx.violation("stale-index/index-appeared", f"loaded object has an index although the dumped one had none ({how}, {route})")


def run_interchange(case, ctx, rng, tmp):
    o = Obj(rng, ctx, want_ts=None)
    tc = o.tc
    ctx.sig(repr(o.snap.cm), nontrivial=o.nrows() > 0)
    check_stale_index(ctx, o, rng, tmp)
    # copy
    ok, c = guarded(ctx, "copy", tc.copy)
    if ok:
        same(ctx, "copy", c, o.snap)
        # independence
        c.nodes.append_columns(flags=np.array([1], dtype=np.uint32), time=np.array([3.5]))
        c.provenances.add_row("x", timestamp="y")
        c.time_units = "changed"
        c.sequence_length = c.sequence_length * 2
        c.reference_sequence.data = "TTTT"
        c.drop_index()
        same(ctx, "copy-independent", tc, o.snap)
    # the copy module goes through __reduce_ex__ -> __getstate__/__setstate__
    for cname, fn in (("copy.copy", copymod.copy), ("copy.deepcopy", copymod.deepcopy)):
        ok, c = guarded(ctx, cname, fn, tc)
        if ok:
            same(ctx, cname, c, o.snap)
    # the index arrays read through the `indexes` property and assigned to a collection that has none
    ok, c = guarded(ctx, "copy", tc.copy)
    if ok:
        c.drop_index()
        ok, _ = guarded(ctx, "indexes-property", setattr, c, "indexes", tc.indexes)
        if ok:
            same(ctx, "indexes-property", c, o.snap)
    # pickle
    for proto in rng.sample(range(0, pickle.HIGHEST_PROTOCOL + 1), 3):
        ctx.feature(f"pickle-protocol:{proto}")
        ok, s = guarded(ctx, "pickle-dumps", pickle.dumps, tc, proto)
        if not ok:
            continue
        ok, c = guarded(ctx, "pickle-loads", pickle.loads, s)
        if ok:
            same(ctx, "pickle", c, o.snap)
    # dict
    ok, d = guarded(ctx, "asdict", tc.asdict)
    if ok:
        ok, c = guarded(ctx, "fromdict", tskit.TableCollection.fromdict, d)
        if ok:
            same(ctx, "fromdict", c, o.snap)
            # the dict holds copies: scribbling over it changes neither the source nor the collection made from it
            for name in RowModel.TABLES:
                for v in d[name].values():
                    if isinstance(v, np.ndarray) and v.flags.writeable and v.size:
                        v[...] = 1
            same(ctx, "dict-independent", c, o.snap)
            same(ctx, "dict-independent", tc, o.snap)
            ok, d = guarded(ctx, "asdict", tc.asdict)
    if ok:
        check_dict_shape(ctx, tc, d, False)
    ok, d64 = guarded(ctx, "asdict64", tc.asdict, force_offset_64=True)
    if ok:
        check_dict_shape(ctx, tc, d64, True)
        ok, c = guarded(ctx, "fromdict64", tskit.TableCollection.fromdict, d64)
        if ok:
            same(ctx, "fromdict-offset64", c, o.snap)
    # the LightweightTableCollection end of the interchange, from either offset width, to either offset width
    ok, d = guarded(ctx, "asdict", tc.asdict, **rng.choice([{}, {"force_offset_64": False}, {"force_offset_64": True}]))
    if ok:
        f64 = rng.random() < 0.5
        ok, c = guarded(ctx, "lwt-roundtrip", via_lwt, d, f64)
        if ok:
            same(ctx, "lwt-roundtrip", c, o.snap)
        # "sequence_length" only has to be a number: a numpy scalar, or an int when the length is integral
        L = d["sequence_length"]
        alt = [np.float64(L)] + ([int(L)] if math.isfinite(L) and L == int(L) and L < 2 ** 53 else [])
        d2 = dict(d)
        d2["sequence_length"] = rng.choice(alt)
        ctx.feature("dict-sequence_length:" + type(d2["sequence_length"]).__name__)
        ok, c = guarded(ctx, "fromdict-numeric-length", dict_receiver(ctx, rng), d2)
        if ok:
            same(ctx, "fromdict-numeric-length", c, o.snap)
    check_optional_keys(ctx, rng, o)
    # per table
    for name in RowModel.TABLES:
        t = getattr(tc, name)
        exp = table_bytes(t)
        ok, c = guarded(ctx, f"table-copy/{name}", t.copy)
        if ok:
            ctx.count("table-copy")
            if table_bytes(c) != exp:
                k = diff_keys(table_bytes(c), exp)[0]
                ctx.violation(f"table-copy/{name}/differs/{k}", f"{name}.copy(): {k} is {_short(table_bytes(c).get(k))}, "
                              f"original {_short(exp.get(k))}; copy.equals(original) = {c.equals(t)}")
        proto = rng.randrange(0, pickle.HIGHEST_PROTOCOL + 1)
        ok, c = guarded(ctx, f"table-pickle/{name}", lambda: pickle.loads(pickle.dumps(t, proto)))
        if ok:
            ctx.count("table-pickle")
            if table_bytes(c) != exp:
                k = diff_keys(table_bytes(c), exp)[0]
                ctx.violation(f"table-pickle/{name}/differs/{k}", f"pickled {name}: {k} is "
                              f"{_short(table_bytes(c).get(k))}, original {_short(exp.get(k))}; equals() = {c.equals(t)}")
        cname, fn = rng.choice([("copy.copy", copymod.copy), ("copy.deepcopy", copymod.deepcopy)])
        ok, c = guarded(ctx, f"table-{cname}/{name}", fn, t)
        if ok:
            ctx.count("table-copy-module")
            if table_bytes(c) != exp or type(c) is not type(t):
                k = (diff_keys(table_bytes(c), exp) or ["type"])[0]
                ctx.violation(f"table-{cname}/{name}/differs/{k}", f"{cname}({name}): {k} is "
                              f"{_short(table_bytes(c).get(k))}, original {_short(exp.get(k))}; equals() = {c.equals(t)}")
            elif not t.equals(c) or not c.equals(t):
                ctx.violation(f"table-{cname}/{name}/not-equal", f"{cname}({name}) is byte-identical but equals() is False")
    # tree sequence level
    if o.valid:
        tcx = build_tc(o.m, o.opts)
        ts = tcx.tree_sequence()          # builds the index in tcx if missing
        snapx = Snap(tcx)
        ctx.count("ts-level")
        ok, dt = guarded(ctx, "dump_tables", ts.dump_tables)
        if ok:
            same(ctx, "dump_tables", dt, snapx)
            # a dumped copy is independent of the tree sequence
            dt.nodes.append_columns(flags=np.array([0], dtype=np.uint32), time=np.array([99.0]))
            dt.edges.clear()
            dt.metadata_schema = tskit.MetadataSchema(None)
            ok, dt2 = guarded(ctx, "dump_tables", ts.dump_tables)
            if ok:
                same(ctx, "dump_tables-independent", dt2, snapx)
        ok, tt = guarded(ctx, "ts.tables", lambda: ts.tables)
        if ok:
            same(ctx, "ts.tables", tt, snapx)
        for bi in (False, True):
            ok, ts2 = guarded(ctx, "load_tables", tskit.TreeSequence.load_tables, tcx, build_indexes=bi)
            if ok:
                # build_indexes=True is documented to rebuild the index: a valid index with another tie order is then
                # legitimately replaced by the built one
                rebuilt = bi and o.opts["index"] == "ties"
                same(ctx, "load_tables", ts2.dump_tables(), snapx, drop=("/indexes",) if rebuilt else ())
        p = os.path.join(tmp, "ts.trees")
        ok, _ = guarded(ctx, "ts-dump", ts.dump, p)
        if ok:
            ok, ts2 = guarded(ctx, "ts-load", tskit.load, p)
            if ok:
                same(ctx, "ts-dump-load", ts2.dump_tables(), snapx)
                check_ts_surface(ctx, "ts-dump-load", ts2, snapx)
                ok, ts3 = guarded(ctx, "ts-load", tskit.TreeSequence.load, p)
                if ok:
                    same(ctx, "ts-dump-load", ts3.dump_tables(), snapx)
        proto = rng.randrange(0, pickle.HIGHEST_PROTOCOL + 1)
        ok, ts2 = guarded(ctx, "ts-pickle", lambda: pickle.loads(pickle.dumps(ts, proto)))
        if ok:
            same(ctx, "ts-pickle", ts2.dump_tables(), snapx)
            check_ts_surface(ctx, "ts-pickle", ts2, snapx)
        cname, fn = rng.choice([("copy.copy", copymod.copy), ("copy.deepcopy", copymod.deepcopy)])
        ok, ts2 = guarded(ctx, "ts-" + cname, fn, ts)
        if ok:
            same(ctx, "ts-" + cname, ts2.dump_tables(), snapx)
        # tree_sequence() itself must not alter anything but the index
        same(ctx, "tree_sequence-leaves-tables", tcx, o.snap, drop=("/indexes",))


def check_dict_shape(ctx, tc, d, force64):
    ctx.count("dict-shape")
    for name in RowModel.TABLES:
        for k, v in d[name].items():
            if k.endswith("_offset"):
                want = np.uint64 if force64 else np.uint32
                if v.dtype != want:
                    ctx.violation("asdict/offset-dtype", f"asdict(force_offset_64={force64}) {name}/{k} dtype {v.dtype}")
    if ("indexes" in d and "edge_insertion_order" in d["indexes"]) != tc.has_index():
        ctx.violation("asdict/index-presence", f"asdict() indexes {d.get('indexes')} but has_index()={tc.has_index()}")
    if d["sequence_length"] != tc.sequence_length:
        ctx.violation("asdict/sequence-length", f"{d['sequence_length']} vs {tc.sequence_length}")


def defaulted(m0, has_index, where, key):
    """(model, index presence) of the collection m0 with the optional part (where, key) at its documented default:
    empty metadata / schema, time_units "unknown", no reference sequence, no index, NULL ids, unknown mutation
    times, empty location / parents."""
    exp = m0.copy()
    if where == "top":
        if key == "metadata":
            exp.metadata = b""
        elif key == "metadata_schema":
            exp.metadata_schema = ""
        elif key == "time_units":
            exp.time_units = "unknown"
        elif key == "reference_sequence":
            exp.refseq = None
        elif key == "indexes":
            has_index = False
        return exp, has_index
    rows = getattr(exp, where)
    if key == "metadata_schema":
        exp.schemas.pop(where, None)
    else:
        j = [c for c, _ in SPEC[where]].index(key)
        dflt = b"" if key == "metadata" else () if key in ("location", "parents") else None if key == "time" else -1
        setattr(exp, where, [r[:j] + (dflt,) + r[j + 1:] for r in rows])
    return exp, has_index


def check_optional_keys(ctx, rng, o):
    """fromdict of the dict encoding with ONE optional key (group) removed - or present with the value None, which the
    interchange format treats the same - == the original with that part defaulted."""
    d = o.tc.asdict()
    m0 = from_tables(o.tc)
    choices = [("top", k) for k in ("metadata", "metadata_schema", "time_units", "reference_sequence", "indexes",
                                    "encoding_version")]
    for name, ks in OPTIONAL.items():
        choices += [(name, k) for k in ks]
    for where, key in rng.sample(choices, 4):
        d2 = {k: (dict(v) if isinstance(v, dict) else v) for k, v in d.items()}
        as_none = rng.random() < 0.5
        if where == "top":
            if key not in d2:
                continue
            if as_none:
                d2[key] = None
            else:
                del d2[key]
        else:
            t = d2[where]
            gone = [key] + ([key + "_offset"] if key in ("metadata", "location", "parents") else [])
            for k in gone:
                if as_none:
                    t[k] = None
                else:
                    t.pop(k, None)
        exp, exp_index = defaulted(m0, o.snap.has_index, where, key)
        ctx.count("fromdict-optional-key")
        ctx.feature(f"optional-key:{where}/{key}")
        ctx.feature("optional-key-form:" + ("None" if as_none else "absent"))
        # the receiving end: TableCollection.fromdict or the LightweightTableCollection other extension modules use
        ok, c = guarded(ctx, f"fromdict-without/{where}/{key}", dict_receiver(ctx, rng), d2)
        if not ok:
            continue
        got, want = canon_model(from_tables(c)), canon_model(exp)
        if got != want:
            k = diff_keys(got, want)[0]
            ctx.violation(f"fromdict-without/{where}/{key}/differs/{k}",
                          f"fromdict {'with None for' if as_none else 'without'} {where}/{key}: {k} got {_short(got[k])} "
                          f"expected {_short(want[k])}")
        if c.has_index() != exp_index:
            ctx.violation(f"fromdict-without/{where}/{key}/index-presence",
                          f"has_index()={c.has_index()} expected {exp_index}")
    # inside the optional groups: a reference sequence / index dict with single members None or absent
    if "reference_sequence" in d:
        d2 = dict(d)
        rs = dict(d["reference_sequence"])
        key = rng.choice(["data", "url", "metadata", "metadata_schema"])
        if rng.random() < 0.5:
            rs[key] = None
        else:
            rs.pop(key, None)
        d2["reference_sequence"] = rs
        exp = m0.copy()
        exp.refseq = dict(exp.refseq)
        exp.refseq[key] = b"" if key == "metadata" else ""
        ctx.count("fromdict-optional-key")
        ctx.feature(f"optional-key:reference_sequence/{key}")
        ok, c = guarded(ctx, f"fromdict-without/reference_sequence/{key}", dict_receiver(ctx, rng), d2)
        if ok:
            got, want = canon_model(from_tables(c)), canon_model(exp)
            if got != want:
                k = diff_keys(got, want)[0]
                ctx.violation(f"fromdict-without/reference_sequence/{key}/differs/{k}",
                              f"fromdict without reference_sequence/{key}: {k} got {_short(got[k])} expected "
                              f"{_short(want[k])}")
    if rng.random() < 0.3:
        d2 = dict(d)
        d2["indexes"] = rng.choice([{}, {"edge_insertion_order": None, "edge_removal_order": None}])
        ctx.count("fromdict-optional-key")
        ctx.feature("optional-key:indexes/members")
        ok, c = guarded(ctx, "fromdict-without/indexes/members", dict_receiver(ctx, rng), d2)
        if ok:
            same(ctx, "fromdict-without/indexes/members", c, o.snap, drop=("/indexes",))
            if c.has_index():
                ctx.violation("fromdict-without/indexes/members/index-presence", "an index appeared from an empty dict")
    # a required key removed must be refused (EITHER: which exception), never crash or invent data
    name = rng.choice(sorted(REQUIRED_KEYS))
    key = rng.choice(REQUIRED_KEYS[name])
    d2 = {k: (dict(v) if isinstance(v, dict) else v) for k, v in d.items()}
    del d2[name][key]
    if rng.random() < 0.4:      # None in place of a required key is refused as well
        d2[name][key] = None
    ctx.count("fromdict-required-key")
    try:
        c = tskit.TableCollection.fromdict(d2)
    except Exception:  # noqa: BLE001
        pass
    else:
        ctx.violation(f"fromdict-without-required/{name}/{key}/accepted",
                      f"fromdict accepted a dict without required {name}/{key}: {c.table_name_map[name].num_rows} rows")


# =============================================================================================
# case: equality
# =============================================================================================
# class -> flags that make equals() disregard it (documented in TableCollection.equals)
COVER = {
    "row_metadata": {"ignore_metadata", "ignore_tables"},
    "table_schema": {"ignore_metadata", "ignore_tables"},
    "ts_metadata": {"ignore_metadata", "ignore_ts_metadata"},
    "ts_schema": {"ignore_metadata", "ignore_ts_metadata"},
    "prov_record": {"ignore_provenance", "ignore_tables"},
    "prov_timestamp": {"ignore_provenance", "ignore_timestamps", "ignore_tables"},
    "table_data": {"ignore_tables"},
    "table_float_bits": {"ignore_tables"},
    "refseq_data": {"ignore_reference_sequence"},
    "refseq_url": {"ignore_reference_sequence"},
    "refseq_metadata": {"ignore_reference_sequence", "ignore_metadata"},
    "refseq_schema": {"ignore_reference_sequence", "ignore_metadata"},
    "time_units": set(),
    "sequence_length": set(),
    "index": None,  # never considered
    # the same DECODED value / parsed schema in another spelling (whitespace, key order): equals() is documented on the
    # stored bytes, so these are differences like any other - and assert_equals(), which looks at decoded values first,
    # must still agree with equals() under every flag set
    "ts_metadata_respelled": {"ignore_metadata", "ignore_ts_metadata"},
    "ts_schema_respelled": {"ignore_metadata", "ignore_ts_metadata"},
    "refseq_metadata_respelled": {"ignore_reference_sequence", "ignore_metadata"},
    "refseq_schema_respelled": {"ignore_reference_sequence", "ignore_metadata"},
    "table_schema_respelled": {"ignore_metadata", "ignore_tables"},
}


def respell_json(text):
    """Another spelling of the same JSON document (keys reversed, indented); None when it would be identical."""
    try:
        d = json.loads(text)
    except ValueError:
        return None
    if isinstance(d, dict):
        d = dict(reversed(list(d.items())))
    out = json.dumps(d, indent=1, ensure_ascii=False)
    if out == text:
        out = " " + out
    return out if json.loads(out) == json.loads(text) and out != text else None


def other_json_schema(s):
    d = json.loads(s) if s else {"codec": "json"}
    d["description"] = d.get("description", "") + "'"
    return tskit.MetadataSchema(d)


def new_metadata_value(schema_str, old, rng, raw=False):
    """A value different from the `old` bytes and valid under the schema: the object to hand to the metadata setter,
    or (raw=True) its encoded bytes for packset_metadata."""
    if not schema_str:
        return old + bytes([rng.choice([0, 255, 65])])
    d = json.loads(schema_str)
    if d["codec"] == "struct":
        v = struct.unpack("<i", old)[0] if len(old) == 4 else 0
        v = (v + 1) % 1000
        return struct.pack("<i", v) if raw else {"a": v}
    cur = json.loads(old.decode()) if old else {}
    if not isinstance(cur, dict):
        cur = {}
    cur = dict(cur)
    cur["zz"] = cur.get("zz", 0) + 1 if isinstance(cur.get("zz", 0), int) else 1
    return json.dumps(cur).encode() if raw else cur


def repartition(vals, rng):
    """Same flat content, different row boundaries: the last item of one entry moves to the front of the next.
    (Only the offset column changes.)  None when no entry followed by another has an item."""
    cands = [i for i in range(len(vals) - 1) if len(vals[i]) >= 1]
    if not cands:
        return None
    i = rng.choice(cands)
    out = list(vals)
    out[i], out[i + 1] = vals[i][:-1], vals[i][-1:] + vals[i + 1]
    return out


NOTES = []      # feature tags left by perturb() for the caller to register


def perturb(kind, b, m, rng):
    """Apply one perturbation of class `kind` to table collection b (built from model m).  Returns the name of the
    table touched (or True), or None when not applicable."""
    if kind == "row_metadata":
        cands = [n for n in META_TABLES if len(getattr(m, n))]
        if not cands:
            return None
        name = rng.choice(cands)
        t = getattr(b, name)
        j = rng.randrange(t.num_rows)
        mds = from_rows_metadata(t)
        rp = repartition(mds, rng) if (not m.schemas.get(name) and rng.random() < 0.35) else None
        if rp is not None:
            mds = rp
        else:
            mds[j] = new_metadata_value(m.schemas.get(name, ""), mds[j], rng, raw=True)
        t.packset_metadata(mds)
        return name
    if kind == "table_schema":
        cands = [n for n in META_TABLES
                 if (m.schemas.get(n) and json.loads(m.schemas[n])["codec"] in ("json", "struct"))
                 or (not m.schemas.get(n) and all(r[-1] == b"" for r in getattr(m, n)))]
        if not cands:
            return None
        name = rng.choice(cands)
        t = getattr(b, name)
        s = m.schemas.get(name, "")
        if s and json.loads(s)["codec"] == "struct":
            t.metadata_schema = tskit.MetadataSchema(json.loads(STRUCT_SCHEMA2))
        else:
            t.metadata_schema = other_json_schema(s)
        return name
    if kind == "ts_metadata":
        b.metadata = new_metadata_value(m.metadata_schema, m.metadata, rng)
        return True
    if kind == "ts_schema":
        s = m.metadata_schema
        if s and json.loads(s)["codec"] == "struct":
            b.metadata_schema = tskit.MetadataSchema(json.loads(STRUCT_SCHEMA2))
        elif s or not m.metadata:
            b.metadata_schema = other_json_schema(s)
        else:
            return None
        return True
    if kind == "prov_record":
        t = b.provenances
        if t.num_rows and rng.random() < 0.7:
            recs = [r[1] for r in m.provenances]
            rp = repartition(recs, rng) if rng.random() < 0.35 else None
            if rp is not None:
                recs = rp
            else:
                recs[rng.randrange(len(recs))] += "!"
            t.packset_record(recs)
        else:
            t.add_row("extra", timestamp="2000-01-01T00:00:00")
        return "provenances"
    if kind == "prov_timestamp":
        t = b.provenances
        if not t.num_rows:
            return None
        tss = [r[0] for r in m.provenances]
        rp = repartition(tss, rng) if rng.random() < 0.35 else None
        if rp is not None:
            tss = rp
        else:
            tss[rng.randrange(len(tss))] += "Z"
        t.packset_timestamp(tss)
        return "provenances"
    if kind == "table_data":
        name = rng.choice(META_TABLES)
        t = getattr(b, name)
        rows = getattr(m, name)
        cols = [(j, c, k) for j, (c, k) in enumerate(SPEC[name]) if c != "metadata"]
        r = rng.random()
        if not rows or not cols or r < 0.2:
            # the extra row carries codec-valid metadata (a copy of an existing entry, or a fresh valid value)
            md = rows[0][-1] if rows else new_metadata_value(m.schemas.get(name, ""), b"", rng, raw=True)
            t.append_columns(**columns_from_rows(name, [junk_row(rng, name, False)[:-1] + (md,)]))
            return name
        if r < 0.35:
            t.truncate(len(rows) - 1)
            return name
        j, col, k = rng.choice(cols)
        i = rng.randrange(len(rows))
        d = t.asdict()
        if k in ("u4", "i4"):
            a = d[col].copy()
            a[i] = a[i] ^ 1 if a[i] >= 0 else 0
            d[col] = a
        elif k in ("f8", "T"):
            a = d[col].copy()
            a[i] = 0.25 if (not np.isfinite(a[i]) or a[i] != 0.25 and abs(a[i]) > 1e300) else (
                a[i] + 1.0 if a[i] + 1.0 != a[i] else 0.25)
            if a[i:i + 1].tobytes() == d[col][i:i + 1].tobytes():
                a[i] = 0.75
            d[col] = a
        else:
            vals = [r_[j] for r_ in rows]
            rp = repartition(vals, rng) if rng.random() < 0.5 else None
            if rp is not None:
                vals = rp
            elif k == "S":
                vals[i] = vals[i] + "G"
            elif k == "Rf8":
                vals[i] = tuple(vals[i]) + (1.5,)
            else:
                vals[i] = tuple(vals[i]) + (0,)
            d[col], d[col + "_offset"] = pack_ragged(k, vals)
        t.set_columns(**d)
        return name
    if kind == "table_float_bits":
        # "byte-wise identical": -0.0 is not 0.0, and a NaN with another payload (e.g. the unknown-time marker against
        # the standard NaN) is another value.  Applicable whenever some table holds a zero or a NaN (nearly always:
        # sample times, left = 0, unknown mutation times).
        spots = [(n_, c_, i_) for n_ in META_TABLES for j_, (c_, k_) in enumerate(SPEC[n_]) if k_ in ("f8", "T")
                 for i_, row in enumerate(getattr(m, n_))
                 if row[j_] is None or row[j_] == 0.0 or row[j_] != row[j_]]
        if not spots:
            return None
        nans = [sp for sp in spots if getattr(m, sp[0])[sp[2]][[c for c, _ in SPEC[sp[0]]].index(sp[1])] != 0.0]
        name, col, i = rng.choice(nans if nans and rng.random() < 0.5 else spots)
        t = getattr(b, name)
        d = t.asdict()
        a = d[col].copy()
        bits = a.view(np.uint64)
        bits[i] ^= np.uint64(1 << 63) if a[i] == 0.0 else np.uint64(1)
        d[col] = a
        t.set_columns(**d)
        NOTES.append("perturb:float-bits:" + ("zero-sign" if a[i] == 0.0 else "nan-payload"))
        return name
    if kind == "refseq_data":
        b.reference_sequence.data = (m.refseq["data"] if m.refseq else "") + "A"
        return True
    if kind == "refseq_url":
        b.reference_sequence.url = (m.refseq["url"] if m.refseq else "") + "/x"
        return True
    if kind == "refseq_metadata":
        s = m.refseq["metadata_schema"] if m.refseq else ""
        old = m.refseq["metadata"] if m.refseq else b""
        b.reference_sequence.metadata = new_metadata_value(s, old, rng)
        return True
    if kind == "refseq_schema":
        s = m.refseq["metadata_schema"] if m.refseq else ""
        if not s and m.refseq and m.refseq["metadata"]:
            return None
        b.reference_sequence.metadata_schema = other_json_schema(s)
        return True
    if kind == "ts_metadata_respelled":
        if not m.metadata_schema or json.loads(m.metadata_schema).get("codec") != "json" or not m.metadata:
            return None
        raw = respell_json(bytes(b.metadata_bytes).decode())
        if raw is None:
            return None
        b._ll_tables.metadata = raw.encode()
        return True
    if kind == "ts_schema_respelled":
        raw = respell_json(m.metadata_schema) if m.metadata_schema else None
        if raw is None:
            return None
        b._ll_tables.metadata_schema = raw
        return True
    if kind == "refseq_metadata_respelled":
        if not m.refseq or not m.refseq["metadata_schema"] or not m.refseq["metadata"] or \
                json.loads(m.refseq["metadata_schema"]).get("codec") != "json":
            return None
        raw = respell_json(bytes(b.reference_sequence.metadata_bytes).decode())
        if raw is None:
            return None
        b.reference_sequence._ll_reference_sequence.metadata = raw.encode()
        return True
    if kind == "refseq_schema_respelled":
        raw = respell_json(m.refseq["metadata_schema"]) if m.refseq and m.refseq["metadata_schema"] else None
        if raw is None:
            return None
        b.reference_sequence._ll_reference_sequence.metadata_schema = raw
        return True
    if kind == "table_schema_respelled":
        cands = [n for n in META_TABLES if m.schemas.get(n)]
        if not cands:
            return None
        name = rng.choice(cands)
        raw = respell_json(m.schemas[name])
        if raw is None:
            return None
        getattr(b, name).ll_table.metadata_schema = raw
        return name
    if kind == "time_units":
        b.time_units = m.time_units + "s"
        return True
    if kind == "sequence_length":
        L = b.sequence_length
        L2 = L * 2 if L * 2 != L and math.isfinite(L * 2) else L / 2
        if L2 == L or not L2 > 0:       # +inf, the smallest subnormal
            L2 = 1.0
        b.sequence_length = L2
        return True
    if kind == "index":
        if b.has_index():
            b.drop_index()
        else:
            ne = b.edges.num_rows
            z = np.zeros(ne, dtype=np.int32)
            b.indexes = tskit.TableCollectionIndexes(z, z)
        return True
    raise KeyError(kind)


def from_rows_metadata(t):
    b = np.asarray(t.metadata).tobytes()
    off = t.metadata_offset
    return [b[off[j]:off[j + 1]] for j in range(len(off) - 1)]


def predict(kinds, flags):
    for k in kinds:
        cover = COVER[k]
        if cover is None:
            continue
        if not (cover & set(flags)):
            return False
    return True


def flag_subsets(rng, n=None):
    subs = [tuple(f for j, f in enumerate(FLAGS) if mask >> j & 1) for mask in range(64)]
    if n is not None and n < 64:
        subs = rng.sample(subs, n)
    return subs


def check_pair(ctx, a, b, kinds, subsets, label):
    for fl in subsets:
        kw = {f: True for f in fl}
        want = predict(kinds, fl)
        ctx.count("equals")
        try:
            got = a.equals(b, **kw)
        except Exception as e:  # noqa: BLE001
            ctx.violation(f"equals/raised-{type(e).__name__}", f"{label} equals({kw}) raised {e}")
            continue
        if got is not want:
            cls = "+".join(sorted(kinds))
            ctx.violation(f"equals/{cls}/{'+'.join(fl) or 'no-flags'}",
                          f"{label}: b differs from a in {sorted(kinds)}; equals({', '.join(fl)}) = {got!r}, documented "
                          f"answer {want}")
        ctx.count("assert_equals")
        try:
            a.assert_equals(b, **kw)
            raised = None
        except AssertionError:
            raised = AssertionError
        except Exception as e:  # noqa: BLE001
            ctx.violation(f"assert_equals/raised-{type(e).__name__}",
                          f"{label}: assert_equals({kw}) raised {type(e).__name__}: {e} (perturbed {sorted(kinds)})")
            continue
        if (raised is None) != bool(got):
            ctx.violation(f"assert_equals-disagrees/{'+'.join(sorted(kinds))}/{'+'.join(fl) or 'no-flags'}",
                          f"{label}: equals({', '.join(fl)}) = {got!r} but assert_equals "
                          f"{'raised AssertionError' if raised else 'returned'} (perturbed {sorted(kinds)})")


def check_tables_pair(ctx, a, b, kind, touched):
    """Per-table equals / assert_equals for a single-class perturbation that touched table `touched` (or none)."""
    for name in RowModel.TABLES:
        ta, tb = getattr(a, name), getattr(b, name)
        if name == "provenances":
            opts = [("ignore_timestamps", False), ("ignore_timestamps", True)]
        else:
            opts = [("ignore_metadata", False), ("ignore_metadata", True)]
        for oname, oval in opts:
            if name != touched:
                want = True
            elif kind in ("row_metadata", "table_schema", "table_schema_respelled"):
                want = oval
            elif kind == "prov_timestamp":
                want = oval
            else:
                want = False
            ctx.count("table-equals")
            got = ta.equals(tb, **{oname: oval})
            if got is not want:
                ctx.violation(f"table-equals/{name}/{kind}/{oname}={oval}",
                              f"{name}.equals(other, {oname}={oval}) = {got!r} where other differs in {kind} of "
                              f"{touched}; documented answer {want}")
            if not oval and (ta == tb) is not got:
                ctx.violation(f"table-eq-operator/{name}", f"{name} == other is {ta == tb}, equals() {got}")
            try:
                ta.assert_equals(tb, **{oname: oval})
                raised = False
            except AssertionError:
                raised = True
            except Exception as e:  # noqa: BLE001
                ctx.violation(f"table-assert_equals/{name}/raised-{type(e).__name__}",
                              f"{name}.assert_equals({oname}={oval}) raised {type(e).__name__}: {e}")
                continue
            if raised == bool(got):
                ctx.violation(f"table-assert_equals-disagrees/{name}/{kind}/{oname}={oval}",
                              f"{name}: equals({oname}={oval}) = {got} but assert_equals "
                              f"{'raised' if raised else 'returned'}")


def run_equality(case, ctx, rng, tmp):
    o = Obj(rng, ctx, min_prov=1, want_ts=False, allow_big=False)   # assert_equals walks rows in Python
    a, m = o.tc, o.m
    ctx.sig(repr(o.snap.cm), nontrivial=o.nrows() > 0)
    # identical twin built independently: equal under every flag set
    twin = build_tc(m, o.opts)
    check_pair(ctx, a, twin, (), flag_subsets(rng, 8), "twin")
    if a != twin or not (a == twin):
        ctx.violation("eq-operator/twin", "a == twin is False for two collections built from the same rows")
    ctx.count("wrong-type")
    if a.equals(o.m) is not False or a.nodes.equals(a.edges) is not False:
        ctx.violation("equals/other-type", "equals() with an object of another type is not False")
    try:
        a.assert_equals(42)
        ctx.violation("assert_equals/other-type", "assert_equals(42) returned")
    except AssertionError:
        pass
    kinds = list(COVER)
    rng.shuffle(kinds)
    done = 0
    for kind in kinds:
        if done >= 7:
            break
        b = build_tc(m, o.opts)
        touched = perturb(kind, b, m, rng)
        if touched is None:
            continue
        done += 1
        ctx.feature("perturb:" + kind)
        while NOTES:
            ctx.feature(NOTES.pop())
        check_pair(ctx, a, b, (kind,), flag_subsets(rng), kind)
        check_pair(ctx, b, a, (kind,), flag_subsets(rng, 6), kind + "(swapped)")
        ctx.count("eq-operator")
        if (a == b) is not predict((kind,), ()):
            ctx.violation(f"eq-operator/{kind}", f"a == b is {a == b} with b perturbed in {kind}")
        if kind in ("row_metadata", "table_schema", "table_schema_respelled", "prov_record", "prov_timestamp", "table_data",
                    "table_float_bits"):
            check_tables_pair(ctx, a, b, kind, touched)
        # (ReferenceSequence.equals is implemented in Python on the decoded metadata and the parsed schema: another
        # spelling of the same value compares equal there, which the docs do not exclude - EITHER, not asserted)
        if kind.startswith("refseq_") and not kind.endswith("_respelled"):
            for ign in (False, True):
                ctx.count("refseq-equals")
                want = ign and kind in ("refseq_metadata", "refseq_schema", "refseq_metadata_respelled",
                                        "refseq_schema_respelled")
                got = a.reference_sequence.equals(b.reference_sequence, ignore_metadata=ign)
                if got is not want:
                    ctx.violation(f"refseq-equals/{kind}/ignore_metadata={ign}",
                                  f"ReferenceSequence.equals(ignore_metadata={ign}) = {got!r} with other perturbed in "
                                  f"{kind}; documented answer {want}")
        if o.valid and kind not in ("index",):
            try:
                tsa, tsb = build_tc(m, o.opts).tree_sequence(), b.tree_sequence()
            except (tskit.LibraryError, ValueError):
                tsa = None
            if tsa is not None:
                for fl in flag_subsets(rng, 10):
                    ctx.count("ts-equals")
                    got = tsa.equals(tsb, **{f: True for f in fl})
                    want = predict((kind,), fl)
                    if got is not want:
                        ctx.violation(f"ts-equals/{kind}/{'+'.join(fl) or 'no-flags'}",
                                      f"TreeSequence.equals({', '.join(fl)}) = {got!r} with other perturbed in {kind}; "
                                      f"documented answer {want}")
                if (tsa == tsb) is not predict((kind,), ()):
                    ctx.violation(f"ts-eq-operator/{kind}", f"ts == other is {tsa == tsb}")
    del NOTES[:]
    # two classes at once: every class must be covered
    for _ in range(4):
        k1, k2 = rng.sample(list(COVER), 2)
        b = build_tc(m, o.opts)
        t1 = perturb(k1, b, m, rng)
        if t1 is None:
            continue
        # the second perturbation reads current values from the model; keep them independent
        if {k1, k2} <= {"row_metadata", "table_schema", "table_data", "table_float_bits"} or \
                {k1, k2} <= {"prov_record", "prov_timestamp"} or \
                {k1, k2} <= {"ts_metadata", "ts_schema", "ts_metadata_respelled", "ts_schema_respelled"} or \
                {k1, k2} <= {"refseq_metadata", "refseq_schema", "refseq_metadata_respelled", "refseq_schema_respelled"} or \
                "table_schema_respelled" in (k1, k2):
            continue
        t2 = perturb(k2, b, m, rng)
        if t2 is None:
            continue
        ctx.feature("perturb-pair")
        check_pair(ctx, a, b, (k1, k2), flag_subsets(rng, 24), f"{k1}+{k2}")
    del NOTES[:]


# =============================================================================================
# case: chain (a history on one object)
# =============================================================================================
CHAIN_STEPS = ("path", "handle", "tskit.load", "pickle", "copy", "copy.copy", "copy.deepcopy", "dict", "dict64", "lwt",
               "ts-pickle", "load_tables", "touch", "touch")


def touch(tc, j):
    """Rows appended through the raw column interface (no codec involved); keeps a valid tree sequence valid."""
    tc.provenances.add_row(f"step {j}", timestamp="t")
    tc.nodes.append_columns(flags=np.array([0], dtype=np.uint32), time=np.array([0.0]))
    tc.populations.append_columns(metadata=np.array([], dtype=np.int8), metadata_offset=np.array([0, 0], dtype=np.uint64))


def run_chain(case, ctx, rng, tmp):
    o = Obj(rng, ctx, allow_big=False)
    ctx.sig(repr(o.snap.cm), nontrivial=o.nrows() > 0)
    cur = o.tc
    # the twin is built again from the rows and never serialised; it receives the same "touch" edits
    ref = build_tc(o.m, o.opts)
    if o.snap.has_index and not ref.has_index():
        ref.build_index()
    snap = o.snap
    nsteps = rng.randint(3, 6)
    for j in range(nsteps):
        step = rng.choice(CHAIN_STEPS)
        if step in ("tskit.load", "ts-pickle", "load_tables") and not (o.valid and cur.has_index()):
            step = rng.choice(["path", "handle", "pickle", "dict", "lwt"])
        ctx.feature("chain-step:" + step)
        what = "chain/" + step
        p = os.path.join(tmp, f"c{j}.trees")
        if step == "touch":
            touch(cur, j)
            touch(ref, j)
            snap = Snap(ref)
            new = cur
            ok = True
        elif step in ("path", "handle", "tskit.load"):
            dform = rng.choice(forms.PATH_FORMS if step == "path" else forms.HANDLE_FORMS if step == "handle"
                               else forms.DUMP_FORMS)
            lform = rng.choice(forms.PATH_FORMS if step == "path" else forms.HANDLE_FORMS if step == "handle"
                               else forms.LOAD_FORMS)
            ok, _ = guarded(ctx, f"{what}/dump-{dform}", forms.dump_form, cur, p, dform)
            if ok:
                lname = "TableCollection.load" if step != "tskit.load" else rng.choice(["tskit.load", "TreeSequence.load"])
                ok, new = guarded(ctx, f"{what}/{lname}/{lform}", forms.load_form, LOADERS[lname][0], LOADERS[lname][1],
                                  p, lform)
                if ok:
                    new = tc_of(new)
        elif step == "pickle":
            proto = rng.randrange(0, pickle.HIGHEST_PROTOCOL + 1)
            ok, new = guarded(ctx, what, lambda: pickle.loads(pickle.dumps(cur, proto)))
        elif step == "copy":
            ok, new = guarded(ctx, what, cur.copy)
        elif step == "copy.copy":
            ok, new = guarded(ctx, what, copymod.copy, cur)
        elif step == "copy.deepcopy":
            ok, new = guarded(ctx, what, copymod.deepcopy, cur)
        elif step == "dict":
            ok, new = guarded(ctx, what, lambda: tskit.TableCollection.fromdict(cur.asdict()))
        elif step == "dict64":
            ok, new = guarded(ctx, what, lambda: tskit.TableCollection.fromdict(cur.asdict(force_offset_64=True)))
        elif step == "lwt":
            f64 = rng.random() < 0.5
            ok, new = guarded(ctx, what, lambda: via_lwt(cur.asdict(), f64))
        elif step == "ts-pickle":
            proto = rng.randrange(0, pickle.HIGHEST_PROTOCOL + 1)
            ok, new = guarded(ctx, what, lambda: pickle.loads(pickle.dumps(cur.tree_sequence(), proto)).dump_tables())
        else:   # load_tables
            bi = rng.random() < 0.5 and o.opts["index"] != "ties"   # rebuilding replaces a valid index with other tie order
            ok, new = guarded(ctx, what, lambda: tskit.TreeSequence.load_tables(cur, build_indexes=bi).dump_tables())
        if not ok:
            return
        if not same(ctx, "chain", new, snap):
            ctx.violation(f"{what}/differs-after-history", f"step {j} ({step}) of a chain of transports changed the object")
            return
        # lossless => equal, in both directions, under any flags; and assert_equals agrees
        fl = rng.choice(flag_subsets(rng))
        kw = {f: True for f in fl}
        ctx.count("chain-equals")
        for x, y, lab in ((ref, new, "twin.equals(travelled)"), (new, ref, "travelled.equals(twin)")):
            try:
                eq = x.equals(y, **kw)
                x.assert_equals(y, **kw)
                raised = False
            except AssertionError:
                raised = True
            except Exception as e:  # noqa: BLE001
                ctx.violation(f"{what}/equals-raised-{type(e).__name__}", f"{lab}({kw}) raised {e}")
                continue
            if eq is not True or raised:
                ctx.violation(f"{what}/not-equal-to-twin",
                              f"after step {j} ({step}) the object is column-byte-wise the twin, but {lab}({', '.join(fl)}) "
                              f"= {eq!r} and assert_equals {'raised' if raised else 'returned'}")
        cur = new


# =============================================================================================
# case: large (structurally extreme objects, forced)
# =============================================================================================
LARGE_SHAPES = ("rows", "rows", "entry", "entry", "column", "refseq", "text", "text", "star")
N16 = 1 << 16


def np_columns(name, n, nrs, lens=None):
    """n rows of small random values for table `name`, built column-wise (numpy only, no Python per-row work).
    lens: {ragged column: array of per-row lengths}; default 0..2 items per row."""
    cols = {}
    for col, kind in SPEC[name]:
        if kind == "u4":
            cols[col] = nrs.randint(0, 4, size=n).astype(np.uint32)
        elif kind == "i4":
            cols[col] = nrs.randint(-1, 5, size=n).astype(np.int32)
        elif kind == "f8":
            cols[col] = nrs.randint(0, 64, size=n) / 8.0
        elif kind == "T":
            t = nrs.randint(0, 64, size=n) / 8.0
            t[nrs.rand(n) < 0.3] = tskit.UNKNOWN_TIME
            cols[col] = t
        else:
            ln = (lens or {}).get(col)
            if ln is None:
                ln = nrs.randint(0, 3, size=n)
            total = int(ln.sum())
            cols[col + "_offset"] = np.concatenate([[0], np.cumsum(ln)]).astype(np.uint64)
            if kind in ("B", "S"):
                cols[col] = nrs.randint(65, 91, size=total).astype(np.int8)
            elif kind == "Rf8":
                cols[col] = nrs.randint(0, 64, size=total) / 8.0
            else:
                cols[col] = nrs.randint(-1, 5, size=total).astype(np.int32)
    return cols


def gen_large(rng, ctx):
    shape = rng.choice(LARGE_SHAPES)
    nrs = np.random.RandomState(rng.getrandbits(32))
    tc = tskit.TableCollection(rng.choice([1.0, 1000.0, 0.5]))
    near = lambda: N16 + rng.choice([-1, 0, 1, 2, 255, 4465])     # noqa: E731  around the 16-bit boundary
    ragged = [(n, c) for n in RowModel.TABLES for c, k in SPEC[n] if k in ("B", "S", "Rf8", "Ri4")]
    tag = shape
    valid = False
    if shape == "rows":
        name = rng.choice(RowModel.TABLES)
        getattr(tc, name).set_columns(**np_columns(name, near(), nrs))
        tag += ":" + name
    elif shape == "entry":
        name, col = rng.choice(ragged)
        n = rng.randint(1, 5)
        ln = nrs.randint(0, 3, size=n)
        ln[rng.randrange(n)] = near()
        getattr(tc, name).set_columns(**np_columns(name, n, nrs, {col: ln}))
        tag += f":{name}/{col}"
    elif shape == "column":
        name, col = rng.choice(ragged)
        n = rng.choice([1500, 3000])
        getattr(tc, name).set_columns(**np_columns(name, n, nrs, {col: nrs.randint(0, 120, size=n)}))
        tag += f":{name}/{col}"
    elif shape == "refseq":
        k = (1 << 20) * rng.randint(1, 3) + rng.choice([-1, 0, 1, 7])
        tc.reference_sequence.data = ("ACGT" * (k // 4 + 1))[:k]
        if rng.random() < 0.5:
            tc.reference_sequence.url = "http://example.com/" + "u" * rng.choice([0, 10, near()])
        tc.nodes.set_columns(**np_columns("nodes", 5, nrs))
    elif shape == "text":
        field = rng.choice(["url", "metadata", "metadata_schema", "time_units", "prov_record", "prov_timestamp",
                            "table_schema", "refseq_metadata", "refseq_schema"])
        k = near()
        tag += ":" + field
        if field == "url":
            tc.reference_sequence.url = "u" * k
        elif field == "metadata":
            tc.metadata = bytes(nrs.randint(0, 256, size=k).astype(np.uint8))
        elif field == "time_units":
            tc.time_units = "t" * k
        elif field == "prov_record":
            tc.provenances.add_row("r" * k, timestamp="t")
        elif field == "prov_timestamp":
            tc.provenances.add_row("r", timestamp="t" * k)
        elif field == "refseq_metadata":
            tc.reference_sequence.metadata = bytes(nrs.randint(0, 256, size=k).astype(np.uint8))
        else:
            schema = tskit.MetadataSchema({"codec": "json", "description": "d" * k})
            if field == "metadata_schema":
                tc.metadata_schema = schema
            elif field == "table_schema":
                # on a table without rows (the node rows below carry raw bytes, which a JSON codec could not decode;
                # see the EITHER zone on codec-valid metadata)
                getattr(tc, rng.choice([n for n in META_TABLES if n != "nodes"])).metadata_schema = schema
            else:
                tc.reference_sequence.metadata_schema = schema
        tc.nodes.set_columns(**np_columns("nodes", 3, nrs))
    else:   # star: one parent, >= 2^16 sample children, indexed; a valid tree sequence
        n = near()
        tc.nodes.set_columns(flags=np.concatenate([np.ones(n, dtype=np.uint32), [0]]).astype(np.uint32),
                             time=np.concatenate([np.zeros(n), [1.0]]))
        tc.edges.set_columns(left=np.zeros(n), right=np.full(n, tc.sequence_length),
                             parent=np.full(n, n, dtype=np.int32), child=np.arange(n, dtype=np.int32))
        tc.build_index()
        valid = True
    if shape != "star" and rng.random() < 0.3 and tc.edges.num_rows:
        ne = tc.edges.num_rows      # a made-up index is storable data
        tc.indexes = tskit.TableCollectionIndexes(nrs.randint(0, ne, size=ne).astype(np.int32),
                                                  nrs.randint(0, ne, size=ne).astype(np.int32))
    ctx.feature("large:" + tag.split("/")[0])
    return tc, shape, valid


def far_end_perturbation(tc, shape, rng):
    """A copy of tc that differs only at the far end of its big part (last row / last byte)."""
    b = tc.copy()
    for name in RowModel.TABLES:
        t = getattr(b, name)
        if t.num_rows:
            t.truncate(t.num_rows - 1) if rng.random() < 0.5 or name == "provenances" else None
            if t.num_rows == getattr(tc, name).num_rows:
                d = t.asdict()
                col, kind = SPEC[name][0]
                a = d[col].copy()
                if kind in ("B", "S", "Rf8", "Ri4"):      # populations: only a ragged column
                    t.truncate(t.num_rows - 1)
                else:
                    a[-1] = a[-1] + 1
                    d[col] = a
                    t.set_columns(**d)
            return b, {"ignore_tables"}
    if shape == "refseq":
        b.reference_sequence.data = tc.reference_sequence.data[:-1] + "T"
        return b, {"ignore_reference_sequence"}
    return None, None


def cat_stream(ctx, rng, files, snaps, loadable):
    """The files, concatenated by `cat` into a pipe or a socketpair, load back one by one.  Nothing on the reading side
    may rely on the kernel handing over a whole object (or a whole array) in one read()."""
    transport = rng.choice(["pipe", "socket"])
    ctx.feature("cat-stream:" + transport)
    env = {"PATH": "/usr/bin:/bin"}
    sb = None
    if transport == "pipe":
        rfd, wfd = os.pipe()
        proc = subprocess.Popen(["cat"] + files, stdin=subprocess.DEVNULL, stdout=wfd, env=env)
        os.close(wfd)
        r = os.fdopen(rfd, "rb")
    else:
        sa, sb = socket.socketpair()
        proc = subprocess.Popen(["cat"] + files, stdin=subprocess.DEVNULL, stdout=sa.fileno(), env=env)
        sa.close()
        r = sb.makefile("rb")
    try:
        for j, snap in enumerate(snaps):
            lname = rng.choice(["tskit.load", "TreeSequence.load"]) if loadable[j] and rng.random() < 0.5 \
                else "TableCollection.load"
            arg = r if rng.random() < 0.6 else r.fileno()
            ctx.count("cat-stream-load")
            ok, got = guarded(ctx, f"cat-stream/{transport}/{lname}", LOADERS[lname][0], arg)
            if not ok:
                return
            same(ctx, "cat-stream-load", tc_of(got), snap, light=snap.cm is None)
        expect_eof(ctx, "cat-" + transport, r, rng, None)
    finally:
        r.close()
        if sb is not None:
            sb.close()
        try:
            proc.wait(timeout=20)
        except subprocess.TimeoutExpired:
            proc.kill()
            proc.wait()


def run_large(case, ctx, rng, tmp):
    tc, shape, valid = gen_large(rng, ctx)
    snap = Snap(tc, light=True)
    ctx.sig((shape, sorted((k, len(v[1])) for k, v in snap.tb.items()), rng.getrandbits(32)), nontrivial=True)
    p = os.path.join(tmp, "big.trees")
    dform = rng.choice(forms.DUMP_FORMS)
    ok, _ = guarded(ctx, "large/dump-" + dform, forms.dump_form, tc, p, dform)
    if not ok:
        return
    b = open(p, "rb").read()
    check_file_against_dict(ctx, "large/dump", b, tc)
    del b
    lform = rng.choice(forms.LOAD_FORMS)
    ok, got = guarded(ctx, "large/load-" + lform, forms.load_form, tskit.TableCollection.load, "file_or_path", p, lform)
    if ok:
        same(ctx, "large-path-load", got, snap, light=True)
        ctx.count("large-equals")
        if not tc.equals(got) or not got.equals(tc):
            ctx.violation("large/loaded-not-equal", f"{shape}: the loaded collection is byte-identical but equals() is False")
    if valid:
        ok, ts = guarded(ctx, "large/tskit.load", tskit.load, p)
        if ok:
            same(ctx, "large-path-load", ts.dump_tables(), snap, light=True)
            check_ts_surface(ctx, "large-path-load", ts, snap)
    skip = rng.choice([{"skip_tables": True}, {"skip_reference_sequence": True}])
    ok, got = guarded(ctx, "large/skip-load", tskit.TableCollection.load, p, **skip)
    if ok:
        ctx.count("skip-load")
        a, bb = tb_dict(got), dict(snap.tb)
        drop = ["/reference_sequence"] if "skip_reference_sequence" in skip else \
            ["/" + n for n in RowModel.TABLES] + ["/indexes"]
        if strip(a, drop) != strip(bb, drop):
            k = diff_keys(strip(a, drop), strip(bb, drop))[0]
            ctx.violation(f"large/skip-load/differs{k}", f"{shape}: load({skip}) differs in {k}")
    proto = rng.randrange(0, pickle.HIGHEST_PROTOCOL + 1)
    ok, got = guarded(ctx, "large/pickle", lambda: pickle.loads(pickle.dumps(tc, proto)))
    if ok:
        same(ctx, "large-pickle", got, snap, light=True)
    ok, got = guarded(ctx, "large/copy", rng.choice([tc.copy, lambda: copymod.deepcopy(tc)]))
    if ok:
        same(ctx, "large-copy", got, snap, light=True)
    f64 = rng.random() < 0.5
    ok, got = guarded(ctx, "large/dict", lambda: rng.choice([tskit.TableCollection.fromdict, via_lwt])(
        tc.asdict(force_offset_64=f64)))
    if ok:
        same(ctx, "large-dict", got, snap, light=True)
    # per table, the big one included
    for name in RowModel.TABLES:
        t = getattr(tc, name)
        if t.num_rows:
            exp = table_bytes(t)
            ok, c = guarded(ctx, f"large/table-copy/{name}", rng.choice([t.copy, lambda: pickle.loads(pickle.dumps(t))]))
            if ok:
                ctx.count("table-copy")
                if table_bytes(c) != exp:
                    ctx.violation(f"large/table-copy/{name}/differs", f"{shape}: copy / pickle of table {name} differs")
    # a difference at the far end is seen
    b2, cover = far_end_perturbation(tc, shape, rng)
    if b2 is not None:
        ctx.count("large-equals")
        if tc.equals(b2) or not tc.equals(b2, **{f: True for f in cover}):
            ctx.violation("large/far-end-difference", f"{shape}: equals() = {tc.equals(b2)} for a copy changed in its last "
                          f"row / byte; with {sorted(cover)}: {tc.equals(b2, **{f: True for f in cover})}")
        if shape not in ("rows", "star", "column"):      # assert_equals walks rows in Python
            try:
                tc.assert_equals(b2)
                ctx.violation("large/far-end-difference/assert_equals", f"{shape}: assert_equals returned")
            except AssertionError:
                pass
            except Exception as e:  # noqa: BLE001  (all metadata here is raw bytes without a schema, or empty)
                ctx.violation(f"large/far-end-difference/assert_equals-raised-{type(e).__name__}",
                              f"{shape}: assert_equals raised {type(e).__name__}: {e}")
    # several objects, far larger than a pipe / socket buffer, back to back on a non-seekable stream
    small = Obj(rng, ctx, allow_big=False)
    ps = os.path.join(tmp, "small.trees")
    ok, _ = guarded(ctx, "dump-path", small.dumper.dump, ps)
    if ok:
        order = rng.choice([(0, 1, 0), (1, 0, 0), (0, 0, 1), (0, 1)])
        files, snaps, loadable = [p, ps], [snap, small.snap], [valid, small.ts_loadable]
        cat_stream(ctx, rng, [files[i] for i in order], [snaps[i] for i in order], [loadable[i] for i in order])


RUNNERS = {"stream": run_stream, "path": run_path, "interchange": run_interchange, "equality": run_equality,
           "chain": run_chain, "large": run_large}


def run_case(case, ctx):
    rng = case_rng(case)
    base = "/dev/shm" if os.path.isdir("/dev/shm") and os.access("/dev/shm", os.W_OK) else None
    tmp = tempfile.mkdtemp(prefix="verif-c05-", dir=base)
    try:
        RUNNERS[case["gen"]](case, ctx, rng, tmp)
        if case.get("idx", 99) < 16 and len(ctx.samples) < 2:
            ctx.sample({"case": {k: v for k, v in case.items() if k != "step"},
                        "what": "one generated collection (or stream of several) pushed through the " + case["gen"] + " monitors"})
    finally:
        shutil.rmtree(tmp, ignore_errors=True)
