"""C08 widening (audit, see lib/props/AUDIT-C08.md): three more case families for lib/props/c08.py.

  forms  every statistic method called through ANOTHER ARGUMENT FORM than the one the other families use:
         sample sets / indexes / windows / weights as tuples, numpy arrays of several dtypes, 2-D arrays,
         Fortran-ordered and non-contiguous weight matrices; leading arguments passed positionally in the documented
         order; keyword arguments LEFT OUT when their value is the documented default (so the defaults themselves
         are checked); deprecated aliases (pairwise_diversity, get_pairwise_diversity, trait_regression); covariates
         that already span the intercept; the same call repeated on the same tree sequence.
  big    large / structurally extreme instances: > 256 windows, index tuples, sample sets, weight columns,
         output dimensions, time bins; >= 256 samples / children (stars, brooms, caterpillars); 1 sample.
  coal   pair_coalescence_counts with time windows that start exactly at the sample time and in list form,
         pair_coalescence_quantiles and pair_coalescence_rates from their documented definitions.

The expected values come from lib/props/c08_ref.py (naive definitions); nothing here reads tskit's results back
into an expectation.
"""
import itertools
import math
import warnings
from fractions import Fraction

import numpy as np

from lib import gen
from lib.model import NODE_IS_SAMPLE, NULL, RowModel
from lib.model import mutation_parents
from lib.props import c08 as B

# ---------------------------------------------------------------------------------------- documented signatures
# (docs/python-api.md autodoc of the TreeSequence methods): parameter order and defaults.  REQ = no default.

REQ = object()
ONE = [("sample_sets", None), ("windows", None), ("mode", "site"), ("span_normalise", True)]
KWAY = [("sample_sets", REQ), ("indexes", None), ("windows", None), ("mode", "site"), ("span_normalise", True)]
SIG = {
    "diversity": ONE,
    "segregating_sites": ONE,
    "Y1": [("sample_sets", REQ)] + ONE[1:],
    "Tajimas_D": ONE[:3],
    "divergence": KWAY, "Y2": KWAY, "f2": KWAY, "Y3": KWAY, "f3": KWAY, "f4": KWAY, "Fst": KWAY,
    "genetic_relatedness": KWAY + [("polarised", True), ("proportion", True), ("centre", True)],
    "allele_frequency_spectrum": ONE + [("polarised", False)],
    "general_stat": [("W", REQ), ("f", REQ), ("output_dim", REQ), ("windows", None), ("polarised", False),
                     ("mode", None), ("span_normalise", True), ("strict", True)],
    "sample_count_stat": [("sample_sets", REQ), ("f", REQ), ("output_dim", REQ), ("windows", None),
                          ("polarised", False), ("mode", None), ("span_normalise", True), ("strict", True)],
    "genetic_relatedness_weighted": [("W", REQ), ("indexes", None), ("windows", None), ("mode", "site"),
                                     ("span_normalise", True), ("polarised", False), ("centre", True)],
    "genetic_relatedness_vector": [("W", REQ), ("windows", None), ("mode", "site"), ("span_normalise", True),
                                   ("centre", True), ("nodes", None)],
    "trait_covariance": [("W", REQ), ("windows", None), ("mode", "site"), ("span_normalise", True)],
    "trait_correlation": [("W", REQ), ("windows", None), ("mode", "site"), ("span_normalise", True)],
    "trait_linear_model": [("W", REQ), ("Z", None), ("windows", None), ("mode", "site"), ("span_normalise", True)],
    "trait_regression": [("W", REQ), ("Z", None), ("windows", None), ("mode", "site"), ("span_normalise", True)],
    # '*' : keyword-only from here on
    "divergence_matrix": [("sample_sets", None), "*", ("windows", None), ("num_threads", 0), ("mode", None),
                          ("span_normalise", True)],
    "genetic_relatedness_matrix": [("sample_sets", None), "*", ("windows", None), ("num_threads", 0), ("mode", None),
                                   ("span_normalise", True)],
    "mean_descendants": [("sample_sets", REQ)],
    "genealogical_nearest_neighbours": [("focal", REQ), ("sample_sets", REQ), ("num_threads", 0)],
    "pair_coalescence_counts": [("sample_sets", None), ("indexes", None), ("windows", None), ("span_normalise", True),
                                ("pair_normalise", False), ("time_windows", "nodes")],
    "pair_coalescence_quantiles": [("quantiles", REQ), ("sample_sets", None), ("indexes", None), ("windows", None)],
    "pair_coalescence_rates": [("time_windows", REQ), ("sample_sets", None), ("indexes", None), ("windows", None)],
    "pairwise_diversity": [("samples", None)],
    "get_pairwise_diversity": [("samples", None)],
}


def _is_default(v, d):
    if d is REQ:
        return False
    if d is None or isinstance(d, bool):
        return v is d
    if isinstance(d, str):
        return isinstance(v, str) and v == d
    return type(v) is type(d) and v == d


def _short(v):
    if isinstance(v, np.ndarray):
        return f"np.array({v.tolist()}, dtype={v.dtype}{'' if v.flags['C_CONTIGUOUS'] else ', non-C-contiguous'})"
    if callable(v):
        return "<f>"
    if isinstance(v, (list, tuple)) and v and isinstance(v[0], np.ndarray):
        br = "[%s]" if isinstance(v, list) else "(%s)"
        return br % ", ".join(_short(x) for x in v)
    return repr(v)


def make_call(ctx, rng, ts, name, args, style=None, never_omit=()):
    """Build a call of ts.<name> from canonical argument values.
    style: 'keywords' (all by keyword), 'positional' (as many leading arguments as possible by position),
    'required' (only the parameters without default by position); default arguments are left out with
    probability 0.7 wherever the calling style allows it.  Returns (thunk, description)."""
    sig = SIG[name]
    params = []
    kwonly = False
    for p in sig:
        if p == "*":
            kwonly = True
            continue
        params.append((p[0], p[1], kwonly))
    style = style or rng.choice(["keywords", "positional", "required", "required"])
    for k in args:
        assert any(k == p[0] for p in params), (name, k)
    values = [(pn, args.get(pn, d), d, ko) for pn, d, ko in params]
    omit = [(_is_default(v, d) and pn not in never_omit and rng.random() < 0.7) for pn, v, d, ko in values]
    # positional prefix
    if style == "keywords":
        npos = 0
    elif style == "required":
        npos = 0
        for pn, v, d, ko in values:
            if d is REQ and not ko:
                npos += 1
            else:
                break
    else:
        last = -1
        for i, (pn, v, d, ko) in enumerate(values):
            if ko:
                break
            if not omit[i]:
                last = i
        npos = rng.randint(0, last + 1)
    pos, kw = [], {}
    for i, (pn, v, d, ko) in enumerate(values):
        if i < npos:
            pos.append(v)
        elif not omit[i]:
            kw[pn] = v
    ndef = sum(1 for i, o in enumerate(omit) if o and i >= npos)
    ctx.feature(f"forms:call-style={style}")
    if ndef:
        ctx.feature("forms:defaults-omitted")
        for i, (pn, v, d, ko) in enumerate(values):
            if omit[i] and i >= npos:
                ctx.feature(f"forms:default:{name}.{pn}")
    if npos > sum(1 for pn, d, ko in params if d is REQ):
        ctx.feature("forms:optional-argument-by-position")
    meth = getattr(ts, name)
    desc = f"{name}(" + ", ".join([_short(v) for v in pos] + [f"{k}={_short(v)}" for k, v in kw.items()]) + ")"

    def thunk():
        with warnings.catch_warnings():
            warnings.simplefilter("ignore")
            return meth(*pos, **kw)

    return thunk, desc


# ---------------------------------------------------------------------------------------- argument forms


def form_ids(ctx, rng, ids, tag="ids", narrow=False):
    """A 1-D list of node ids in another container (narrow: forms the low-level id parser accepts)."""
    f = rng.choice(["list", "tuple", "np.int32"] if narrow else ["list", "tuple", "np.int32", "np.int64", "np.uint32"])
    ctx.feature(f"forms:{tag}={f}")
    if f == "list":
        return list(ids)
    if f == "tuple":
        return tuple(ids)
    return np.array(ids, dtype={"np.int32": np.int32, "np.int64": np.int64, "np.uint32": np.uint32}[f])


def form_sets(ctx, rng, sets, outer_list=False):
    """A list of lists of node ids in another container.  outer_list: the low-level methods behind
    mean_descendants / genealogical_nearest_neighbours take 'a list of lists of node IDs' literally (the outer
    container must be a list); only the inner containers vary there."""
    choices = ["list", "tuple-of-tuples", "list-of-tuples", "list-of-np.int32", "list-of-np.int64", "tuple-of-np.int32"]
    if len(set(len(A) for A in sets)) == 1:
        choices += ["np2d.int32", "np2d.int64", "np2d.int64"]
    if outer_list:
        # (64-bit id arrays are refused there with a TypeError: an error, not a wrong value - not generated)
        choices = ["list", "list-of-tuples", "list-of-np.int32"]
    f = rng.choice(choices)
    ctx.feature(f"forms:sets={f}")
    if f == "list":
        return [list(A) for A in sets]
    if f == "tuple-of-tuples":
        return tuple(tuple(A) for A in sets)
    if f == "list-of-tuples":
        return [tuple(A) for A in sets]
    if f == "list-of-np.int32":
        return [np.array(A, dtype=np.int32) for A in sets]
    if f == "list-of-np.int64":
        return [np.array(A, dtype=np.int64) for A in sets]
    if f == "tuple-of-np.int32":
        return tuple(np.array(A, dtype=np.int32) for A in sets)
    return np.array(sets, dtype=np.int32 if f.endswith("32") else np.int64)


def form_indexes(ctx, rng, idx, narrow=False):
    """narrow: the pair_coalescence_* methods hand `indexes` to the low-level module as it is, which refuses 64-bit
    arrays with a TypeError (an error, not a wrong value): not generated for them."""
    if idx is None:
        return None
    if isinstance(idx, tuple):  # a single k-tuple
        f = rng.choice(["tuple", "list", "np.int32", "np.int64"])
        ctx.feature(f"forms:index={f}")
        if f == "tuple":
            return tuple(idx)
        if f == "list":
            return list(idx)
        return np.array(idx, dtype=np.int32 if f.endswith("32") else np.int64)
    f = rng.choice(["list-of-tuples", "list-of-lists", "tuple-of-tuples", "np.int32"] + ([] if narrow else ["np.int64"]))
    ctx.feature(f"forms:indexes={f}")
    if f == "list-of-tuples":
        return [tuple(t) for t in idx]
    if f == "list-of-lists":
        return [list(t) for t in idx]
    if f == "tuple-of-tuples":
        return tuple(tuple(t) for t in idx)
    return np.array(idx, dtype=np.int32 if f.endswith("32") else np.int64)


def form_windows(ctx, rng, w):
    if w is None or isinstance(w, str):
        return w
    choices = ["list", "np.float64", "tuple"]
    if all(float(x).is_integer() for x in w):
        choices += ["int-list", "np.int64", "int-list"]
    f = rng.choice(choices)
    ctx.feature(f"forms:windows={f}")
    if f == "list":
        return [float(x) for x in w]
    if f == "np.float64":
        return np.array(w, dtype=np.float64)
    if f == "tuple":
        return tuple(float(x) for x in w)
    if f == "int-list":
        return [int(x) for x in w]
    return np.array([int(x) for x in w], dtype=np.int64)


def form_W(ctx, rng, W, allow_list=False):
    choices = ["C", "fortran", "non-contiguous", "non-contiguous"]
    if np.all(W == np.round(W)):
        choices += ["int64", "int32"]
    if allow_list:
        choices += ["list-of-lists"]
    f = rng.choice(choices)
    ctx.feature(f"forms:W={f}")
    if f == "C":
        return np.ascontiguousarray(W, dtype=np.float64)
    if f == "fortran":
        return np.asfortranarray(W, dtype=np.float64)
    if f == "non-contiguous":
        wide = np.full((W.shape[0] * 2, W.shape[1] * 2 + 1), 777.0)
        wide[::2, 1::2] = W
        v = wide[::2, 1::2]
        assert not v.flags["C_CONTIGUOUS"] or v.size <= 1
        return v
    if f == "int64":
        return W.astype(np.int64)
    if f == "int32":
        return W.astype(np.int32)
    return W.tolist()


def pick_mode(rng):
    # the documented default ("site") half of the time, so that it can be left out
    return rng.choice(["site", "site", "site", "branch", "branch", "node"])


def pick_windows(rng, ref):
    if rng.random() < 0.3:
        return None
    if ref.L >= 4 and float(ref.L).is_integer() and rng.random() < 0.4:
        pts = sorted(rng.sample(range(1, int(ref.L)), rng.randint(0, min(3, int(ref.L) - 1))))
        return [0.0] + [float(x) for x in pts] + [ref.L]
    return B.rand_windows(rng, ref)


# ---------------------------------------------------------------------------------------- family: forms


def forms_named(cs, rng):
    ts, ref, ctx = cs.ts, cs.ref, cs.ctx
    stat = rng.choice(B.ONE_WAY + list(B.K_WAY) + ["Tajimas_D", "Fst", "genetic_relatedness", "genetic_relatedness"])
    mode = pick_mode(rng)
    span_normalise = rng.random() < 0.6
    windows = pick_windows(rng, ref)
    args = {"windows": form_windows(ctx, rng, windows), "mode": mode}
    if stat != "Tajimas_D":
        args["span_normalise"] = span_normalise
    ctx.feature(f"forms:{stat}")
    if stat in B.ONE_WAY or stat == "Tajimas_D":
        r = rng.random()
        if r < 0.25 and stat != "Y1":
            sets, drop_last = [list(ref.samples)], True
            args["sample_sets"] = None
        elif r < 0.6:
            sets = B.rand_sample_sets(rng, ref.samples, k=1)
            drop_last = True
            args["sample_sets"] = form_ids(ctx, rng, sets[0], "one-set")
        else:
            sets = B.rand_sample_sets(rng, ref.samples)
            if rng.random() < 0.4:  # equal sizes: a 2-D array is a list of sample sets, not one set
                sz = rng.randint(1, ref.n)
                sets = [rng.sample(ref.samples, sz) for _ in sets]
            drop_last = False
            args["sample_sets"] = form_sets(ctx, rng, sets)
        idx_list = [(i,) for i in range(len(sets))]
        thunk, what = make_call(ctx, rng, ts, stat, args)
        ok, got = B.call(ctx, thunk)
        if not ok:
            B.unexpected_error(cs, f"{stat}/{mode}", what, got)
            return
        ctx.count("forms:named")
        if stat == "Tajimas_D":
            B.check_tajimas_d(cs, sets, windows, mode, drop_last, got, what)
        else:
            B.check_named_values(cs, stat, sets, idx_list, windows, mode, span_normalise, drop_last, got, what)
        repeat_call(cs, rng, thunk, what, got)
        return
    k = 2 if stat in ("Fst", "genetic_relatedness") else B.K_WAY[stat]
    small = 3 if k >= 3 else 4
    r = rng.random()
    if r < 0.35:
        sets = B.rand_sample_sets(rng, ref.samples, k=k, max_size=small)
        idx_arg, idx_list, drop_last = None, [tuple(range(k))], True
    elif r < 0.6:
        sets = B.rand_sample_sets(rng, ref.samples, k=rng.randint(k, 4), max_size=small)
        idx_list = [tuple(rng.randrange(len(sets)) for _ in range(k))]
        idx_arg, drop_last = idx_list[0], True
    else:
        sets = B.rand_sample_sets(rng, ref.samples, k=rng.randint(k, 4), max_size=small)
        idx_list = B.rand_indexes(rng, len(sets), k)
        if rng.random() < 0.4:
            # a LIST holding exactly one k-tuple is a list of index tuples: the last dimension (length 1) stays
            idx_list = idx_list[:1]
            ctx.feature("forms:indexes=list-of-one-tuple")
        idx_arg, drop_last = idx_list, False
    if rng.random() < 0.3:
        sz = rng.randint(1, min(small, ref.n))
        sets = [rng.sample(ref.samples, sz) for _ in sets]
    args["sample_sets"] = form_sets(ctx, rng, sets)
    args["indexes"] = form_indexes(ctx, rng, idx_arg)
    if stat == "genetic_relatedness":
        # documented defaults polarised=True, proportion=True, centre=True: drawn often so that they can be left out
        polarised = rng.random() < 0.7
        centre = rng.random() < 0.7
        proportion = rng.random() < 0.6
        args.update(polarised=polarised, centre=centre, proportion=proportion)
    thunk, what = make_call(ctx, rng, ts, stat, args)
    ok, got = B.call(ctx, thunk)
    if not ok:
        B.unexpected_error(cs, f"{stat}/{mode}", what, got)
        return
    ctx.count("forms:named")
    if stat == "Fst":
        B.check_fst(cs, sets, idx_list, windows, mode, span_normalise, drop_last, got, what)
    elif stat == "genetic_relatedness":
        B.check_relatedness_values(cs, sets, idx_list, windows, mode, span_normalise, polarised, centre, proportion,
                                   drop_last, got, what)
    else:
        B.check_named_values(cs, stat, sets, idx_list, windows, mode, span_normalise, drop_last, got, what)
    repeat_call(cs, rng, thunk, what, got)


def repeat_call(cs, rng, thunk, what, first):
    """(d) the same call again on the same tree sequence object returns the same array (no state is kept)."""
    if rng.random() > 0.3:
        return
    ctx = cs.ctx
    ok, again = B.call(ctx, thunk)
    ctx.count("forms:repeat-call")
    if not ok:
        B.unexpected_error(cs, "repeat-call", what + " (second call)", again)
        return
    a, b = np.asarray(first, dtype=float), np.asarray(again, dtype=float)
    if a.shape != b.shape or not np.array_equal(a, b, equal_nan=True):
        ctx.violation("repeat-call/result-differs", f"{what}: first call {B._fmt(a)} second call {B._fmt(b)}",
                      cs.detail())


def forms_general(cs, rng):
    ts, ref, ctx = cs.ts, cs.ref, cs.ctx
    n = ref.n
    mode = pick_mode(rng)
    polarised = rng.random() < 0.4
    span_normalise = rng.random() < 0.6
    windows = pick_windows(rng, ref)
    use_counts = rng.random() < 0.5
    if use_counts:
        sets = B.rand_sample_sets(rng, ref.samples)
        W = ref.indicator_weights(sets)
        k = len(sets)
    else:
        k = rng.randint(1, 3)
        W = B.rand_weights(rng, n, k)
    d = rng.randint(1, 3)
    f = B.poly_f(rng, k, d)
    total = W.sum(axis=0)
    strict = rng.random() < 0.7  # documented default True
    if strict:
        g = B.strictify(f, total)
        if g is None or not (np.allclose(g(total * 0.0), 0) and np.allclose(g(total), 0)):
            strict = False
        else:
            f = g
    ret = rng.choice(["ndarray", "list", "tuple"])
    ctx.feature(f"forms:f-returns={ret}")

    def f_form(x, f=f, ret=ret):
        v = f(x)
        return v if ret == "ndarray" else (list(v) if ret == "list" else tuple(v))

    args = {"f": f_form, "output_dim": d, "windows": form_windows(ctx, rng, windows), "polarised": polarised,
            "mode": (None if (mode == "site" and rng.random() < 0.7) else mode), "span_normalise": span_normalise,
            "strict": strict}
    if use_counts:
        name = "sample_count_stat"
        args["sample_sets"] = form_sets(ctx, rng, sets)
    else:
        name = "general_stat"
        args["W"] = form_W(ctx, rng, W, allow_list=True)
    thunk, what = make_call(ctx, rng, ts, name, args)
    ok, got = B.call(ctx, thunk)
    if not ok:
        B.unexpected_error(cs, "general", what, got)
        return
    exp, mag, nterms = ref.general(W, f, windows, mode, polarised, span_normalise)
    if windows is None:
        exp, mag = exp[0], mag[0]
    peak = float(np.max(mag)) if mag.size else 0.0
    ctx.count("forms:general")
    cs.check(f"general:{mode}", f"general-stat/{mode}/{'polarised' if polarised else 'unpolarised'}",
             got, exp, B.tol_from(mag, peak), what + f" [W={W.tolist()}]")


def forms_afs(cs, rng):
    ts, ref, ctx = cs.ts, cs.ref, cs.ctx
    mode = rng.choice(["site", "site", "branch"])
    polarised = rng.random() < 0.4
    span_normalise = rng.random() < 0.6
    windows = pick_windows(rng, ref)
    args = {"windows": form_windows(ctx, rng, windows), "mode": mode, "span_normalise": span_normalise,
            "polarised": polarised}
    if rng.random() < 0.3:
        sets = [list(ref.samples)]
        args["sample_sets"] = None
    else:
        sets = B.rand_sample_sets(rng, ref.samples, k=rng.choice([1, 1, 2, 2, 3]), max_size=5, disjoint=rng.random() < 0.5)
        if rng.random() < 0.4:
            sz = rng.randint(1, min(4, ref.n))
            sets = [rng.sample(ref.samples, sz) for _ in sets]
        args["sample_sets"] = form_sets(ctx, rng, sets)
    thunk, what = make_call(ctx, rng, ts, "allele_frequency_spectrum", args)
    ctx.count("forms:afs")
    B.check_afs(cs, sets, None, windows, mode, polarised, span_normalise, caller=(thunk, what))


def forms_matrix(cs, rng):
    ts, ref, ctx = cs.ts, cs.ref, cs.ctx
    mode = rng.choice(["site", "site", "branch"])
    span_normalise = rng.random() < 0.6
    windows = pick_windows(rng, ref)
    r = rng.random()
    if r < 0.25:
        arg, sets = None, [[u] for u in ref.samples]
    elif r < 0.55:
        ids = rng.sample(ref.samples, rng.randint(1, ref.n))
        arg, sets = form_ids(ctx, rng, ids, "matrix-ids"), [[u] for u in ids]
    else:
        sets = B.rand_sample_sets(rng, ref.samples, k=rng.randint(1, 4), disjoint=True)
        if rng.random() < 0.4 and ref.n >= 2:
            sz = rng.randint(1, max(1, ref.n // 2))
            perm = rng.sample(ref.samples, ref.n)
            sets = [perm[i * sz:(i + 1) * sz] for i in range(min(3, ref.n // sz))]
        arg = form_sets(ctx, rng, sets)
    listarg = arg is None or r >= 0.55
    meth = "genetic_relatedness_matrix" if (listarg and rng.random() < 0.4) else "divergence_matrix"
    nt = rng.choice([0, 0, 1, 2, 5])
    args = {"sample_sets": arg, "windows": form_windows(ctx, rng, windows),
            "mode": (None if (mode == "site" and rng.random() < 0.7) else mode),
            "span_normalise": span_normalise, "num_threads": nt}
    thunk, what = make_call(ctx, rng, ts, meth, args)
    ok, got = B.call(ctx, thunk)
    if not ok:
        B.unexpected_error(cs, f"{meth}/{mode}", what, got)
        return
    got = np.asarray(got, dtype=float)
    D = ref.divergence_matrix(sets, windows, mode, span_normalise)
    ctx.count("forms:matrix")
    if meth == "divergence_matrix":
        exp = D[0] if windows is None else D
        if got.shape != exp.shape:
            ctx.count(f"divmat:{mode}")
            ctx.violation(f"divergence_matrix/{mode}/shape", f"{what}: shape {got.shape} expected {exp.shape}",
                          cs.detail())
            return
        e = exp.copy()
        for i, A in enumerate(sets):  # E5
            if len(A) == 1:
                gi = got[..., i, i]
                e[..., i, i] = np.where(np.isnan(gi), gi, e[..., i, i])
        cs.check(f"divmat:{mode}", f"divergence_matrix/{mode}/pairwise-definition", got, e,
                 1e-9 * (np.nanmax(np.abs(e)) if e.size else 0) + B.ATOL, what)
        return
    eg = B.ref_grm_from_divergence(D, [len(A) for A in sets])
    scale = (np.nanmax(np.abs(D)) if D.size else 0)
    if windows is None:
        eg = eg[0]
    if got.shape != eg.shape:
        ctx.count(f"grm:{mode}")
        ctx.violation(f"genetic_relatedness_matrix/{mode}/shape", f"{what}: shape {got.shape} expected {eg.shape}",
                      cs.detail())
        return
    cs.check(f"grm:{mode}", f"genetic_relatedness_matrix/{mode}/documented-construction", got, eg,
             1e-9 * scale + B.ATOL, what)


def forms_topo(cs, rng):
    ts, ref, ctx = cs.ts, cs.ref, cs.ctx
    sets = B.rand_node_sets(rng, ref)
    if rng.random() < 0.5:
        focal = [rng.randrange(ref.N) for _ in range(rng.randint(1, 5))]
        args = {"focal": form_ids(ctx, rng, focal, "focal", narrow=True), "sample_sets": form_sets(ctx, rng, sets, outer_list=True),
                "num_threads": rng.choice([0, 0, 1, 3])}
        thunk, what = make_call(ctx, rng, ts, "genealogical_nearest_neighbours", args)
        ok, got = B.call(ctx, thunk)
        if not ok:
            B.unexpected_error(cs, "gnn", what, got)
            return
        ctx.count("forms:topo")
        cs.check("gnn", "gnn/nearest-ancestor-definition", got, ref.gnn(focal, sets), 1e-9, what)
        return
    args = {"sample_sets": form_sets(ctx, rng, sets, outer_list=True)}
    thunk, what = make_call(ctx, rng, ts, "mean_descendants", args)
    ok, got = B.call(ctx, thunk)
    if not ok:
        B.unexpected_error(cs, "mean_descendants", what, got)
        return
    got = np.asarray(got, dtype=float)
    e_refs = ref.mean_descendants(sets, "refs")
    e_samp = ref.mean_descendants(sets, "samples")
    ctx.count("forms:topo")
    ctx.count("mean_descendants")
    if got.shape != e_refs.shape:
        ctx.violation("mean_descendants/shape", f"{what}: shape {got.shape} expected {e_refs.shape}", cs.detail())
        return
    for u in range(ref.N):  # E4: row by row either normalisation
        if B.mismatch(got[u], e_refs[u], 1e-9) is None:
            continue
        if not np.any(np.isnan(e_samp[u])) and B.mismatch(got[u], e_samp[u], 1e-9) is None:
            continue
        ctx.violation("mean_descendants/span-average-definition",
                      f"{what}: node {u} got {B._fmt(got[u])} expected {B._fmt(e_refs[u])} "
                      f"(or {B._fmt(e_samp[u])} with the documented per-sample normalisation)", cs.detail())
        break


def forms_weighted(cs, rng):
    """genetic_relatedness_weighted (documented defaults polarised=False, centre=True, mode='site') with other
    weight-matrix forms."""
    ts, ref, ctx = cs.ts, cs.ref, cs.ctx
    n = ref.n
    mode = pick_mode(rng)
    span_normalise = rng.random() < 0.6
    polarised = rng.random() < 0.35
    centre = rng.random() < 0.65
    windows = pick_windows(rng, ref)
    k = rng.randint(1, 3)
    W = B.rand_weights(rng, n, k)
    r = rng.random()
    if r < 0.3:
        if k < 2:
            W = B.rand_weights(rng, n, 2)
        W = W[:, :2].copy()
        k = 2
        idx_arg, idx_list, drop_last = None, [(0, 1)], True
    elif r < 0.55:
        idx_list = [(rng.randrange(k), rng.randrange(k))]
        idx_arg, drop_last = idx_list[0], True
    else:
        idx_list = B.rand_indexes(rng, k, 2, maxn=5)
        idx_arg, drop_last = idx_list, False
    args = {"W": form_W(ctx, rng, W, allow_list=True), "indexes": form_indexes(ctx, rng, idx_arg),
            "windows": form_windows(ctx, rng, windows), "mode": mode, "span_normalise": span_normalise,
            "polarised": polarised, "centre": centre}
    # EITHER: the docstring of genetic_relatedness_weighted says polarised "Defaults to True" while its signature
    # says polarised=False; the default of this one parameter is therefore not asserted (always passed explicitly)
    thunk, what = make_call(ctx, rng, ts, "genetic_relatedness_weighted", args, never_omit=("polarised",))
    ok, got = B.call(ctx, thunk)
    if not ok:
        B.unexpected_error(cs, f"genetic_relatedness_weighted/{mode}", what, got)
        return
    got = np.asarray(got, dtype=float)
    wsum = W.sum(axis=0)
    Wx = np.column_stack([W, np.full(n, 1.0 / n)])

    def f(x):
        p = x[k]
        if centre:
            return [(x[i] - wsum[i] * p) * (x[j] - wsum[j] * p) for i, j in idx_list]
        return [x[i] * x[j] for i, j in idx_list]

    exp, mag, nterms = ref.general(Wx, f, windows, mode, polarised, span_normalise)
    peak = float(np.max(mag)) if mag.size else 0.0
    e = B.drop_dims(exp, windows is None, drop_last)
    ctx.count("forms:weighted")
    if got.shape != e.shape:
        ctx.count(f"weighted:{mode}")
        ctx.violation(f"genetic_relatedness_weighted/{mode}/shape", f"{what}: shape {got.shape} expected {e.shape}",
                      cs.detail())
        return
    noise = 1e-9 * (np.abs(W).sum() + 1) ** 2 * (ref.L if not span_normalise else 1.0) * \
        (max(abs(ref.m.time(u)) for u in range(ref.N)) * 2 + 1 if mode == "branch" else 1.0)
    cs.check(f"weighted:{mode}", f"genetic_relatedness_weighted/{mode}/summary-function", got.reshape(exp.shape), exp,
             B.tol_from(mag, peak) + noise, what + f" [W={W.tolist()}]")


def forms_trait(cs, rng):
    """trait_* with other weight forms, the deprecated alias trait_regression, and covariates that already contain
    the intercept (documented: 'Columns of Z must be linearly independent'; the intercept is added only if it is
    not already in their span)."""
    ts, ref, ctx = cs.ts, cs.ref, cs.ctx
    n = ref.n
    stat = rng.choice(["trait_covariance", "trait_correlation", "trait_linear_model", "trait_regression",
                       "trait_regression"])
    mode = pick_mode(rng)
    span_normalise = rng.random() < 0.6
    windows = pick_windows(rng, ref)
    k = rng.randint(1, 2)
    W = B.rand_weights(rng, n, k, kind=rng.choice(["int", "dyadic", "signed"]))
    if stat == "trait_correlation" and np.any(np.std(W, axis=0) == 0):
        return
    args = {"W": form_W(ctx, rng, W), "windows": form_windows(ctx, rng, windows), "mode": mode,
            "span_normalise": span_normalise}
    Z = None
    base_stat = stat
    if stat in ("trait_linear_model", "trait_regression"):
        base_stat = "trait_linear_model"
        if rng.random() < 0.7 and n >= 4:
            kz = rng.randint(1, min(2, n - 3))
            for _ in range(10):
                Zc = np.array([[float(rng.randint(-2, 2)) for _ in range(kz)] for _ in range(n)])
                if np.linalg.matrix_rank(np.column_stack([Zc, np.ones(n)])) == kz + 1:
                    Z = Zc
                    break
        Zarg = Z
        if Z is not None and rng.random() < 0.5:
            # the same model written with an explicit intercept column (constant c != 0), first or last
            c = rng.choice([1.0, 2.0, -0.5])
            col = np.full((n, 1), c)
            Zarg = np.column_stack([col, Z]) if rng.random() < 0.5 else np.column_stack([Z, col])
            ctx.feature("forms:Z-contains-intercept")
        elif Z is None and rng.random() < 0.3:
            Zarg = np.ones((n, 1))
            ctx.feature("forms:Z-is-intercept-only")
        if Zarg is not None:
            Zarg = form_W(ctx, rng, Zarg)
        args["Z"] = Zarg
    thunk, what = make_call(ctx, rng, ts, stat, args)
    ok, got = B.call(ctx, thunk)
    if not ok:
        B.unexpected_error(cs, f"{stat}/{mode}", what, got)
        return
    ctx.count("forms:trait")
    ctx.feature(f"forms:{stat}")
    B.check_trait_values(cs, base_stat, W, Z, windows, mode, span_normalise, got, what + f" [W={W.tolist()}]")


def forms_alias(cs, rng):
    """pairwise_diversity / get_pairwise_diversity (deprecated): 'the average number of sites that differ between
    every possible pair of distinct samples' = site diversity, not span normalised, as a float."""
    ts, ref, ctx = cs.ts, cs.ref, cs.ctx
    name = rng.choice(["pairwise_diversity", "get_pairwise_diversity"])
    if rng.random() < 0.4:
        A = list(ref.samples)
        args = {"samples": None}
    else:
        A = rng.sample(ref.samples, rng.randint(1, ref.n))
        args = {"samples": form_ids(ctx, rng, A, "samples")}
    thunk, what = make_call(ctx, rng, ts, name, args)
    ok, got = B.call(ctx, thunk)
    if not ok:
        B.unexpected_error(cs, name, what, got)
        return
    ctx.count("forms:alias")
    ctx.feature(f"forms:{name}")
    tup = [(1.0, p) for p in itertools.permutations(A, 2)]
    if not tup:
        if not (isinstance(got, float) and (math.isnan(got) or got == 0)):
            ctx.violation(f"{name}/degenerate-not-nan", f"{what} returned {got!r} for one sample", cs.detail())
        return
    exp = ref.tuple_stat(tup, (lambda f: 1.0 if (f[0] and not f[1]) else 0.0), 2, None, "site", False, False)[0]
    if not isinstance(got, float):
        ctx.violation(f"{name}/not-a-float", f"{what} returned {type(got).__name__}", cs.detail())
        return
    cs.check("named-tuples:site", f"{name}/pairwise-definition", got, exp, 1e-9 * (abs(exp) + 1), what)


def forms_vector(cs, rng):
    """genetic_relatedness_vector (branch mode; documented defaults span_normalise=True, centre=True, nodes=None) with
    weights as a 1-D array / list / other layouts and focal nodes as tuple / array."""
    ts, ref, ctx = cs.ts, cs.ref, cs.ctx
    n = ref.n
    span_normalise = rng.random() < 0.6
    windows = pick_windows(rng, ref)
    k = rng.randint(1, 2)
    W = B.rand_weights(rng, n, k)
    use_nodes = rng.random() < 0.4
    centre = False if use_nodes else rng.random() < 0.7
    nodes = [rng.randrange(ref.N) for _ in range(rng.randint(1, 4))] if use_nodes else None
    if k == 1 and rng.random() < 0.5:
        f1 = rng.choice(["np1d", "list1d", "tuple1d"])
        ctx.feature(f"forms:W={f1}")
        Warg = {"np1d": W[:, 0].copy(), "list1d": W[:, 0].tolist(), "tuple1d": tuple(W[:, 0].tolist())}[f1]
    else:
        Warg = form_W(ctx, rng, W, allow_list=True)
    args = {"W": Warg, "windows": form_windows(ctx, rng, windows), "mode": "branch",
            "span_normalise": span_normalise, "centre": centre,
            "nodes": None if nodes is None else form_ids(ctx, rng, nodes, "nodes")}
    thunk, what = make_call(ctx, rng, ts, "genetic_relatedness_vector", args)
    ok, got = B.call(ctx, thunk)
    if not ok:
        B.unexpected_error(cs, "genetic_relatedness_vector", what, got)
        return
    got = np.asarray(got, dtype=float)
    focal = nodes if use_nodes else list(ref.samples)
    wl = ref.parse_windows(windows)
    nw = len(wl) - 1
    C = np.zeros((nw, len(focal), n))
    for a, u in enumerate(focal):
        for b, v in enumerate(ref.samples):
            C[:, a, b] = ref.shared(u, v, wl, "branch", True, span_normalise)
    if centre:
        C = C - C.mean(axis=2, keepdims=True) - C.mean(axis=1, keepdims=True) + C.mean(axis=(1, 2), keepdims=True)
    exp = np.einsum("wab,bj->waj", C, W)
    mg = np.einsum("wab,bj->waj", np.abs(C), np.abs(W)) + np.abs(C).sum() * np.abs(W).sum() / max(1, n)
    if windows is None:
        exp, mg = exp[0], mg[0]
    ctx.count("forms:vector")
    cs.check("relatedness-vector", "genetic_relatedness_vector/matrix-vector-definition", got, exp,
             1e-9 * mg + B.ATOL, what + f" [W={W.tolist()}]")


FORMS = [forms_named, forms_named, forms_named, forms_general, forms_afs, forms_matrix, forms_topo, forms_weighted,
         forms_trait, forms_alias, forms_vector]


def fam_forms(cs, rng):
    # every sub-check once per case, in a rotating order (all are cheap)
    k = rng.randrange(len(FORMS))
    for i in range(len(FORMS)):
        FORMS[(k + i) % len(FORMS)](cs, rng)


# ---------------------------------------------------------------------------------------- family: coal


def gen_coalescent(rng, n=None):
    """Every tree has one root and all n samples (leaves) have the same time t0; 1-4 trees over dyadic breakpoints,
    multifurcations allowed, each tree with its own internal nodes; optionally one stretch without edges."""
    n = n or rng.choice([2, 2, 3, 4, 4, 5, 6, 7])
    L = rng.choice([4.0, 8.0, 16.0])
    t0 = rng.choice([0.0, 0.0, 0.0, 1.0, -2.0, 0.5])
    m = RowModel(L)
    m.nodes = [(NODE_IS_SAMPLE, t0, NULL, NULL, b"") for _ in range(n)]
    nb = rng.choice([0, 1, 1, 2, 3])
    pts = sorted(rng.sample([k * L / 8 for k in range(1, 8)], nb))
    bounds = [0.0] + pts + [L]
    gap = rng.randrange(len(bounds) - 1) if (len(bounds) > 2 and rng.random() < 0.25) else None
    edges = []
    for ti, (l, r) in enumerate(zip(bounds[:-1], bounds[1:])):
        if ti == gap:
            continue
        lineages = list(range(n))
        t = t0
        while len(lineages) > 1:
            kk = min(len(lineages), rng.choice([2, 2, 2, 3]))
            ch = rng.sample(lineages, kk)
            t += rng.randint(1, 4) / 2
            p_ = len(m.nodes)
            m.nodes.append((0, t, NULL, NULL, b""))
            for c in ch:
                edges.append((l, r, p_, c, b""))
                lineages.remove(c)
            lineages.append(p_)
    m.edges = sorted(edges, key=lambda e: (m.nodes[e[2]][1], e[2], e[3], e[0]))
    return m, t0


def coal_weights(ref, sets, idx_list, windows):
    """raw[w, i, node] = sum over trees of (span in the window) x (pairs with that MRCA) as Fractions, and the
    span of each window covered by trees with edges."""
    wl = ref.parse_windows(windows)
    nw = len(wl) - 1
    raw = [[[Fraction(0)] * ref.N for _ in idx_list] for _ in range(nw)]
    edge_span = [Fraction(0)] * nw
    for t in ref.trees:
        cnt = [[0] * ref.N for _ in idx_list]
        for i, (j, k) in enumerate(idx_list):
            pairs = itertools.combinations(sets[j], 2) if j == k else itertools.product(sets[j], sets[k])
            for a, b in pairs:
                mr = t.fr.mrca(a, b)
                if mr != NULL:
                    cnt[i][mr] += 1
        for w in range(nw):
            lo, hi = max(t.left, wl[w]), min(t.right, wl[w + 1])
            if hi > lo:
                sp = Fraction(hi) - Fraction(lo)
                if t.has_edges:
                    edge_span[w] += sp
                for i in range(len(idx_list)):
                    for u in range(ref.N):
                        if cnt[i][u]:
                            raw[w][i][u] += sp * cnt[i][u]
    return wl, raw, edge_span


def is_pow2(fr):
    fr = Fraction(fr)
    if fr <= 0:
        return False
    for v in (fr.numerator, fr.denominator):
        if v & (v - 1):
            return False
    return True


def fam_coal(case, ctx, rng):
    m, t0 = gen_coalescent(rng)
    cs = B.Case(m, ctx)
    ts, ref = cs.ts, cs.ref
    ctx.sig(("C08", "coal", m.signature()))
    n = ref.n
    times = sorted(set(ref.m.time(u) for u in range(ref.N)))
    for rep in range(4):
        # ---- sample sets (non-overlapping, as documented) and index pairs
        r = rng.random()
        if r < 0.3 or n < 2:
            sets, sets_arg = [list(ref.samples)], None
            if rng.random() < 0.4:
                sets_arg = form_sets(ctx, rng, sets)
        else:
            # set sizes that are powers of two make the pair totals exact divisors
            sets = B.rand_sample_sets(rng, ref.samples, k=rng.randint(1, min(3, n)), disjoint=True)
            sets_arg = form_sets(ctx, rng, sets)
        ns = len(sets)
        if ns <= 2 and rng.random() < 0.4:
            idx_arg, idx_list = None, ([(0, 0)] if ns == 1 else [(0, 1)])
        else:
            idx_list = B.rand_indexes(rng, ns, 2, maxn=4)
            idx_arg = idx_list
        # quantiles of a within-set index need at least one pair
        windows = None if rng.random() < 0.4 else B.rand_windows(rng, ref, allow_special=False)
        wl, raw, edge_span = coal_weights(ref, sets, idx_list, windows)
        nw = len(wl) - 1
        tot_pairs = [Fraction(len(sets[j]) * (len(sets[j]) - 1), 2) if j == k else Fraction(len(sets[j]) * len(sets[k]))
                     for j, k in idx_list]
        which = rng.choice(["counts", "quantiles", "quantiles", "rates", "rates"])
        ctx.feature(f"coal:{which}")
        common = {"sample_sets": sets_arg, "indexes": form_indexes(ctx, rng, idx_arg, narrow=True),
                  "windows": form_windows(ctx, rng, windows)}

        def shape_out(a):
            a = np.asarray(a, dtype=float)
            if idx_arg is None:
                a = a[:, 0]
            if windows is None:
                a = a[0]
            return a

        if which == "counts":
            # time windows starting EXACTLY at the sample time (the usual call), ending at inf or at a node time
            inner = sorted(set(rng.sample([t_ + d for t_ in times[1:] for d in (0.0, 0.25, -0.25)] or [t0 + 1],
                                          rng.randint(0, min(4, max(1, len(times) - 1))))))
            inner = [x for x in inner if x > t0]
            tw = [t0] + inner + [math.inf if rng.random() < 0.7 else times[-1] + rng.choice([0.0, 0.5])]
            tw = sorted(set(tw))
            if len(tw) < 2:
                tw = [t0, math.inf]
            span_normalise = rng.random() < 0.6
            pair_normalise = rng.random() < 0.4
            twf = rng.choice(["list", "np.float64", "tuple"])
            ctx.feature(f"coal:time_windows={twf}")
            tw_arg = list(tw) if twf == "list" else (np.array(tw) if twf == "np.float64" else tuple(tw))
            args = dict(common, span_normalise=span_normalise, pair_normalise=pair_normalise, time_windows=tw_arg)
            thunk, what = make_call(ctx, rng, ts, "pair_coalescence_counts", args)
            ok, got = B.call(ctx, thunk)
            if not ok:
                B.unexpected_error(cs, "pair_coalescence_counts", what, got)
                continue
            nb = len(tw) - 1
            exp = np.zeros((nw, len(idx_list), nb))
            for w in range(nw):
                for i in range(len(idx_list)):
                    den = Fraction(1)
                    if span_normalise:
                        den *= edge_span[w]
                    if pair_normalise:
                        den *= tot_pairs[i]
                    for u in range(ref.N):
                        if raw[w][i][u]:
                            t_ = ref.m.time(u)
                            for b in range(nb):
                                if tw[b] <= t_ < tw[b + 1]:
                                    exp[w, i, b] += float(raw[w][i][u] / den) if den != 0 else 0.0
            exp = shape_out(exp)
            cs.check("pair_coalescence_counts", "pair_coalescence_counts/mrca-enumeration", got, exp,
                     1e-9 * (np.abs(exp).max() if exp.size else 0) + B.ATOL, what)
            continue
        if which == "quantiles":
            # candidate quantiles: plain ones and the exact values of the empirical cdf (boundary)
            cand = {0.25, 0.5, 0.75, 1.0, 0.125, 1 / 3, 0.9, 0.1}
            w0, i0 = rng.randrange(nw), rng.randrange(len(idx_list))
            tot = sum(raw[w0][i0])
            if tot > 0:
                acc = Fraction(0)
                for t_ in times:
                    acc += sum(raw[w0][i0][u] for u in range(ref.N) if ref.m.time(u) == t_)
                    if 0 < acc <= tot:
                        cand.add(float(acc / tot))
            qs = sorted(x for x in rng.sample(sorted(cand), rng.randint(1, min(5, len(cand)))) if 0 < x <= 1)
            qf = rng.choice(["list", "np.float64"])
            args = dict(common, quantiles=(list(qs) if qf == "list" else np.array(qs)))
            thunk, what = make_call(ctx, rng, ts, "pair_coalescence_quantiles", args)
            ok, got = B.call(ctx, thunk)
            if not ok:
                B.unexpected_error(cs, "pair_coalescence_quantiles", what, got)
                continue
            got = np.asarray(got, dtype=float)
            full = (nw, len(idx_list), len(qs))
            shp = tuple(d for d, keep in zip(full, (windows is not None, idx_arg is not None, True)) if keep)
            ctx.count("coal:quantiles")
            if got.shape != shp:
                ctx.violation("pair_coalescence_quantiles/shape", f"{what}: shape {got.shape} expected {shp}",
                              cs.detail())
                continue
            g = got.reshape(full)
            bad = None
            for w in range(nw):
                for i in range(len(idx_list)):
                    tot = sum(raw[w][i])
                    if tot == 0:
                        continue  # nothing coalesces in the window (edgeless, or a within-set index of one sample)
                    exact = is_pow2(edge_span[w] * tot_pairs[i])  # every product / quotient is exact in binary64
                    cum, acc = [], Fraction(0)
                    for t_ in times:
                        wt = sum(raw[w][i][u] for u in range(ref.N) if ref.m.time(u) == t_)
                        if wt > 0:
                            acc += wt
                            cum.append((t_, acc / tot))
                    for qi, q in enumerate(qs):
                        fq = Fraction(q)
                        # inverted cdf: the smallest time whose cumulative weight reaches q
                        kk = next((k_ for k_, (t_, c_) in enumerate(cum) if c_ >= fq), len(cum) - 1)
                        ok_vals = {cum[kk][0]}
                        # EITHER: q within rounding of a cdf step whose value is not computed exactly in binary64
                        for k_, (t_, c_) in enumerate(cum):
                            if abs(c_ - fq) < Fraction(1, 10 ** 12) and not (exact and c_ == fq):
                                ok_vals.add(t_)
                                if k_ + 1 < len(cum):
                                    ok_vals.add(cum[k_ + 1][0])
                        ctx.count("coal:quantile-entries")
                        if len(ok_vals) == 1 and any(c_ == fq for t_, c_ in cum):
                            ctx.count("coal:quantile-exactly-on-cdf-step")
                        if not any(g[w, i, qi] == v for v in ok_vals):
                            bad = (w, i, q, g[w, i, qi], sorted(ok_vals), [(t_, float(c_)) for t_, c_ in cum])
            if bad:
                ctx.violation("pair_coalescence_quantiles/inverted-cdf-definition",
                              f"{what}: window {bad[0]} index {idx_list[bad[1]]} quantile {bad[2]!r}: got {bad[3]!r}, "
                              f"expected {bad[4]} (time, cumulative weight) = {bad[5]}", cs.detail())
            continue
        # ---- rates: time windows from the sample time to infinity
        inner = sorted(set(rng.sample([t_ + d for t_ in times[1:] for d in (0.0, 0.25, -0.25, 1.0)] or [t0 + 1],
                                      rng.randint(0, min(4, max(1, len(times) - 1))))))
        tw = [t0] + [x for x in inner if x > t0] + [math.inf]
        args = dict(common, time_windows=np.array(tw))
        thunk, what = make_call(ctx, rng, ts, "pair_coalescence_rates", args)
        ok, got = B.call(ctx, thunk)
        if not ok:
            B.unexpected_error(cs, "pair_coalescence_rates", what, got)
            continue
        got = np.asarray(got, dtype=float)
        nb = len(tw) - 1
        full = (nw, len(idx_list), nb)
        shp = tuple(d for d, keep in zip(full, (windows is not None, idx_arg is not None, True)) if keep)
        ctx.count("coal:rates")
        if got.shape != shp:
            ctx.violation("pair_coalescence_rates/shape", f"{what}: shape {got.shape} expected {shp}", cs.detail())
            continue
        g = got.reshape(full)
        bad = None
        for w in range(nw):
            for i in range(len(idx_list)):
                tot = sum(raw[w][i])
                if tot == 0:
                    continue
                Wb = [0.0] * nb
                Tb = [0.0] * nb
                for u in range(ref.N):
                    if raw[w][i][u]:
                        t_ = ref.m.time(u)
                        for b in range(nb):
                            if tw[b] <= t_ < tw[b + 1]:
                                Wb[b] += float(raw[w][i][u] / tot)
                                Tb[b] += float(raw[w][i][u] / tot) * t_
                last = max(b for b in range(nb) if Wb[b] > 0)
                coalesced = 0.0
                for b in range(nb):
                    ctx.count("coal:rate-entries")
                    x = g[w, i, b]
                    if b > last:  # "all pairs have coalesced by start of the window": NaN
                        good = math.isnan(x)
                        e = float("nan")
                    elif b == last:  # 1 / (E[t | t > a] - a)
                        wait = Tb[b] / Wb[b] - tw[b]
                        if wait < 1e-9:
                            good, e = (x > 1e8), float("inf")  # every event on the left edge: unbounded (E6)
                        else:
                            e = 1 / wait
                            good = abs(x - e) <= 1e-8 * abs(e)
                    else:  # log(1 - (ecdf(b) - ecdf(a)) / (1 - ecdf(a))) / (a - b)
                        e = math.log(1 - Wb[b] / (1 - coalesced)) / (tw[b] - tw[b + 1])
                        e = e if e > 0 else 0.0
                        good = abs(x - e) <= 1e-8 * abs(e) / max(1e-3, 1 - coalesced - Wb[b]) + 1e-12
                    coalesced += Wb[b]
                    if not good:
                        bad = (w, i, b, x, e)
        if bad:
            ctx.violation("pair_coalescence_rates/documented-formula",
                          f"{what}: window {bad[0]} index {idx_list[bad[1]]} time window {bad[2]}: got {bad[3]!r} "
                          f"expected {bad[4]!r}", cs.detail())


fam_coal.own_input = True


# ---------------------------------------------------------------------------------------- family: big

BIG_COUNTS = [255, 256, 257, 258, 300]


def many_windows(rng, ref):
    """More than 256 windows (narrow counters / per-window buffers): dyadic grid points plus the tree breakpoints
    and site positions."""
    L = ref.L
    nw = rng.choice([255, 256, 257, 300, 400])
    pool = sorted(set([k * L / 1024 for k in range(1, 1024)] + ref.bps[1:-1]
                      + [s["pos"] for s in ref.sites if 0 < s["pos"] < L]))
    pts = rng.sample(pool, nw - 1)
    return sorted(set([0.0, L] + pts))


def strict_vector_f(rng, total, d):
    """f(x)[j] = a_j * x[j mod K] * (total - x)[(j + s) mod K]: zero at 0 and at the total weight, any output
    dimension d (vectorised so that hundreds of columns stay cheap)."""
    K = len(total)
    a = np.array([rng.randint(-4, 4) / 2 for _ in range(d)])
    i1 = np.arange(d) % K
    i2 = (np.arange(d) + rng.randrange(K)) % K
    total = np.asarray(total, dtype=float)

    def f(x):
        x = np.asarray(x, dtype=float)
        return a * x[i1] * (total - x)[i2]

    return f


def check_coal_counts(cs, rng, sets, idx_list, windows, span_normalise, pair_normalise, bins, got, what):
    """pair_coalescence_counts against MRCA enumeration (E8: either convention for ancestral sample pairs)."""
    ref, ctx = cs.ref, cs.ctx
    got = np.asarray(got, dtype=float)
    exps = []
    for count_ancestral in (False, True):
        raw, edge_span = ref.pair_coalescence_counts(sets, idx_list, windows, count_ancestral)
        if bins is not None:
            nb = len(bins) - 1
            binned = np.zeros(raw.shape[:2] + (nb,))
            for u in range(ref.N):
                t_ = ref.m.time(u)
                for b in range(nb):
                    if bins[b] <= t_ < bins[b + 1]:
                        binned[:, :, b] += raw[:, :, u]
            raw = binned
        exp = raw.copy()
        for w in range(exp.shape[0]):
            for i, (j, k_) in enumerate(idx_list):
                den = 1.0
                if span_normalise:
                    den *= edge_span[w]
                if pair_normalise:
                    den *= (len(sets[j]) * (len(sets[j]) - 1) / 2) if j == k_ else len(sets[j]) * len(sets[k_])
                exp[w, i] = exp[w, i] / den if den != 0 else 0.0
        if windows is None:
            exp = exp[0]
        exps.append(exp)
    tol = 1e-9 * (np.abs(exps[1]).max() if exps[1].size else 0) + B.ATOL
    exp = exps[0]
    if got.shape == exps[1].shape and B.mismatch(got, exps[1], tol) is None:
        exp = exps[1]
    cs.check("pair_coalescence_counts", "pair_coalescence_counts/mrca-enumeration", got, exp, tol, what)


def big_windows(case, ctx, rng):
    m = B.gen_model(rng, max_nodes=8, max_bp=4, max_sites=6)
    cs = B.Case(m, ctx)
    ts, ref = cs.ts, cs.ref
    ctx.sig(("C08", "big-windows", m.signature()))
    windows = many_windows(rng, ref)
    nwin = len(windows) - 1
    ctx.feature("big:windows>=256" if nwin >= 256 else "big:windows=255")
    checks = ["named", "named", "general", "afs", "divmat", "divmat", "coal", "weighted"]
    rng.shuffle(checks)
    for which in checks[:4]:
        mode = rng.choice(["site", "branch", "node"])
        span_normalise = rng.random() < 0.5
        ctx.feature(f"big:many-windows:{which}")
        if which == "named":
            stat = rng.choice(B.ONE_WAY + list(B.K_WAY))
            if stat in B.ONE_WAY:
                sets = B.rand_sample_sets(rng, ref.samples)
                idx_arg, idx_list = None, [(i,) for i in range(len(sets))]
                kw = {}
            else:
                k = B.K_WAY[stat]
                sets = B.rand_sample_sets(rng, ref.samples, k=rng.randint(k, 4), max_size=3)
                idx_list = B.rand_indexes(rng, len(sets), k, maxn=3)
                kw = {"indexes": idx_list}
            what = (f"{stat}(sample_sets={sets}, {kw}, <{nwin} windows>, mode={mode}, "
                    f"span_normalise={span_normalise})")
            ok, got = B.call(ctx, getattr(ts, stat), sets, windows=windows, mode=mode, span_normalise=span_normalise, **kw)
            if not ok:
                B.unexpected_error(cs, f"{stat}/{mode}", what, got)
                continue
            B.check_named_values(cs, stat, sets, idx_list, windows, mode, span_normalise, False, got, what)
        elif which == "general":
            k = rng.randint(1, 2)
            W = B.rand_weights(rng, ref.n, k)
            f = strict_vector_f(rng, W.sum(axis=0), rng.randint(1, 3))
            d = len(f(W.sum(axis=0)))
            pol = rng.random() < 0.5
            what = f"general_stat(W={W.tolist()}, <{nwin} windows>, mode={mode}, polarised={pol}, span_normalise={span_normalise})"
            ok, got = B.call(ctx, ts.general_stat, W, f, d, windows=windows, mode=mode, polarised=pol,
                             span_normalise=span_normalise)
            if not ok:
                B.unexpected_error(cs, "general", what, got)
                continue
            exp, mag, _ = ref.general(W, f, windows, mode, pol, span_normalise)
            cs.check(f"general:{mode}", f"general-stat/{mode}/{'polarised' if pol else 'unpolarised'}", got, exp,
                     B.tol_from(mag, float(np.max(mag)) if mag.size else 0.0), what)
        elif which == "afs":
            sets = B.rand_sample_sets(rng, ref.samples, k=rng.choice([1, 2]), max_size=4, disjoint=True)
            B.check_afs(cs, sets, sets, windows, rng.choice(["site", "branch"]), rng.random() < 0.5, span_normalise)
        elif which == "divmat":
            mode = rng.choice(["site", "branch"])
            nt = rng.choice([0, 2, 3, 17, 40])  # by-window chunking, also with more workers than cores
            arg, sets = B.rand_matrix_sets(rng, ref)
            what = (f"divergence_matrix(sample_sets={arg}, <{nwin} windows>, mode={mode}, "
                    f"span_normalise={span_normalise}, num_threads={nt})")
            ok, got = B.call(ctx, ts.divergence_matrix, arg, windows=windows, mode=mode, span_normalise=span_normalise,
                             num_threads=nt)
            if not ok:
                B.unexpected_error(cs, f"divergence_matrix/{mode}", what, got)
                continue
            got = np.asarray(got, dtype=float)
            exp = ref.divergence_matrix(sets, windows, mode, span_normalise)
            if got.shape != exp.shape:
                ctx.count(f"divmat:{mode}")
                ctx.violation(f"divergence_matrix/{mode}/shape", f"{what}: shape {got.shape} expected {exp.shape}",
                              cs.detail())
                continue
            e = exp.copy()
            for i, A in enumerate(sets):  # E5
                if len(A) == 1:
                    gi = got[..., i, i]
                    e[..., i, i] = np.where(np.isnan(gi), gi, e[..., i, i])
            ctx.feature(f"big:divmat-num_threads={nt}")
            cs.check(f"divmat:{mode}", f"divergence_matrix/{mode}/pairwise-definition", got, e,
                     1e-9 * (np.nanmax(np.abs(e)) if e.size else 0) + B.ATOL, what)
        elif which == "coal":
            sets = B.rand_sample_sets(rng, ref.samples, k=rng.randint(1, 2), disjoint=True)
            idx_list = B.rand_indexes(rng, len(sets), 2, maxn=3)
            pn = rng.random() < 0.4
            what = (f"pair_coalescence_counts(sample_sets={sets}, indexes={idx_list}, <{nwin} windows>, "
                    f"span_normalise={span_normalise}, pair_normalise={pn})")
            ok, got = B.call(ctx, ts.pair_coalescence_counts, sets, indexes=idx_list, windows=windows,
                             span_normalise=span_normalise, pair_normalise=pn)
            if not ok:
                B.unexpected_error(cs, "pair_coalescence_counts", what, got)
                continue
            check_coal_counts(cs, rng, sets, idx_list, windows, span_normalise, pn, None, got, what)
        else:
            k = 2
            W = B.rand_weights(rng, ref.n, k)
            pol, centre = rng.random() < 0.5, rng.random() < 0.5
            idx_list = [(0, 1), (1, 1)]
            what = (f"genetic_relatedness_weighted(W={W.tolist()}, indexes={idx_list}, <{nwin} windows>, mode={mode}, "
                    f"span_normalise={span_normalise}, polarised={pol}, centre={centre})")
            ok, got = B.call(ctx, ts.genetic_relatedness_weighted, W, indexes=idx_list, windows=windows, mode=mode,
                             span_normalise=span_normalise, polarised=pol, centre=centre)
            if not ok:
                B.unexpected_error(cs, f"genetic_relatedness_weighted/{mode}", what, got)
                continue
            n = ref.n
            wsum = W.sum(axis=0)
            Wx = np.column_stack([W, np.full(n, 1.0 / n)])

            def f(x):
                p = x[k]
                if centre:
                    return [(x[i] - wsum[i] * p) * (x[j] - wsum[j] * p) for i, j in idx_list]
                return [x[i] * x[j] for i, j in idx_list]

            exp, mag, _ = ref.general(Wx, f, windows, mode, pol, span_normalise)
            noise = 1e-9 * (np.abs(W).sum() + 1) ** 2 * (ref.L if not span_normalise else 1.0) * \
                (max(abs(ref.m.time(u)) for u in range(ref.N)) * 2 + 1 if mode == "branch" else 1.0)
            cs.check(f"weighted:{mode}", f"genetic_relatedness_weighted/{mode}/summary-function", got, exp,
                     B.tol_from(mag, float(np.max(mag)) if mag.size else 0.0) + noise, what)


def big_columns(case, ctx, rng):
    """More than 256 index tuples / sample sets / weight columns / output dimensions / time bins, on small inputs."""
    m = B.gen_model(rng, max_nodes=8, max_bp=4, max_sites=6)
    cs = B.Case(m, ctx)
    ts, ref = cs.ts, cs.ref
    ctx.sig(("C08", "big-columns", m.signature()))
    checks = ["indexes", "sets", "weights", "afs-dims", "coal-bins"]
    rng.shuffle(checks)
    for which in checks[:3]:
        mode = rng.choice(["site", "branch", "node"])
        span_normalise = rng.random() < 0.5
        windows = B.rand_windows(rng, ref) if rng.random() < 0.6 else None
        nbig = rng.choice(BIG_COUNTS)
        ctx.feature(f"big:many-{which}")
        if which == "indexes":
            stat = rng.choice(list(B.K_WAY))
            k = B.K_WAY[stat]
            sets = B.rand_sample_sets(rng, ref.samples, k=rng.randint(k, 4), max_size=3)
            idx_list = [tuple(rng.randrange(len(sets)) for _ in range(k)) for _ in range(nbig)]
            what = (f"{stat}(sample_sets={sets}, <{nbig} index tuples>, windows={windows}, mode={mode}, "
                    f"span_normalise={span_normalise})")
            ok, got = B.call(ctx, getattr(ts, stat), sets, indexes=idx_list, windows=windows, mode=mode,
                             span_normalise=span_normalise)
            if not ok:
                B.unexpected_error(cs, f"{stat}/{mode}", what, got)
                continue
            B.check_named_values(cs, stat, sets, idx_list, windows, mode, span_normalise, False, got, what)
        elif which == "sets":
            stat = rng.choice(B.ONE_WAY)
            sets = B.rand_sample_sets(rng, ref.samples, k=nbig)
            idx_list = [(i,) for i in range(nbig)]
            what = f"{stat}(<{nbig} sample sets>, windows={windows}, mode={mode}, span_normalise={span_normalise})"
            ok, got = B.call(ctx, getattr(ts, stat), sets, windows=windows, mode=mode, span_normalise=span_normalise)
            if not ok:
                B.unexpected_error(cs, f"{stat}/{mode}", what, got)
                continue
            B.check_named_values(cs, stat, sets, idx_list, windows, mode, span_normalise, False, got,
                                 what + f" sets={sets}")
        elif which == "weights":
            K = nbig if rng.random() < 0.6 else rng.randint(1, 3)
            d = nbig if (K < 10 or rng.random() < 0.5) else rng.randint(1, 3)
            W = np.array([[rng.randint(0, 4) / 2 for _ in range(K)] for _ in range(ref.n)])
            f = strict_vector_f(rng, W.sum(axis=0), d)
            pol = rng.random() < 0.5
            what = (f"general_stat(<W with {K} columns>, <f with {d} outputs>, windows={windows}, mode={mode}, "
                    f"polarised={pol}, span_normalise={span_normalise})")
            ok, got = B.call(ctx, ts.general_stat, W, f, d, windows=windows, mode=mode, polarised=pol,
                             span_normalise=span_normalise)
            if not ok:
                B.unexpected_error(cs, "general", what, got)
                continue
            exp, mag, _ = ref.general(W, f, windows, mode, pol, span_normalise)
            if windows is None:
                exp, mag = exp[0], mag[0]
            cs.check(f"general:{mode}", f"general-stat/{mode}/{'polarised' if pol else 'unpolarised'}", got, exp,
                     B.tol_from(mag, float(np.max(mag)) if mag.size else 0.0), what)
        elif which == "afs-dims":
            # 4-6 sample sets: a joint spectrum with many (small) dimensions
            ns = rng.randint(4, 6)
            sets = [rng.sample(ref.samples, rng.randint(1, min(2, ref.n))) for _ in range(ns)]
            B.check_afs(cs, sets, sets, windows, rng.choice(["site", "branch"]), rng.random() < 0.5, span_normalise)
        else:
            sets = B.rand_sample_sets(rng, ref.samples, k=rng.randint(1, 3), disjoint=True)
            idx_list = [(rng.randrange(len(sets)), rng.randrange(len(sets))) for _ in range(nbig)]
            times = sorted(set(ref.m.time(u) for u in range(ref.N)))
            lo, hi = times[0], times[-1]
            # > 256 time bins, dense enough that neighbouring node times fall into different bins
            step = (hi - lo + 1) / nbig
            bins = [lo + i * step for i in range(nbig)] + [math.inf]
            wl = B.rand_windows(rng, ref, allow_special=False) if windows is not None else None
            pn = rng.random() < 0.4
            what = (f"pair_coalescence_counts(sample_sets={sets}, <{nbig} index pairs>, windows={wl}, "
                    f"span_normalise={span_normalise}, pair_normalise={pn}, <{nbig} time windows>)")
            ok, got = B.call(ctx, ts.pair_coalescence_counts, sets, indexes=idx_list, windows=wl,
                             span_normalise=span_normalise, pair_normalise=pn, time_windows=np.array(bins))
            if not ok:
                B.unexpected_error(cs, "pair_coalescence_counts", what, got)
                continue
            check_coal_counts(cs, rng, sets, idx_list, wl, span_normalise, pn, bins, got, what)


def gen_big_model(rng):
    """>= 255 samples: star (one node with >= 256 children), broom, caterpillar (depth = number of samples) or a
    forest walk; a second tree differs by a few re-attached leaves; up to 4 sites."""
    shape = rng.choice(["star", "star", "broom", "caterpillar", "forest"])
    n = rng.choice(BIG_COUNTS) if shape != "caterpillar" else rng.choice([130, 256, 257])
    L = rng.choice([4.0, 8.0])
    if shape == "forest":
        m = gen.gen_topology(rng, n=n + rng.randint(5, 40), max_bp=1, L=L, sample_mode=rng.choice(["all", "young"]),
                             gaps=False, unsquashed=False)
    else:
        m = RowModel(L)
        m.nodes = [(NODE_IS_SAMPLE, 0.0, NULL, NULL, b"") for _ in range(n)]
        par = {}
        if shape == "star":
            root = n
            m.nodes.append((0, 2.0, NULL, NULL, b""))
            par = {u: root for u in range(n)}
        elif shape == "broom":
            g = rng.randint(2, 4)
            root = n + g
            for _ in range(g):
                m.nodes.append((0, 1.0 + rng.randint(0, 3) / 4, NULL, NULL, b""))
            m.nodes.append((0, 3.0, NULL, NULL, b""))
            cut = sorted(rng.sample(range(1, n), g - 1))
            # one handle carries at least 256 leaves whenever n allows
            grp = 0
            for u in range(n):
                while grp < g - 1 and u >= cut[grp]:
                    grp += 1
                par[u] = n + (0 if rng.random() < 0.9 else grp)
            for h in range(g):
                par[n + h] = root
        else:
            prev = 0
            for u in range(1, n):
                p_ = len(m.nodes)
                m.nodes.append((0, float(u), NULL, NULL, b""))
                par[prev] = p_
                par[u] = p_
                prev = p_
        # second tree: a few leaves re-attached one level up / left parentless
        x = rng.choice([L / 2, L / 4, L])
        edges = []
        moved = set(rng.sample(range(n), rng.randint(1, 4))) if x < L else set()
        for u, p_ in par.items():
            if u in moved:
                edges.append((0.0, x, p_, u, b""))
                q = par.get(p_, NULL)
                if q != NULL and rng.random() < 0.7:
                    edges.append((x, L, q, u, b""))
            else:
                edges.append((0.0, L, p_, u, b""))
        m.edges = sorted(edges, key=lambda e: (m.nodes[e[2]][1], e[2], e[3], e[0]))
    gen.decorate_sites(rng, m, max_sites=4, alleles=gen.SIMPLE_ALLELES, known_times=False)
    return m, shape


def big_samples(case, ctx, rng):
    m, shape = gen_big_model(rng)
    cs = B.Case(m, ctx)
    ts, ref = cs.ts, cs.ref
    ctx.sig(("C08", "big-samples", m.signature()))
    n = ref.n
    ctx.feature(f"big:samples:{shape}")
    ctx.feature("big:samples>=256" if n >= 256 else "big:samples<256")
    maxkids = max((len(t.fr.kids(u)) for t in ref.trees for u in range(ref.N)), default=0)
    if maxkids >= 256:
        ctx.feature("big:children>=256")
    half = n // 2
    perm = rng.sample(ref.samples, n)
    allset = list(ref.samples)
    checks = ["one-way", "one-way", "k-way", "afs", "afs", "tajd", "divmat", "mean_descendants", "coal",
              "trait", "relvec"]
    rng.shuffle(checks)
    # (the count-propagating algorithms with their own counters - GNN, AFS - are cheap: GNN runs in every case)
    for which in ["gnn"] + checks[:5]:
        mode = rng.choice(["site", "branch", "node"])
        span_normalise = rng.random() < 0.5
        windows = None if rng.random() < 0.5 else sorted(set([0.0, ref.L] + rng.sample(
            [k * ref.L / 8 for k in range(1, 8)], rng.randint(0, 2))))
        ctx.feature(f"big:many-samples:{which}")
        if which == "one-way":
            stat = rng.choice(B.ONE_WAY)
            sets = [allset] if rng.random() < 0.5 else [perm[:half + 1], perm[half + 1:], perm[:3]]
            idx_list = [(i,) for i in range(len(sets))]
            what = f"{stat}(<sets of sizes {[len(A) for A in sets]}>, windows={windows}, mode={mode}, span_normalise={span_normalise})"
            ok, got = B.call(ctx, getattr(ts, stat), sets, windows=windows, mode=mode, span_normalise=span_normalise)
            if not ok:
                B.unexpected_error(cs, f"{stat}/{mode}", what, got)
                continue
            B.check_named_values(cs, stat, sets, idx_list, windows, mode, span_normalise, False, got, what)
        elif which == "k-way":
            stat = rng.choice(list(B.K_WAY))
            k = B.K_WAY[stat]
            sets = [perm[:half + 1], perm[half + 1:], perm[:7], perm[-260:]]
            idx_list = B.rand_indexes(rng, 4, k, maxn=3)
            what = (f"{stat}(<sets of sizes {[len(A) for A in sets]}>, indexes={idx_list}, windows={windows}, "
                    f"mode={mode}, span_normalise={span_normalise})")
            ok, got = B.call(ctx, getattr(ts, stat), sets, indexes=idx_list, windows=windows, mode=mode,
                             span_normalise=span_normalise)
            if not ok:
                B.unexpected_error(cs, f"{stat}/{mode}", what, got)
                continue
            B.check_named_values(cs, stat, sets, idx_list, windows, mode, span_normalise, False, got, what)
        elif which == "afs":
            pol = rng.random() < 0.5
            r = rng.random()
            if r < 0.5:
                sets, arg = [allset], (None if rng.random() < 0.5 else [allset])
            else:
                sets = [perm[:half + 1], perm[half + 1:]] if r < 0.8 else [perm[:260], perm[260:263]]
                sets = [A for A in sets if A]
                arg = sets
            B.check_afs(cs, sets, arg, windows, rng.choice(["site", "branch"]), pol, span_normalise)
        elif which == "tajd":
            sets = [allset, perm[:half + 1]]
            what = f"Tajimas_D(<sets of sizes {[len(A) for A in sets]}>, windows={windows}, mode={mode})"
            ok, got = B.call(ctx, ts.Tajimas_D, sets, windows=windows, mode=mode)
            if not ok:
                B.unexpected_error(cs, f"Tajimas_D/{mode}", what, got)
                continue
            B.check_tajimas_d(cs, sets, windows, mode, False, got, what)
        elif which == "divmat":
            mode = rng.choice(["site", "branch"])
            ids = sorted(set(rng.sample(ref.samples, 8) + ref.samples[-3:] + ref.samples[:1]))
            nt = rng.choice([0, 2])
            what = (f"divergence_matrix(sample_sets={ids}, windows={windows}, mode={mode}, "
                    f"span_normalise={span_normalise}, num_threads={nt})")
            ok, got = B.call(ctx, ts.divergence_matrix, ids, windows=windows, mode=mode, span_normalise=span_normalise,
                             num_threads=nt)
            if not ok:
                B.unexpected_error(cs, f"divergence_matrix/{mode}", what, got)
                continue
            got = np.asarray(got, dtype=float)
            sets = [[u] for u in ids]
            exp = ref.divergence_matrix(sets, windows, mode, span_normalise)
            if windows is None:
                exp = exp[0]
            if got.shape != exp.shape:
                ctx.count(f"divmat:{mode}")
                ctx.violation(f"divergence_matrix/{mode}/shape", f"{what}: shape {got.shape} expected {exp.shape}",
                              cs.detail())
                continue
            e = exp.copy()
            for i in range(len(ids)):  # E5
                gi = got[..., i, i]
                e[..., i, i] = np.where(np.isnan(gi), gi, e[..., i, i])
            cs.check(f"divmat:{mode}", f"divergence_matrix/{mode}/pairwise-definition", got, e,
                     1e-9 * (np.nanmax(np.abs(e)) if e.size else 0) + B.ATOL, what)
        elif which == "gnn":
            sets = [perm[:half + 1], perm[half + 1:]]
            focal = rng.sample(range(ref.N), 5) + [ref.samples[-1]]
            B.check_gnn(cs, focal, sets, num_threads=rng.choice([0, 2]))
        elif which == "mean_descendants":
            sets = [perm[:half + 1], perm[half + 1:], perm[:2]]
            what = f"mean_descendants(<sets of sizes {[len(A) for A in sets]}>)"
            ok, got = B.call(ctx, ts.mean_descendants, sets)
            if not ok:
                B.unexpected_error(cs, "mean_descendants", what, got)
                continue
            got = np.asarray(got, dtype=float)
            e_refs = ref.mean_descendants(sets, "refs")
            e_samp = ref.mean_descendants(sets, "samples")
            ctx.count("mean_descendants")
            if got.shape != e_refs.shape:
                ctx.violation("mean_descendants/shape", f"{what}: shape {got.shape} expected {e_refs.shape}",
                              cs.detail())
                continue
            for u in range(ref.N):  # E4
                if B.mismatch(got[u], e_refs[u], 1e-9) is None:
                    continue
                if not np.any(np.isnan(e_samp[u])) and B.mismatch(got[u], e_samp[u], 1e-9) is None:
                    continue
                ctx.violation("mean_descendants/span-average-definition",
                              f"{what}: node {u} got {B._fmt(got[u])} expected {B._fmt(e_refs[u])}", cs.detail())
                break
        elif which == "coal":
            # (MRCA enumeration is quadratic: two sets of <= 20 samples of the big tree, high ids included)
            A = sorted(set(rng.sample(ref.samples, 12) + ref.samples[-2:]))
            Bs = [u for u in rng.sample(ref.samples, 14) if u not in A]
            sets = [A, Bs] if Bs else [A]
            idx_list = B.rand_indexes(rng, len(sets), 2, maxn=3)
            pn = rng.random() < 0.4
            what = (f"pair_coalescence_counts(sample_sets={sets}, indexes={idx_list}, windows={windows}, "
                    f"span_normalise={span_normalise}, pair_normalise={pn})")
            ok, got = B.call(ctx, ts.pair_coalescence_counts, sets, indexes=idx_list, windows=windows,
                             span_normalise=span_normalise, pair_normalise=pn)
            if not ok:
                B.unexpected_error(cs, "pair_coalescence_counts", what, got)
                continue
            check_coal_counts(cs, rng, sets, idx_list, windows, span_normalise, pn, None, got, what)
        elif which == "trait":
            W = np.array([[float(rng.randint(-3, 3))] for _ in range(n)])
            W[0, 0] += 1.0 if np.std(W) == 0 else 0.0
            stat = rng.choice(["trait_covariance", "trait_correlation"])
            what = f"{stat}(<W of {n} rows>, windows={windows}, mode={mode}, span_normalise={span_normalise})"
            ok, got = B.call(ctx, getattr(ts, stat), W, windows=windows, mode=mode, span_normalise=span_normalise)
            if not ok:
                B.unexpected_error(cs, f"{stat}/{mode}", what, got)
                continue
            B.check_trait_values(cs, stat, W, None, windows, mode, span_normalise, got, what + f" W={W[:, 0].tolist()}")
        else:
            # genetic_relatedness_vector, branch mode, uncentred, for a few focal nodes: sum_b W_b B(a, b) is the
            # area of the branches above a weighted by the total weight below each of them
            W = np.array([[rng.randint(-4, 4) / 2] for _ in range(n)])
            nodes = rng.sample(range(ref.N), 4) + [ref.samples[-1]]
            what = (f"genetic_relatedness_vector(<W of {n} rows>, windows={windows}, mode='branch', "
                    f"span_normalise={span_normalise}, centre=False, nodes={nodes})")
            ok, got = B.call(ctx, ts.genetic_relatedness_vector, W, windows=windows, mode="branch",
                             span_normalise=span_normalise, centre=False, nodes=nodes)
            if not ok:
                B.unexpected_error(cs, "genetic_relatedness_vector", what, got)
                continue
            wl = ref.parse_windows(windows)
            exp = np.zeros((len(wl) - 1, len(nodes), 1))
            mg = np.zeros_like(exp)
            for t in ref.trees:
                for a, u in enumerate(nodes):
                    v, tot, atot = u, 0.0, 0.0
                    while t.blen[v] is not None:
                        wsum = sum(W[i, 0] for i in t.below[v])
                        tot += t.blen[v] * wsum
                        atot += abs(t.blen[v]) * sum(abs(W[i, 0]) for i in t.below[v])
                        v = t.fr.parent[v]
                    for w in range(len(wl) - 1):
                        lo, hi = max(t.left, wl[w]), min(t.right, wl[w + 1])
                        if hi > lo:
                            exp[w, a, 0] += tot * (hi - lo)
                            mg[w, a, 0] += atot * (hi - lo)
            if span_normalise:
                for w in range(len(wl) - 1):
                    exp[w] /= wl[w + 1] - wl[w]
                    mg[w] /= wl[w + 1] - wl[w]
            if windows is None:
                exp, mg = exp[0], mg[0]
            cs.check("relatedness-vector", "genetic_relatedness_vector/matrix-vector-definition", got, exp,
                     1e-9 * (mg + np.abs(mg).max()) + B.ATOL, what + f" W={W[:, 0].tolist()}")


def big_one_sample(case, ctx, rng):
    """(c) structurally extreme the other way: exactly ONE sample (every pairwise statistic is undefined, every
    count statistic is trivial), no site at all, no edge at all."""
    kind = rng.choice(["one-sample", "one-sample", "no-sites", "no-edges"])
    for _ in range(30):
        m = gen.gen_full(rng, max_nodes=7, max_bp=3, max_sites=5, meta=False, pops=False,
                         sample_mode=rng.choice(["few", "any"]) if kind == "one-sample" else None)
        if kind == "one-sample":
            s = m.samples()
            if len(s) == 0:
                continue
            keep = rng.choice(s)
            m.nodes = [((f & ~NODE_IS_SAMPLE) if u != keep else f, t, p_, i, md) for u, (f, t, p_, i, md) in enumerate(m.nodes)]
        elif kind == "no-sites":
            m.sites, m.mutations = [], []
        else:
            m.edges = []
            par_free = [(s_, u, d, NULL, t, md) for s_, u, d, p_, t, md in m.mutations]
            m.mutations = par_free
            par = mutation_parents(m)
            m.mutations = [(s_, u, d, par[k], t, md) for k, (s_, u, d, _, t, md) in enumerate(m.mutations)]
        if len(m.samples()) >= 1:
            break
    else:
        return
    cs = B.Case(m, ctx)
    ts, ref = cs.ts, cs.ref
    ctx.sig(("C08", "big-degenerate", kind, m.signature()))
    ctx.feature(f"big:degenerate:{kind}")
    samples = list(ref.samples)
    for rep in range(4):
        mode = rng.choice(["site", "branch", "node"])
        span_normalise = rng.random() < 0.5
        windows = B.rand_windows(rng, ref)
        stat = rng.choice(B.ONE_WAY + ["divergence", "Y2", "f2", "afs", "general"])
        if stat in B.ONE_WAY:
            sets = [samples] if rng.random() < 0.6 else B.rand_sample_sets(rng, samples)
            what = f"{stat}(sample_sets={sets}, windows={windows}, mode={mode}, span_normalise={span_normalise})"
            ok, got = B.call(ctx, getattr(ts, stat), sets, windows=windows, mode=mode, span_normalise=span_normalise)
            if not ok:
                B.unexpected_error(cs, f"{stat}/{mode}", what, got)
                continue
            B.check_named_values(cs, stat, sets, [(i,) for i in range(len(sets))], windows, mode, span_normalise,
                                 False, got, what)
        elif stat in ("divergence", "Y2", "f2"):
            sets = B.rand_sample_sets(rng, samples, k=2)
            idx_list = B.rand_indexes(rng, 2, 2, maxn=3)
            what = (f"{stat}(sample_sets={sets}, indexes={idx_list}, windows={windows}, mode={mode}, "
                    f"span_normalise={span_normalise})")
            ok, got = B.call(ctx, getattr(ts, stat), sets, indexes=idx_list, windows=windows, mode=mode,
                             span_normalise=span_normalise)
            if not ok:
                B.unexpected_error(cs, f"{stat}/{mode}", what, got)
                continue
            B.check_named_values(cs, stat, sets, idx_list, windows, mode, span_normalise, False, got, what)
        elif stat == "afs":
            B.check_afs(cs, [samples], None if rng.random() < 0.5 else [samples], windows,
                        rng.choice(["site", "branch"]), rng.random() < 0.5, span_normalise)
        else:
            W = B.rand_weights(rng, ref.n, 2)
            f = strict_vector_f(rng, W.sum(axis=0), 2)
            pol = rng.random() < 0.5
            what = (f"general_stat(W={W.tolist()}, windows={windows}, mode={mode}, polarised={pol}, "
                    f"span_normalise={span_normalise})")
            ok, got = B.call(ctx, ts.general_stat, W, f, 2, windows=windows, mode=mode, polarised=pol,
                             span_normalise=span_normalise)
            if not ok:
                B.unexpected_error(cs, "general", what, got)
                continue
            exp, mag, _ = ref.general(W, f, windows, mode, pol, span_normalise)
            if windows is None:
                exp, mag = exp[0], mag[0]
            cs.check(f"general:{mode}", f"general-stat/{mode}/{'polarised' if pol else 'unpolarised'}", got, exp,
                     B.tol_from(mag, float(np.max(mag)) if mag.size else 0.0), what)


BIG = [big_windows, big_columns, big_samples, big_one_sample]


def fam_big(case, ctx, rng):
    BIG[case["k"] % len(BIG)](case, ctx, rng)


fam_big.own_input = True
