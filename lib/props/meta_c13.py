import os

from lib.props.meta_common import ASSUME_COMMON

ID = "C13"
META = dict(
    LEVEL="exploration",
    RULE=("(a) for each of the eight table classes, random programs of 10-200 operations (add_row, append, int/slice/"
          "mask/id-array indexing, row assignment, truncate, keep_rows, clear, set_columns, append_columns, packset_*, "
          "column and offset assignment, drop_metadata, copy, iteration, ==, plus refused variants of each) with "
          "arbitrary row values (NaN/inf/-0.0, ids around the table size, empty and > 64 KiB ragged entries, 1100-row "
          "bulk appends, max_rows_increment 0/1/2/7, raw or JSON-schema metadata); after every operation the raw "
          "columns are compared bit-exactly with a Python list of row tuples. (b) generated tree sequences driven by "
          "random programs over every public TreeSequence/Tree/Variant name from dir(), fingerprinted (all columns of "
          "dump_tables() + all array properties) after every call, with every numpy array found in any result probed "
          "for writeability/aliasing. A case is distinct by (table class, operation sequence, final rows) resp. the "
          "tree sequence's rows; a table case is non-trivial with >= 5 completed operations, a ts case with >= 1 edge."),
    REQUIRED=["verify", "refusal", "row-object", "setitem-foreign-schema", "keep_rows-idmap", "iteration", "eq", "fingerprint", "call",
              "array-readonly", "array-writeable-probe", "tables-mutation-probe", "tree-probe", "variant-probe"],
    ASSUMPTIONS=ASSUME_COMMON + [
        "arrays are probed through the numpy interface only; writes through ctypes or the buffer protocol of "
        "read-only arrays are not attempted",
    ],
    # seconds per worker; VERIF_C13_THOROUGH_BUDGET shortens the thorough tier while testing
    BUDGET={"quick": 50.0, "thorough": float(os.environ.get("VERIF_C13_THOROUGH_BUDGET", 840.0))},
)
