import os

from lib.props.meta_common import ASSUME_COMMON

ID = "C13"
META = dict(
    LEVEL="exploration",
    RULE=("(a) for each of the eight table classes, free-standing (max_rows_increment 0/1/2/7) or inside a TableCollection "
          "whose seven other tables must stay untouched, random programs of 10-200 operations (add_row keyword / "
          "positional / numpy-scalar forms, append, int / slice / mask / id-array / range indexing, row assignment from "
          "another table, the same table, a tree sequence's row objects, another schema, truncate, keep_rows, clear / "
          "reset, set_columns, append_columns in list / strided / read-only / byte-swapped / narrower-dtype forms, "
          "packset_*, column, offset and schema assignment, drop_metadata, replace_with, copy, pickle / copy.copy / "
          "deepcopy, collection copy / pickle / fromdict / clear, low-level extend / get_row, pack_* / unpack_*, "
          "iteration, ==, equals(ignore_*), assert_equals, plus refused variants of each) with arbitrary row values "
          "(NaN/inf/-0.0, ids around the table size, empty and > 64 KiB ragged entries, 1100-row bulk appends) and raw, "
          "JSON-schema or struct-schema metadata; a fixed share of the programs (3 in 44) brings the row count to "
          "exactly 1024/2048 or one ragged column to exactly 64/128 KiB and steps over the boundary one row at a "
          "time; after every operation the raw columns are compared bit-exactly with a Python list of row tuples. "
          "(b) generated (arbitrary, struct-metadata, or msprime-simulated) tree sequences driven by random programs "
          "over every public TreeSequence/Tree/Variant name from dir() plus pickle / copy / str / == / attribute "
          "assignment / mutation of the source TableCollection / multi-hop reads, fingerprinted (all columns of "
          "dump_tables() + all array properties; trees, samples, individual nodes and genotypes as derived state) "
          "after every call, with every numpy array found in any result probed for writeability / aliasing "
          "(including setflags(write=True)) and every mutable object found (row objects, lists, dicts, tables, the "
          "reference sequence) modified. A case is distinct by (table class, operation sequence, final rows) resp. "
          "the tree sequence's rows; a table case is non-trivial with >= 5 completed operations, a ts case with >= 1 "
          "edge."),
    REQUIRED=["verify", "refusal", "row-object", "setitem-foreign-schema", "keep_rows-idmap", "iteration", "eq", "fingerprint", "call",
              "array-readonly", "array-writeable-probe", "tables-mutation-probe", "tree-probe", "variant-probe",
              "tc-others-unchanged", "same-table-row", "ts-row-object", "unpack", "pickle", "extend-ll",
              "boundary-crossing", "handed-out-mutation", "deep-fingerprint", "source-tables-mutation"],
    ASSUMPTIONS=ASSUME_COMMON + [
        "arrays are probed through the numpy interface only; writes through ctypes or the buffer protocol of "
        "read-only arrays are not attempted",
    ],
    # seconds per worker; VERIF_C13_THOROUGH_BUDGET shortens the thorough tier while testing
    BUDGET={"quick": 50.0, "thorough": float(os.environ.get("VERIF_C13_THOROUGH_BUDGET", 840.0))},
)
