"""C18 — Newick, Nexus and FASTA exports encode the trees and sequences faithfully.

Oracles (written from the docstrings of Tree.as_newick / Tree.newick / TreeSequence.write_nexus /
write_fasta / alignments, none of them shares code with tskit):

 N1  parse: an own Newick reader turns the output into (label, length string, children) nodes; the
     canonical form (children as multisets) must equal that of the reference sub-forest below the chosen
     root taken from the edge rows ({child: parent} at the tree's position), with labels `n<id>` for
     samples (or node_labels.get(u, "")), branch strings == format(time[parent]-time[child], ".<p>f"),
     no length on the (sub)tree root, terminated by ';'.
 N2  precision default: 0 when all times of the tree sequence are integers, else 17.
 N3  fast C path (no node_labels) == general Python path (explicit default labels), string-identical;
     same for the legacy newick() with its leaf labels id+1.
 N4  as_newick() without root raises ValueError iff the tree does not have exactly one root; with
     root=u it succeeds for every node u.
 X1  nexus: TAXA lists n<u> for all samples; one TREE per marginal tree named t<left>^<right> at the
     documented position precision whose string is that tree's as_newick; DATA rows / FASTA records equal
     alignments() (and an independent nearest-mutation reference alignment), wrapped at wrap_width.
 L1  the low-level writer behind the fast path (Tree._ll_tree.get_newick) with caller-sized buffers around
     the exact length: "buffer too small" or exactly the string the fast path returned, never a cut one
     (and the ASan build sees any byte written past the buffer).
 F1  writers handed an open file object (StringIO / real file holding text already) leave it open, keep
     what was there and what is written afterwards.

Audit additions (lib/props/AUDIT-C18.md, helpers in lib/props/c18_ext.py): every precision 0..17; root /
precision / wrap_width as numpy scalars; the documented "None = default" spelled out for root, precision,
node_labels, include_branch_lengths; newick(precision) positional and newick(node_labels=custom); Tree objects
reached by at / at_index (also negative) / first / last / iteration / reversed iteration / copy / seek /
seek_index / prev-next, with sample_lists / tracked_samples; the null tree; root_threshold > 1 on and one
above the sample counts of the parentless nodes (kind "thr"); tree sequences after file / pickle / tables
round trips; node tables with ids past 2^15 / 2^16 and node counts on 10^k boundaries (kind "wide");
time classes "carry" (branch rounds up to the next power of ten) and "extreme" (1e300, denormals);
>= 256 marginal trees in one nexus file; genomes > 2^16 (FASTA records > 64 KiB); wrap widths that divide
the record length.

EITHER zones (not asserted):
  * order of children in the Newick string (compared as multisets);
  * precision default when all *node* times are integers but some mutation/migration time is not
    (the as_newick docstring says "only integer node times", discrete_time says all times): 0 or 17;
  * which of ValueError/TypeError is raised when alignments are undefined for more than one reason;
  * legacy newick() LABELS for a subtree root that is not reachable from any tree root, and for isolated
    non-sample nodes (the two code paths define "leaf" differently there; deprecated API, undocumented);
    topology and branch lengths are still compared there (monitor legacy-newick:labels-open);
  * which buffer sizes up to len+2 the low-level get_newick refuses (undocumented C API); 2*len+64 must do;
  * root = Tree.virtual_root (not a node id; the two paths differ), precision > 17 (only the general path
    takes it), negative / fractional wrap_width: undocumented, not driven;
  * order of the DATA and TREES blocks in a nexus file;
  * an embedded reference sequence longer than the genome (cut to [0, L) or ValueError);
  * FASTA/nexus for a tree sequence without samples when alignments() would raise (the writers never advance
    the lazy alignments iterator): empty output or the same exception.
"""
import hashlib
import io
import math
import os
import re
import tempfile

import tskit

from lib import gen
from lib.harness import case_rng
from lib.model import NODE_IS_SAMPLE, NULL, RowModel, allele_at, forest, sort_edges_key
from lib.tsk import to_ts
from lib.props import c18_ext as X

ID = "C18"
DEEP_GENERAL = 10 ** 9  # no limit: deep trees go through the Python path too (DNEW-newick-general-path-recursion)
PRECISIONS = X.ALL_PRECISIONS  # every value the extension accepts (0..17) and "left out"


# ------------------------------------------------------------------------------- case lists


def set_partitions(items):
    """All partitions of a list into blocks (blocks ordered by their smallest element)."""
    if not items:
        yield []
        return
    first, rest = items[0], items[1:]
    for p in set_partitions(rest):
        for i in range(len(p)):
            yield p[:i] + [[first] + p[i]] + p[i + 1:]
        yield [[first]] + p


def top_partitions(n):
    return [sorted(p) for p in set_partitions(list(range(n))) if len(p) >= 2] if n > 1 else [[[0]]]


def labelled_trees(leaves):
    """All leaf-labelled rooted trees without unary nodes: a leaf is an int, an internal node a tuple."""
    if len(leaves) == 1:
        yield leaves[0]
        return
    for p in set_partitions(list(leaves)):
        if len(p) < 2:
            continue
        yield from _product([list(labelled_trees(b)) for b in p])


def _product(lists):
    if not lists:
        yield ()
        return
    for x in lists[0]:
        for rest in _product(lists[1:]):
            yield (x,) + rest


def cases(tier, seed):
    only = os.environ.get("VERIF_C18_KINDS")  # development knob: comma separated case kinds
    for c in _cases(tier, seed):
        if only is None or c["gen"] in only.split(","):
            yield c


def _cases(tier, seed):
    quick = tier == "quick"
    out = []
    # exhaustive leaf-labelled topologies: one case per top-level partition
    for n in range(1, 7 if quick else 8):
        for j in range(len(top_partitions(n))):
            out.append({"gen": "enum", "n": n, "part": j})
    nrand = 14000 if quick else 700000
    # interleave so that a loaded machine still sees every kind
    enum_iter = iter(out)
    k = 0
    while k < nrand:
        r = k % 20
        if r < 10:
            yield {"gen": "rand", "k": k}
        elif r < 12:
            yield {"gen": "d7", "k": k}
        elif r < 15:
            yield {"gen": "ts", "k": k}
        elif r < 18:
            yield {"gen": "aln", "k": k}
        elif r < 19:
            # root_threshold > 1 (the tree's roots are then a subset of the parentless nodes) / wide node tables
            yield {"gen": "thr", "k": k} if (k // 20) % 4 else {"gen": "wide", "k": k}
        else:
            yield {"gen": "big", "k": k} if (k // 20) % 4 == 0 else {"gen": "msp", "k": k}
        if quick or k % 4 == 0:
            e = next(enum_iter, None)
            if e is not None:
                yield e
        k += 1
    for e in enum_iter:
        yield e


# ------------------------------------------------------------------------------- newick reader


class NewickError(Exception):
    pass


SPECIAL = "(),:;"


def parse_newick(s):
    """Iterative reader.  Returns nodes = list of [label, length-or-None, [child indices], parent index];
    node 0 is the root.  Children always have larger indices than their parent."""
    nodes = [["", None, [], -1]]
    cur = 0
    i = 0
    n = len(s)
    state = "start"  # start: may open or label; after-close: may label; after-label: may length
    while True:
        if i >= n:
            raise NewickError("string ends before ';'")
        c = s[i]
        if c == "(":
            if state != "start":
                raise NewickError(f"'(' not allowed at offset {i}")
            nodes.append(["", None, [], cur])
            nodes[cur][2].append(len(nodes) - 1)
            cur = len(nodes) - 1
            state = "start"
            i += 1
        elif c == ",":
            par = nodes[cur][3]
            if par < 0:
                raise NewickError(f"',' at top level (offset {i})")
            nodes.append(["", None, [], par])
            nodes[par][2].append(len(nodes) - 1)
            cur = len(nodes) - 1
            state = "start"
            i += 1
        elif c == ")":
            par = nodes[cur][3]
            if par < 0:
                raise NewickError(f"unbalanced ')' at offset {i}")
            cur = par
            state = "after-close"
            i += 1
        elif c == ":":
            if state == "after-length":
                raise NewickError(f"second ':' at offset {i}")
            j = i + 1
            while j < n and s[j] not in SPECIAL:
                j += 1
            nodes[cur][1] = s[i + 1:j]
            state = "after-length"
            i = j
        elif c == ";":
            if nodes[cur][3] != -1:
                raise NewickError(f"';' inside parentheses at offset {i}")
            if i != n - 1:
                raise NewickError(f"text after ';': {s[i + 1:i + 20]!r}")
            return nodes
        else:
            if state not in ("start", "after-close"):
                raise NewickError(f"unexpected text at offset {i}: {s[i:i + 10]!r}")
            j = i
            while j < n and s[j] not in SPECIAL:
                j += 1
            nodes[cur][0] = s[i:j]
            state = "after-label"
            i = j


def _h(label, length, kid_hashes, mask):
    if mask == "topology":
        label, length = "", None
    elif mask == "labels":
        length = None
    elif mask == "lengths":
        label = ""
    x = repr((label, length, sorted(kid_hashes))).encode("utf8", "surrogatepass")
    return hashlib.blake2b(x, digest_size=12).digest()


def canon_parsed(nodes, mask=None):
    hs = [None] * len(nodes)
    for k in range(len(nodes) - 1, -1, -1):
        label, length, kids, _ = nodes[k]
        hs[k] = _h(label, length, [hs[c] for c in kids], mask)
    return hs[0]


def canon_ref(fr, root, label_of, blen_of, mask=None):
    """Canonical hash of the reference subtree below `root`; blen_of(u) is the expected length string of
    the branch above u (None for the subtree root / when lengths are omitted)."""
    order = [root]
    k = 0
    while k < len(order):
        order.extend(fr.kids(order[k]))
        k += 1
    hs = {}
    for u in reversed(order):
        hs[u] = _h(label_of(u), None if u == root else blen_of(u), [hs[c] for c in fr.kids(u)], mask)
    return hs[root], len(order)


def subtree_depth(fr, root):
    depth = {root: 0}
    stack = [root]
    mx = 0
    while stack:
        u = stack.pop()
        for c in fr.kids(u):
            depth[c] = depth[u] + 1
            mx = max(mx, depth[c])
            stack.append(c)
    return mx


# ------------------------------------------------------------------------------- expectations


def is_int(x):
    return x == math.floor(x)


def default_precisions(m):
    """Set of acceptable default precisions (N2 + its EITHER zone)."""
    node_int = all(is_int(t) for _, t, _, _, _ in m.nodes)
    other_int = all(t is None or is_int(t) for *_, t, _ in m.mutations) and all(is_int(g[5]) for g in m.migrations)
    if not node_int:
        return {17}
    if other_int:
        return {0}
    return {0, 17}


def cached_forest(m, x):
    """forest(m, x), kept on the model object (the exports look at every marginal tree several times)."""
    cache = m.__dict__.setdefault("_c18_forests", {})
    fr = cache.get(x)
    if fr is None:
        fr = cache[x] = forest(m, x)
    return fr


class TreeRef:
    """Reference view of one marginal tree."""

    def __init__(self, m, x, root_threshold=1, null=False):
        self.m = m
        self.fr = cached_forest(m, x)
        if null:
            # the null tree (Tree.clear(), a fresh Tree object, one step off either end): no edges at all
            self.fr = type(self.fr)(m, {})
        self.samples = set(m.samples())
        # roots: the parentless ancestors of the samples that have at least root_threshold samples below them
        # (Tree.roots / root_threshold documentation); memoised walk for big trees
        top = {}
        par = self.fr.parent
        below = {}
        for s in self.samples:
            path = []
            u = s
            while u in par and u not in top:
                path.append(u)
                u = par[u]
            r = top.get(u, u)
            for v in path:
                top[v] = r
            top[s] = r
            below[r] = below.get(r, 0) + 1
        self.roots = {r for r, k in below.items() if k >= root_threshold}
        self.root_threshold = root_threshold

    def default_label(self, u):
        return f"n{u}" if u in self.samples else ""

    def legacy_label(self, u):
        return str(u + 1) if not self.fr.kids(u) else ""

    def blen(self, p):
        m, fr = self.m, self.fr
        return lambda u: format(m.time(fr.parent[u]) - m.time(u), f".{p}f")


def short(s, n=300):
    return s if len(s) <= n else s[:n // 2] + f" ...[{len(s)} chars]... " + s[-n // 2:]


def check_string(ctx, what, s, tr, root, label_of, precision, ibl, detail, mask=None):
    """N1 for one output string.  Returns True when it is faithful.  mask="lengths": labels are not compared
    (topology and branch strings only)."""
    ctx.count("newick-parse")
    if not isinstance(s, str):
        ctx.violation("newick/not-a-string", f"{what} on {describe(tr, root)} returned {type(s).__name__}", detail)
        return False
    try:
        nodes = parse_newick(s)
    except NewickError as e:
        ctx.violation("newick/malformed", f"{what} on {describe(tr, root)} returned {short(s)!r}: {e}", detail)
        return False
    blen = tr.blen(precision) if ibl else (lambda u: None)
    want, size = canon_ref(tr.fr, root, label_of, blen, mask)
    got = canon_parsed(nodes, mask)
    if want == got:
        return True
    # classify the disagreement by mechanism
    if len(nodes) != size or canon_parsed(nodes, "topology") != canon_ref(tr.fr, root, label_of, blen, "topology")[0]:
        key = "newick/topology"
    elif canon_parsed(nodes, "labels") != canon_ref(tr.fr, root, label_of, blen, "labels")[0]:
        key = "newick/label"
    elif nodes[0][1] is not None:
        key = "newick/root-branch-length"
    elif not ibl:
        key = "newick/branch-length-not-omitted"
    else:
        key = "newick/branch-length"
    ctx.violation(key, f"{what} on {describe(tr, root)} returned {short(s)!r}; expected (children in any order) {short(render_ref(tr, root, label_of, blen))!r}", detail)
    return False


def render_ref(tr, root, label_of, blen):
    """A readable rendering of the expectation (iterative; child order arbitrary = sorted ids)."""
    out = []
    stack = [(root, 0)]
    while stack:
        u, st = stack.pop()
        kids = sorted(tr.fr.kids(u))
        if st == 0 and kids:
            out.append("(")
            stack.append((u, 1))
            for j, c in enumerate(reversed(kids)):
                stack.append((c, 0))
                if j < len(kids) - 1:
                    stack.append((None, 2))
            continue
        if st == 2:
            out.append(",")
            continue
        if st == 1:
            out.append(")")
        out.append(label_of(u))
        if u != root and blen(u) is not None:
            out.append(":" + blen(u))
    return "".join(out) + ";"


def describe(tr, root):
    order = [root]
    k = 0
    while k < len(order) and len(order) < 40:
        order.extend(sorted(tr.fr.kids(order[k])))
        k += 1
    d = {u: (tr.fr.par(u) if u != root else None, tr.m.time(u), int(u in tr.samples)) for u in order[:40]}
    return f"{{node: (parent, time, is_sample)}}={d}" + (" ..." if len(order) >= 40 else "")


def call_newick(ctx, fn, what, detail):
    """Invoke a newick producer; classify exceptions.  Returns the string or None."""
    try:
        return fn()
    except tskit.LibraryError as e:
        if "buffer" in str(e).lower():
            ctx.violation("newick/fast-path-buffer-too-small", f"{what} raised LibraryError: {e}", detail)
        else:
            ctx.violation("newick/raises/LibraryError", f"{what} raised LibraryError: {e}", detail)
    except RecursionError as e:
        ctx.violation("newick/raises/RecursionError", f"{what} raised RecursionError: {e}", detail)
    except Exception as e:
        ctx.violation(f"newick/raises/{type(e).__name__}", f"{what} raised {type(e).__name__}: {e}", detail)
    return None


LABEL_POOL = ["", "x", "A1", "node 7", "é", "sample_3", "0", "n0", "a'b", "[x]", "−", " lead", "0.5", "L" * 40, "_", "#"]


def random_labels(rng, m, nodes_below):
    r = rng.random()
    nodes = list(range(m.num_nodes))
    if r < 0.15:
        return {}
    if r < 0.4:
        return {u: f"n{u}" for u in nodes}  # every node labelled
    if r < 0.6:
        return {u: rng.choice(LABEL_POOL) for u in nodes if rng.random() < 0.5}
    if r < 0.8:
        # keys outside the tree / not nodes at all must be ignored
        d = {u: f"L{u}" for u in nodes if rng.random() < 0.7}
        d[m.num_nodes + 5] = "ghost"
        d[-1] = "null"
        return d
    return {u: str(m.time(u)) for u in nodes if rng.random() < 0.8}


def check_tree(ctx, rng, tree, tr, m, detail, roots=None, precisions=None, general=True, light=False, legacy=None,
               probe=None):
    """All as_newick/newick monitors for one positioned tskit.Tree against its TreeRef.
    light: fast path + general path with the default labels only; legacy / probe force (True) or forbid (False)
    the legacy newick() block and the low-level buffer probe, None = by the mode."""
    samples = sorted(tr.samples)
    dflt = default_precisions(m)
    nroots = len(tr.roots)
    # ---- N4: whole tree
    ctx.count("as_newick:whole-tree")
    if nroots != 1:
        ctx.feature("whole-tree:no-root" if nroots == 0 else "whole-tree:several-roots")
        for name, fn in (("as_newick()", lambda: tree.as_newick()), ("newick()", lambda: tree.newick()),
                         ("as_newick(node_labels={})", lambda: tree.as_newick(node_labels={})),
                         ("as_newick(root=None, include_branch_lengths=False)",
                          lambda: tree.as_newick(root=None, include_branch_lengths=False)),
                         ("newick(3, root=None)", lambda: tree.newick(3, root=None))):
            ctx.count("newick-multiroot-must-raise")
            try:
                s = fn()
            except ValueError:
                continue
            except Exception as e:
                ctx.violation("newick/multiroot-wrong-exception", f"{name} on a tree with {nroots} roots raised "
                              f"{type(e).__name__}: {e} (documented: ValueError)", detail)
                continue
            ctx.violation("newick/multiroot-accepted", f"{name} on a tree with roots {sorted(tr.roots)} "
                          f"(root_threshold={tr.root_threshold}) returned {short(s)!r} instead of raising ValueError", detail)
    if roots is None:
        roots = [None] if nroots == 1 else []
        allnodes = list(range(m.num_nodes))
        if m.num_nodes <= 12 and not light:
            roots += allnodes
        else:
            roots += rng.sample(allnodes, min(len(allnodes), 3 if light else 6)) + sorted(tr.roots)[:2]
    if precisions is None:
        precisions = rng.sample(PRECISIONS, 1 if light else 3)
    for root in roots:
        if root is None and nroots != 1:
            continue
        r = root if root is not None else next(iter(tr.roots))
        depth = subtree_depth(tr.fr, r)
        do_general = general and depth <= DEEP_GENERAL
        reachable = tr.fr.root_of(r) in tr.roots
        do_probe = (rng.random() < (0.15 if light else 0.2)) if probe is None else probe
        for p in precisions:
            kw = X.newick_kwargs(rng, ctx, root, p, fast=True)
            args = X.show_kwargs(kw)
            # ---- fast path
            ctx.count("as_newick:fast")
            s1 = call_newick(ctx, lambda: tree.as_newick(**kw), f"as_newick({args})", detail)
            peff = p
            if s1 is not None:
                peff = p if p is not None else resolve_default(ctx, s1, tr, r, dflt, f"as_newick({args})", detail)
                ok = check_string(ctx, f"as_newick({args})", s1, tr, r, tr.default_label, peff, True, detail)
                if ok and do_probe:
                    # ---- the writer behind the fast path with caller-sized buffers (sanitizer + never a cut string)
                    do_probe = False
                    X.ll_probe(ctx, rng, tree, r, peff, False, s1, f"as_newick({args})", detail)
            # ---- general path with the default labels: N3
            if do_general:
                ctx.count("as_newick:general")
                lab = {u: f"n{u}" for u in samples}
                kw2 = X.newick_kwargs(rng, ctx, root, p, fast=False)
                args2 = X.show_kwargs(kw2)
                s2 = call_newick(ctx, lambda: tree.as_newick(**kw2, node_labels=lab),
                                 f"as_newick({args2}, node_labels=<default labels>)", detail)
                if s2 is not None and s1 is not None:
                    ctx.count("newick-fast-vs-general")
                    if s1 != s2:
                        ctx.violation("newick/fast-vs-general", f"as_newick({args}) fast path {short(s1)!r} != "
                                      f"general path (node_labels = default labels) {short(s2)!r}", detail)
                if s2 is not None and s2 != s1:
                    peff = p if p is not None else resolve_default(ctx, s2, tr, r, dflt, f"as_newick({args2}, node_labels)", detail)
                    check_string(ctx, f"as_newick({args2}, node_labels=<default>)", s2, tr, r, tr.default_label,
                                 peff, True, detail)
        do_legacy = (not light) if legacy is None else legacy
        if not light:
            p = rng.choice(precisions)
            peff = p if p is not None else (min(dflt) if len(dflt) == 1 else None)
        if do_general and not light:
            rootkw = X.newick_kwargs(rng, ctx, root, None, fast=False)
            rootkw.pop("precision", None)
            pkw = {} if p is None else {"precision": X.int_form(rng, ctx, p, "precision")}
            # ---- custom / partial / empty labels
            lab = random_labels(rng, m, None)
            ctx.count("as_newick:custom-labels")
            what = f"as_newick({X.show_kwargs(rootkw)}, {X.show_kwargs(pkw)}, node_labels={short(repr(lab), 200)})"
            s3 = call_newick(ctx, lambda: tree.as_newick(**rootkw, **pkw, node_labels=dict(lab)), what, detail)
            if s3 is not None and peff is not None:
                check_string(ctx, what, s3, tr, r, lambda u: lab.get(u, ""), peff, True, detail)
            # the deprecated spelling takes the same labels ("other parameters behave as documented in as_newick");
            # its precision is the first positional parameter and defaults to 14
            if rng.random() < 0.5:
                ctx.count("legacy-newick:custom-labels")
                lpos = rng.random() < 0.5 and p is not None
                what = f"newick({p if lpos else X.show_kwargs(pkw)}, {X.show_kwargs(rootkw)}, node_labels={short(repr(lab), 200)})"
                if lpos:
                    s3b = call_newick(ctx, lambda: tree.newick(p, **rootkw, node_labels=dict(lab)), what, detail)
                else:
                    s3b = call_newick(ctx, lambda: tree.newick(**rootkw, **pkw, node_labels=dict(lab)), what, detail)
                if s3b is not None:
                    check_string(ctx, what, s3b, tr, r, lambda u: lab.get(u, ""), 14 if p is None else p, True, detail)
            # ---- branch lengths omitted, default and custom labels
            ctx.count("as_newick:no-branch-lengths")
            for lb, label_of in ((None, tr.default_label), (lab, lambda u: lab.get(u, ""))):
                kw = dict(rootkw)
                if lb is not None:
                    kw["node_labels"] = dict(lb)
                elif rng.random() < 0.2:
                    kw["node_labels"] = None
                if rng.random() < 0.5:
                    kw.update(pkw)
                what = f"as_newick({short(repr(kw), 200)}, include_branch_lengths=False)"
                s4 = call_newick(ctx, lambda: tree.as_newick(include_branch_lengths=False, **kw), what, detail)
                if s4 is not None:
                    check_string(ctx, what, s4, tr, r, label_of, 0, False, detail)
        # ---- legacy newick(): leaves labelled id+1, precision 14 by default
        if do_legacy:
            lp = rng.choice([None, None, 0, 3, 14, rng.randint(0, 17)])
            lpos = lp is not None and rng.random() < 0.5  # newick(precision) is the one positional parameter here
            rootkw = {} if root is None else {"root": X.int_form(rng, ctx, root, "root")}
            lkw = {} if lp is None or lpos else {"precision": lp}
            largs = (lp,) if lpos else ()
            if lpos:
                ctx.feature("arg:newick-positional-precision")
            what = f"newick({', '.join([repr(a) for a in largs] + [X.show_kwargs({**rootkw, **lkw})])})"
            strict = reachable and bool(tr.fr.kids(r) or r in tr.samples)
            # EITHER (deprecated API): for a subtree that no tree root reaches, and for an isolated non-sample node,
            # the two code paths disagree on which childless nodes are "leaves"; there the labels are not compared,
            # the topology and the branch lengths still are
            mask = None if strict else "lengths"
            ctx.count("legacy-newick" if strict else "legacy-newick:labels-open")
            s7 = call_newick(ctx, lambda: tree.newick(*largs, **rootkw, **lkw), what, detail)
            if s7 is not None:
                ok = check_string(ctx, what, s7, tr, r, tr.legacy_label, 14 if lp is None else lp, True, detail, mask=mask)
                if ok and strict and (rng.random() < 0.1 if probe is None else probe):
                    X.ll_probe(ctx, rng, tree, r, 14 if lp is None else lp, True, s7, what, detail)
            if do_general:
                s8 = call_newick(ctx, lambda: tree.newick(include_branch_lengths=False, **rootkw), what + " no lengths", detail)
                if s8 is not None:
                    check_string(ctx, what + " include_branch_lengths=False", s8, tr, r, tr.legacy_label, 0, False, detail,
                                 mask=mask)
                if strict:
                    leaf_lab = {u: str(u + 1) for u in range(m.num_nodes) if not tr.fr.kids(u)} if m.num_nodes < 5000 else \
                        {u: str(u + 1) for u in tr.fr.descendants(r) if not tr.fr.kids(u)}
                    s9 = call_newick(ctx, lambda: tree.newick(*largs, node_labels=leaf_lab, **rootkw, **lkw), what + " explicit", detail)
                    if s7 is not None and s9 is not None:
                        ctx.count("newick-fast-vs-general")
                        if s7 != s9:
                            ctx.violation("newick/fast-vs-general", f"legacy {what}: fast path {short(s7)!r} != general path "
                                          f"with the same labels {short(s9)!r}", detail)


def resolve_default(ctx, s, tr, root, dflt, what, detail):
    """N2: which default precision did the call use?  Reports a violation when it is the wrong one."""
    ctx.count("newick-default-precision")
    for cand in sorted(dflt):
        if _quiet_match(s, tr, root, tr.default_label, cand):
            return cand
    want = min(dflt)
    other = 17 if want == 0 else 0
    if len(dflt) == 1 and _quiet_match(s, tr, root, tr.default_label, other) and not _no_lengths(s):
        ctx.violation("newick/default-precision", f"{what} used precision {other}; documented default is {want} "
                      f"(all times integers: {want == 0}): {short(s)!r}", detail)
        return other
    return want


def _no_lengths(s):
    return ":" not in s


def _quiet_match(s, tr, root, label_of, precision):
    try:
        nodes = parse_newick(s)
    except NewickError:
        return False
    return canon_parsed(nodes) == canon_ref(tr.fr, root, label_of, tr.blen(precision))[0]


# ------------------------------------------------------------------------------- tree generators


TIME_CLASSES = ["int", "int", "half", "half", "unit", "unit", "neg", "negbig", "pow10", "huge", "hugefrac", "tiny",
                "float", "intgap", "carry", "extreme"]


def assign_times(rng, ranks, cls):
    """ranks: list of non-negative integer ranks (children have smaller rank than parents).
    Returns float times, strictly increasing with rank, exactly representable."""
    R = max(ranks) if ranks else 0
    if cls == "int":
        f = lambda r: float(r)  # noqa: E731
    elif cls == "intgap":
        steps = [0]
        for _ in range(R):
            steps.append(steps[-1] + rng.choice([1, 1, 2, 9, 10, 90, 100, 999, 1000]))
        f = lambda r: float(steps[r])  # noqa: E731
    elif cls == "half":
        f = lambda r: r / 8  # noqa: E731
    elif cls == "unit":
        den = 1
        while den < max(R, 1):
            den *= 2
        f = lambda r: r / den  # noqa: E731      root time <= 1
    elif cls == "neg":
        off = rng.choice([R, R // 2, R + 3])
        den = rng.choice([1, 2, 8])
        f = lambda r: (r - off) / den  # noqa: E731
    elif cls == "negbig":
        big = rng.choice([1e6, 2.0 ** 20, 1e9, 123456.5])
        top = rng.choice([0.0, 1.0, 0.5, 10.0])
        f = lambda r: top if r == R and R > 0 else -big + (r / 4 if r else 0.0)  # noqa: E731
    elif cls == "pow10":
        if R <= 15:
            base = [0.0] + [10.0 ** k for k in range(0, 16)]
            start = rng.randint(0, 16 - R)
            sel = [base[0]] + base[1 + start:1 + start + R] if rng.random() < 0.5 else base[start:start + R + 1]
            f = lambda r: sel[r]  # noqa: E731
        else:
            f = lambda r: float(r * 10)  # noqa: E731
    elif cls == "carry":
        # branches just below a power of ten that round UP to it at low precision (9.5 -> "10", 999.75 -> "1000"):
        # one more integer digit than floor(log10(branch)) + 1
        low = rng.choice([0.5, 0.5, 0.25, 2.0 ** -10, 2.0 ** -20])
        if R <= 15:
            start = rng.randint(0, 16 - max(R, 1))
            f = lambda r: low if r == 0 else 10.0 ** (start + r - 1)  # noqa: E731
        else:
            f = lambda r: low if r == 0 else 10.0 * r  # noqa: E731
    elif cls == "extreme":
        # hundreds of integer digits / denormals (%f prints them all); exact multiples, so still strictly increasing
        s = rng.choice([1e300, 2.0 ** 1000, 1e200, 5e-324, 5e-324, 2.0 ** -1060])
        off = rng.choice([0, 0, R, R // 2])
        f = lambda r: (r - off) * s  # noqa: E731
    elif cls == "huge":
        s = rng.choice([1e15, 2.0 ** 50, 1e12])
        f = lambda r: r * s  # noqa: E731
    elif cls == "hugefrac":
        s = 2.0 ** 40
        f = lambda r: r * s + (0.5 if r else 0.0)  # noqa: E731
    elif cls == "tiny":
        s = rng.choice([2.0 ** -40, 2.0 ** -20, 1e-9])
        f = lambda r: r * s  # noqa: E731
    elif cls == "float":
        steps = [rng.choice([0.0, rng.uniform(0, 3)])]
        for _ in range(R):
            steps.append(steps[-1] + rng.choice([rng.uniform(1e-3, 1), rng.uniform(1, 1000), 0.1, 1 / 3]))
        f = lambda r: steps[r]  # noqa: E731
    else:
        raise KeyError(cls)
    return [f(r) for r in ranks]


def model_from_parents(rng, parent, ranks, time_cls, sample_mode, L=1.0, shuffle_ids=True):
    """parent: list (index -> parent index or NULL); ranks consistent with it."""
    n = len(parent)
    times = assign_times(rng, ranks, time_cls)
    perm = list(range(n))
    if shuffle_ids:
        rng.shuffle(perm)
    kids = {}
    for c, p in enumerate(parent):
        if p != NULL:
            kids.setdefault(p, []).append(c)
    m = RowModel(L)
    nodes = [None] * n
    for u in range(n):
        leaf = u not in kids
        if sample_mode == "leaves":
            s = leaf
        elif sample_mode == "all":
            s = True
        elif sample_mode == "none":
            s = False
        elif sample_mode == "internal":
            s = not leaf
        elif sample_mode == "mixed":
            s = leaf or rng.random() < 0.4
        else:
            s = rng.random() < 0.5
        fl = NODE_IS_SAMPLE if s else 0
        if rng.random() < 0.05:
            fl |= rng.choice([2, 1 << 20])
        nodes[perm[u]] = (fl, times[u], NULL, NULL, b"")
    m.nodes = nodes
    m.edges = [(0.0, L, perm[p], perm[c], b"") for c, p in enumerate(parent) if p != NULL]
    m.edges.sort(key=sort_edges_key(m))
    m.tags.add("time:" + time_cls)
    m.tags.add("samples:" + sample_mode)
    return m


def gen_shape(rng, n, shape):
    """-> (parent list, rank list)."""
    parent = [NULL] * n
    if shape == "chain":
        for i in range(n - 1):
            parent[i] = i + 1
        ranks = list(range(n))
    elif shape == "star":
        for i in range(n - 1):
            parent[i] = n - 1
        ranks = [0] * (n - 1) + [1 if n > 1 else 0]
    elif shape == "caterpillar":
        # leaves hang off a chain of internal nodes
        k = max(1, n // 2)
        ranks = [0] * n
        internal = list(range(n - k, n))
        for j, u in enumerate(internal):
            ranks[u] = j + 1
            if j + 1 < len(internal):
                parent[u] = internal[j + 1]
        for i in range(n - k):
            parent[i] = internal[min(len(internal) - 1, i)]
    elif shape == "binary":
        # random joins of lineages
        k = (n + 1) // 2
        lin = list(range(k))
        ranks = [0] * n
        nxt = k
        r = 1
        while len(lin) > 1 and nxt < n:
            a = lin.pop(rng.randrange(len(lin)))
            b = lin.pop(rng.randrange(len(lin)))
            parent[a] = parent[b] = nxt
            ranks[nxt] = r
            r += 1
            lin.append(nxt)
            nxt += 1
    else:  # recursive: each node picks a parent among the nodes of higher rank
        ranks = list(range(n))
        forest_p = 0.0 if shape == "recursive" else 0.15
        for i in range(n - 1):
            if rng.random() < forest_p:
                continue
            lo = i + 1
            hi = min(n - 1, i + rng.choice([1, 2, 5, n]))
            parent[i] = rng.randint(lo, hi)
        if shape == "ties":
            # compress ranks so that unrelated nodes share times
            ranks = [0 if all(p != i for p in parent) else r for i, r in enumerate(ranks)]
    return parent, ranks


def gen_tree_model(rng, nmax=12):
    n = rng.choice([1, 2, 3, 4, 5, 6, 7, 8, 9, 10, 11, nmax, rng.randint(1, nmax)])
    shape = rng.choice(["recursive", "recursive", "forest", "ties", "chain", "star", "caterpillar", "binary", "binary"])
    parent, ranks = gen_shape(rng, n, shape)
    cls = rng.choice(TIME_CLASSES)
    sm = rng.choice(["leaves", "leaves", "all", "all", "none", "internal", "mixed", "random"])
    m = model_from_parents(rng, parent, ranks, cls, sm)
    m.tags.add("shape:" + shape)
    return m


def nested_to_parents(t):
    """nested tuples with int leaves -> parent list/ranks; leaves keep their labels as indices."""
    leaves = []

    def collect(x):
        if isinstance(x, int):
            leaves.append(x)
        else:
            for y in x:
                collect(y)

    collect(t)
    n = len(leaves)
    parent = [NULL] * n
    ranks = [0] * n

    def rec(x):
        if isinstance(x, int):
            return x
        ids = [rec(y) for y in x]
        u = len(parent)
        parent.append(NULL)
        ranks.append(1 + max(ranks[i] for i in ids))
        for i in ids:
            parent[i] = u
        return u

    rec(t)
    return parent, ranks


# ------------------------------------------------------------------------------- case kinds


def feature_tags(ctx, m, tr):
    for t in m.tags:
        ctx.feature(t)
    fr = tr.fr
    for p, ch in fr.children.items():
        if len(ch) == 1:
            ctx.feature("unary")
            break
    if any(len(ch) > 2 for ch in fr.children.values()):
        ctx.feature("polytomy")
    if any(m.is_sample(p) for p in fr.children):
        ctx.feature("internal-sample")
    if len(tr.roots) > 1:
        ctx.feature("multi-root")
    if len(tr.roots) == 0:
        ctx.feature("no-root")
    if any(t < 0 for _, t, _, _, _ in m.nodes):
        ctx.feature("negative-times")


def run_enum(case, ctx):
    rng = case_rng(case)
    n = case["n"]
    part = top_partitions(n)[case["part"]]
    combos = _product([list(labelled_trees(b)) for b in part]) if n > 1 else iter([(0,)])
    cnt = 0
    for combo in combos:
        t = combo if n > 1 else 0
        parent, ranks = nested_to_parents(t)
        cls = rng.choice(TIME_CLASSES)
        sm = rng.choice(["leaves", "leaves", "leaves", "all", "mixed"])
        m = model_from_parents(rng, parent, ranks, cls, sm, shuffle_ids=rng.random() < 0.3)
        ts = to_ts(m)
        tr = TreeRef(m, 0.0)
        tree = ts.first()
        detail = {"model": m.to_json()}
        ctx.count("enum-trees")
        if cnt == 0:
            feature_tags(ctx, m, tr)
            ctx.sig(("enum", n, case["part"]), nontrivial=n > 1)
        cnt += 1
        big_case = cnt > 40
        check_tree(ctx, rng, tree, tr, m, detail,
                   roots=[None] + ([rng.randrange(m.num_nodes)] if big_case else rng.sample(range(m.num_nodes), min(3, m.num_nodes))),
                   precisions=[rng.choice(PRECISIONS)], light=big_case and rng.random() < 0.8)


def run_rand(case, ctx):
    rng = case_rng(case)
    m = gen_tree_model(rng, nmax=rng.choice([12, 12, 30, 60]))
    finish_single(case, ctx, rng, m)


def finish_single(case, ctx, rng, m, root_threshold=1, forms=True, **kw):
    tr = TreeRef(m, 0.0, root_threshold=root_threshold)
    feature_tags(ctx, m, tr)
    ctx.sig(m.signature(), nontrivial=len(m.edges) > 0)
    if case["k"] < 40 and m.num_nodes <= 8:
        ctx.sample({"case": case, "model": m.to_json()})
    ts = to_ts(m)
    if forms:
        # the same tree sequence / tree reached another way (file, pickle, tables; at / seek / iteration / copy ...)
        ts = X.ts_form(rng, ctx, ts, share=0.15)
        tree, form = X.tree_form(rng, ctx, ts, 0, 0.0, root_threshold=root_threshold)
    else:
        tree, form = ts.first(root_threshold=root_threshold), "first"
    detail = {"model": m.to_json()} if m.num_nodes <= 80 else {"model": "large", "num_nodes": m.num_nodes,
                                                                "tags": sorted(m.tags)}
    detail["tree"] = form
    check_tree(ctx, rng, tree, tr, m, detail, **kw)
    if forms and rng.random() < 0.1:
        check_null_tree(ctx, rng, tree, m, detail, root_threshold)


def check_null_tree(ctx, rng, tree, m, detail, root_threshold=1):
    """The same Tree object put back into the null state (documented: no edges, every sample a root):
    every node is then its own one-node subtree."""
    how = rng.choice(["clear", "off-the-end", "off-the-start"])
    if how == "clear":
        tree.clear()
    elif how == "off-the-end":
        tree.last()
        tree.next()
    else:
        tree.first()
        tree.prev()
    ctx.feature("tree-form:null:" + how)
    trn = TreeRef(m, 0.0, root_threshold=root_threshold, null=True)
    d = dict(detail)
    d["tree"] = "null tree after " + how
    n = m.num_nodes
    roots = ([None] if len(trn.roots) == 1 else []) + rng.sample(range(n), min(n, 3))
    check_tree(ctx, rng, tree, trn, m, d, roots=roots, precisions=[rng.choice(PRECISIONS)], light=True, legacy=False)


def run_thr(case, ctx):
    """root_threshold > 1: Tree.roots keeps only parentless nodes with at least that many samples below, so
    "has a single root" (and which node as_newick() starts from) changes; thresholds sit exactly on / one above
    the sample counts of the parentless nodes."""
    rng = case_rng(case)
    n = rng.choice([2, 3, 4, 5, 6, 8, 10, 12, 20, 30])
    shape = rng.choice(["forest", "forest", "forest", "ties", "binary", "recursive", "star"])
    parent, ranks = gen_shape(rng, n, shape)
    m = model_from_parents(rng, parent, ranks, rng.choice(TIME_CLASSES), rng.choice(["leaves", "all", "mixed", "random"]))
    m.tags.add("shape:" + shape)
    tr1 = TreeRef(m, 0.0)
    counts = sorted({len(tr1.fr.samples_below(r)) for r in tr1.roots} | {len(tr1.samples)})
    cands = [c for c in counts if c >= 2] + [c + 1 for c in counts] + [2]
    k = rng.choice(cands)
    m.tags.add("root_threshold>1")
    trk = TreeRef(m, 0.0, root_threshold=k)
    if len(tr1.roots) != 1 and len(trk.roots) == 1:
        ctx.feature("root_threshold:makes-single-root")
    if len(tr1.roots) >= 1 and len(trk.roots) == 0:
        ctx.feature("root_threshold:removes-every-root")
    if k in counts:
        ctx.feature("root_threshold:exactly-a-root's-sample-count")
    finish_single(case, ctx, rng, m, root_threshold=k)


def run_wide(case, ctx):
    """Node tables with ids past 2^15 / 2^16 and node counts on the digit boundaries of the fast path's label-size
    estimate; the genealogy sits on the boundary ids, every other node is isolated."""
    rng = case_rng(case)
    m, ts, ids, extra = X.build_wide(rng, gen_shape, assign_times, TIME_CLASSES)
    tr = TreeRef(m, 0.0)
    for t in m.tags:
        ctx.feature(t)
    ctx.sig(("wide", m.num_nodes, tuple(ids), tuple(m.edges), tuple(m.nodes[u] for u in ids)), nontrivial=True)
    tree = rng.choice([ts.first, ts.last, lambda: ts.at(0.5), lambda: ts.first().copy()])()
    detail = {"model": "wide", "num_nodes": m.num_nodes, "tree_nodes": {u: m.nodes[u][:2] for u in ids},
              "edges": [e[:4] for e in m.edges], "extra_isolated_samples": extra, "tags": sorted(m.tags)}
    tops = sorted(tr.roots)
    roots = ([None] if len(tops) == 1 else []) + [u for u in tops if tr.fr.kids(u)][:1] + rng.sample(ids, min(3, len(ids)))
    roots.append(rng.randrange(m.num_nodes))  # usually an isolated non-sample node: ";"
    check_tree(ctx, rng, tree, tr, m, detail, roots=roots, precisions=rng.sample(PRECISIONS, 2), light=True, legacy=True)


def run_d7(case, ctx):
    """Buffer-sizing stress of the fast path: many internal samples, small root time / negative leaf
    times / powers of ten, each crossed with every precision."""
    rng = case_rng(case)
    n = rng.choice([3, 5, 8, 9, 10, 11, 12, 20, 40, 99, 100, 101, 120])
    shape = rng.choice(["chain", "chain", "caterpillar", "recursive", "star", "binary"])
    parent, ranks = gen_shape(rng, n, shape)
    cls = rng.choice(["unit", "unit", "negbig", "neg", "pow10", "half", "int", "tiny", "huge", "carry", "carry", "extreme"])
    sm = rng.choice(["all", "all", "mixed", "leaves", "internal"])
    m = model_from_parents(rng, parent, ranks, cls, sm, shuffle_ids=rng.random() < 0.5)
    m.tags.add("shape:" + shape)
    m.tags.add("d7-stress")
    tr = TreeRef(m, 0.0)
    roots = [None] if len(tr.roots) == 1 else sorted(tr.roots)[:1]
    roots += rng.sample(range(m.num_nodes), min(2, m.num_nodes))
    # every precision over two cases' worth of calls: the ends, the default and a random half of the rest
    finish_single(case, ctx, rng, m, roots=roots, precisions=[None, 0, 1, 17] + rng.sample(range(2, 17), 4), light=True,
                  probe=True if n >= 40 else None)


def run_big(case, ctx):
    rng = case_rng(case)
    n = rng.choice([500, 1000, 2000, 5000]) if case["tier"] == "thorough" else rng.choice([300, 1000, 3000])
    shape = rng.choice(["recursive", "chain", "caterpillar", "binary", "star", "forest"])
    parent, ranks = gen_shape(rng, n, shape)
    cls = rng.choice(["int", "half", "unit", "huge", "float", "tiny", "intgap"])
    sm = rng.choice(["leaves", "all", "mixed"])
    m = model_from_parents(rng, parent, ranks, cls, sm)
    m.tags.add("shape:" + shape)
    m.tags.add("large-tree")
    tr = TreeRef(m, 0.0)
    roots = ([None] if len(tr.roots) == 1 else []) + [rng.randrange(n)]
    # probe: strings of > 512 bytes come from malloc (pymalloc serves smaller ones), so the sanitizer sees a
    # one-byte overrun of a caller-sized buffer here
    finish_single(case, ctx, rng, m, forms=False, roots=roots, precisions=[rng.choice(PRECISIONS)], light=True, probe=True)


def run_msp(case, ctx):
    """msprime genealogies (coalescent shapes, arbitrary doubles as times): newick of a few trees + exports."""
    import msprime

    rng = case_rng(case)
    ns = rng.choice([2, 3, 5, 10, 30, 100])
    L = rng.choice([5, 20, 50])
    ts0 = msprime.sim_ancestry(samples=ns, ploidy=1, sequence_length=L, recombination_rate=rng.choice([0, 0.02, 0.1]),
                               random_seed=rng.randint(1, 2 ** 31), discrete_genome=True)
    ts0 = msprime.sim_mutations(ts0, rate=rng.choice([0, 0.02, 0.2]), random_seed=rng.randint(1, 2 ** 31))
    from lib.tsk import from_tables

    m = from_tables(ts0.dump_tables())
    m.provenances = []
    m.schemas = {}  # keep the raw metadata bytes, drop msprime's schemas
    m.metadata_schema = ""
    m.metadata = b""
    m.tags.add("msprime")
    ts = X.ts_form(rng, ctx, to_ts(m), share=0.3)
    ctx.sig(m.signature(), nontrivial=True)
    bps = m.breakpoints()
    idx = rng.sample(range(len(bps) - 1), min(3, len(bps) - 1))
    detail = {"model": "msprime", "samples": ns, "L": L, "num_trees": len(bps) - 1}
    for i in idx:
        x = (bps[i] + bps[i + 1]) / 2
        tr = TreeRef(m, x)
        if i == idx[0]:
            feature_tags(ctx, m, tr)
        tree, form = X.tree_form(rng, ctx, ts, i, x)
        check_tree(ctx, rng, tree, tr, m, dict(detail, tree=form), roots=[None, rng.randrange(m.num_nodes)],
                   precisions=[rng.choice(PRECISIONS)], light=True)
    check_exports(ctx, rng, ts, m, detail)


def run_ts(case, ctx):
    """Shared forest-walk generator: every marginal tree, every node as root; then the ts-level exports."""
    rng = case_rng(case)
    m = gen.gen_full(rng, max_nodes=9, max_bp=4, max_sites=5, discrete=rng.random() < 0.5, migrations=True)
    for t in gen.topo_tags(m):
        ctx.feature(t)
    ctx.sig(m.signature(), nontrivial=len(m.edges) > 0)
    ts = X.ts_form(rng, ctx, to_ts(m), share=0.3)
    bps = m.breakpoints()
    detail = {"model": m.to_json()}
    if ts.num_trees != len(bps) - 1:
        ctx.violation("num_trees", f"num_trees={ts.num_trees}, edge rows imply {len(bps) - 1}", detail)
        return
    # one Tree object stepped through the sequence (what write_nexus does), or each tree reached on its own way
    thr = 2 if rng.random() < 0.12 else 1
    stepped = rng.random() < 0.5
    it = ts.trees(root_threshold=thr) if stepped else None
    ctx.feature("trees:one-object-stepped" if stepped else "trees:each-reached-separately")
    for i in range(len(bps) - 1):
        x = (bps[i] + bps[i + 1]) / 2
        if stepped:
            tree, form = next(it), f"trees(root_threshold={thr}) step {i}"
        else:
            tree, form = X.tree_form(rng, ctx, ts, i, x, root_threshold=thr)
        tr = TreeRef(m, x, root_threshold=thr)
        check_tree(ctx, rng, tree, tr, m, dict(detail, tree=form), precisions=[rng.choice(PRECISIONS)],
                   light=i > 0 and rng.random() < 0.5)
    check_exports(ctx, rng, ts, m, detail)


# ------------------------------------------------------------------------------- alignments, FASTA, nexus


def gen_aln_model(rng):
    """Discrete-genome tree sequences where (usually) every sample is connected everywhere: k samples,
    one random tree per interval built on its own internal nodes (plus shared ones)."""
    k = rng.choice([1, 2, 3, 4, 5, 8])
    L = rng.choice([1, 2, 3, 7, 8, 10, 13, 59, 60, 61, 100, 120])
    nb = rng.randint(0, min(4, L - 1))
    mode = rng.random()
    tags = set()
    if mode < 0.02:
        # >= 256 marginal trees: one TREE line each in the nexus file
        L = rng.choice([300, 512, 600])
        nb = rng.randint(256, 299)
        k = rng.choice([2, 3, 4])
        tags.add("trees>=256")
    elif mode < 0.045:
        # genome longer than 2^16: alignments / FASTA records of > 64 KiB, > 1000 wrapped lines per record
        L = rng.choice([65536, 65537, 70001, 100000])
        k = rng.choice([1, 2, 3])
        tags.add("genome>2^16")
    # the two extreme modes keep every documented precondition (single roots, no isolated samples, one-letter alleles,
    # integer coordinates) in most cases, so that the writers are compared line by line rather than expected to refuse
    clean = bool(tags) and rng.random() < 0.85
    bps = [0] + sorted(rng.sample(range(1, L), nb)) + [L]
    m = RowModel(float(L))
    m.tags.update(tags)
    time_cls = rng.choice(["int", "int", "half", "float"])
    internal_sample = rng.random() < 0.2
    nodes = [(NODE_IS_SAMPLE, 0.0, NULL, NULL, b"") for _ in range(k)]
    edges = []
    for i in range(len(bps) - 1):
        lin = list(range(k))
        t = 0.0
        if k == 1 and (rng.random() < 0.7 or clean):
            # a single sample needs a parent to be non-isolated
            t = 1.0
            nodes.append((0, t, NULL, NULL, b""))
            edges.append((float(bps[i]), float(bps[i + 1]), len(nodes) - 1, 0, b""))
            continue
        while len(lin) > 1:
            j = rng.choice([2, 2, 2, 3, len(lin)])
            pick = [lin.pop(rng.randrange(len(lin))) for _ in range(min(j, len(lin)))]
            t += {"int": 1.0, "half": 0.5, "float": rng.uniform(0.1, 2)}[time_cls]
            nodes.append((NODE_IS_SAMPLE if internal_sample and rng.random() < 0.5 else 0, t, NULL, NULL, b""))
            u = len(nodes) - 1
            for c in pick:
                edges.append((float(bps[i]), float(bps[i + 1]), u, c, b""))
            lin.append(u)
            if rng.random() < 0.08 and not clean:
                break  # leaves several roots in this interval
    r = rng.random()
    if r < 0.08 and not clean:
        nodes.append((NODE_IS_SAMPLE, 0.0, NULL, NULL, b""))  # an isolated sample everywhere
        m.tags.add("isolated-sample-added")
    m.nodes = nodes
    m.edges = sorted(edges, key=sort_edges_key(m))
    r = rng.random() if not clean else 1.0
    alleles = "ACGT"
    if r < 0.1:
        alleles = ["A", "C", "G", "T", "", "AC", "é"]
        m.tags.add("non-snp-alleles-possible")
    elif r < 0.2:
        alleles = "ACGTN?-"
    gen.decorate_sites(rng, m, max_sites=min(L, 6), alleles=list(alleles), discrete=True,
                       known_times=False if time_cls == "int" else None)
    if rng.random() < 0.07 and not clean:
        # a non-integer site position makes the genome non-discrete
        if m.sites and not any(s[0] + 0.5 == s2[0] for s in m.sites for s2 in m.sites):
            j = rng.randrange(len(m.sites))
            if m.sites[j][0] + 0.5 < m.L:
                m.sites[j] = (m.sites[j][0] + 0.5,) + m.sites[j][1:]
                m.tags.add("non-discrete-genome")
    if rng.random() < 0.12 and not clean:
        # halve every coordinate: usually a non-discrete genome (positions printed with 17 decimals in nexus)
        m.L /= 2
        m.edges = [(l / 2, r_ / 2, p, c, md) for l, r_, p, c, md in m.edges]
        m.sites = [(s_[0] / 2,) + tuple(s_[1:]) for s_ in m.sites]
        m.tags.add("coordinates-halved")
    r = rng.random()
    if r < 0.35:
        m.refseq = {"data": "".join(rng.choice("ACGTacgtN-") for _ in range(L))}
        m.tags.add("embedded-refseq")
    elif r < 0.42:
        m.refseq = {"data": "".join(rng.choice("ACGT") for _ in range(rng.choice([0, L - 1, L + 1])))}
        m.tags.add("embedded-refseq-wrong-length")
    elif r < 0.47:
        m.refseq = {"data": "", "url": "http://example.com/ref"}
        m.tags.add("embedded-refseq-url-only")
    return m


def single_ascii(a):
    return len(a) == 1 and ord(a) < 128


def reference_alignments(m, ref_arg, missing):
    """-> ("ok", [strings]) or ("error", {exception classes acceptable}) from the documented rules."""
    causes = set()
    L = m.L
    discrete = is_int(L) and all(is_int(s[0]) for s in m.sites) and all(is_int(e[0]) and is_int(e[1]) for e in m.edges) \
        and all(is_int(g[0]) and is_int(g[1]) for g in m.migrations)
    if not discrete:
        return "error", {ValueError}
    L = int(L)
    if ref_arg is not None:
        ref = ref_arg
    elif m.refseq is not None and any(m.refseq.get(k) for k in ("data", "url", "metadata", "metadata_schema")):
        # documented: regarded as embedded even if only url/metadata are defined
        ref = m.refseq.get("data") or ""
    else:
        ref = missing * L
    either = False
    if len(ref) != L:
        if ref_arg is None and len(ref) > L:
            # EITHER: an embedded reference longer than the genome is cut to [0, L) by the implementation;
            # the docs only say a reference "of the wrong length" raises ValueError
            either = True
            ref = ref[:L]
        else:
            causes.add(ValueError)
    status = "ok"
    samples = m.samples()
    bps = m.breakpoints()
    for i in range(len(bps) - 1):
        fr = cached_forest(m, (bps[i] + bps[i + 1]) / 2)
        if any(fr.is_isolated(s) for s in samples):
            causes.add(ValueError)
            break
    for j, s in enumerate(m.sites):
        states = [s[1]] + [m.mutations[k][2] for k in m.site_mutations(j)]
        if not all(single_ascii(a) for a in states):
            causes.add(TypeError)
        if missing in states:
            causes.add(ValueError)
    if causes:
        return "error", causes
    if either:
        status = "either"
    out = []
    frs = {j: forest(m, s[0]) for j, s in enumerate(m.sites)}
    for smp in samples:
        a = list(ref)
        for j, s in enumerate(m.sites):
            a[int(s[0])] = allele_at(m, frs[j], j, smp)
        out.append("".join(a))
    return status, out


def wrap_ref(a, w):
    if w == 0:
        return [a]
    return [a[i:i + w] for i in range(0, len(a), w)]


def check_exports(ctx, rng, ts, m, detail):
    L = m.L
    samples = m.samples()
    Li = int(L)
    # ---------------- alignments + FASTA
    for rep in range(2):
        ref_arg = None
        r = rng.random()
        if r < 0.35 and is_int(L):
            ref_arg = "".join(rng.choice("ACGTN") for _ in range(Li))
        elif r < 0.42 and is_int(L):
            ref_arg = "A" * rng.choice([max(0, Li - 1), Li + 1])
        missing = rng.choice([None, None, None, "N", "?", "-", "A", "x"])
        kw = {}
        if ref_arg is not None:
            kw["reference_sequence"] = ref_arg
        if missing is not None:
            kw["missing_data_character"] = missing
        status, exp = reference_alignments(m, ref_arg, "N" if missing is None else missing)
        ctx.count("alignments")
        got_al = None
        try:
            got_al = list(ts.alignments(**kw))
            err = None
        except (ValueError, TypeError) as e:
            err = e
        except Exception as e:
            ctx.violation(f"alignments/raises/{type(e).__name__}", f"alignments({kw}) raised {type(e).__name__}: {e}", detail)
            continue
        if status == "either":
            ctx.feature("alignments:either(embedded reference longer than L)")
            if err is None and got_al != exp:
                ctx.violation("alignments/content", f"alignments({kw}) = {got_al}, expected {exp} (samples {samples})", detail)
            elif err is not None and not isinstance(err, ValueError):
                ctx.violation("alignments/wrong-exception", f"alignments({kw}) raised {type(err).__name__}: {err}", detail)
        elif status == "ok":
            ctx.feature("alignments:defined")
            if err is not None:
                ctx.violation("alignments/raises-on-defined-input", f"alignments({kw}) raised {type(err).__name__}: {err} "
                              f"but every documented precondition holds", detail)
            elif got_al != exp:
                ctx.violation("alignments/content", f"alignments({kw}) = {got_al}, expected {exp} (samples {samples})", detail)
        else:
            ctx.feature("alignments:undefined")
            if err is None:
                ctx.violation("alignments/accepted-undefined-input", f"alignments({kw}) returned {short(repr(got_al))} although "
                              f"the documented preconditions fail (expected one of {[c.__name__ for c in exp]})", detail)
            elif len(exp) == 1 and not isinstance(err, tuple(exp)):
                ctx.violation("alignments/wrong-exception", f"alignments({kw}) raised {type(err).__name__}: {err}; documented "
                              f"{[c.__name__ for c in exp]}", detail)
        # FASTA must mirror alignments() (same arguments) at every wrap width
        # widths: no wrapping, 1, the default, on / next to the record length, exact divisors of it (the last
        # line is then full: no empty line may follow), twice the length
        divs = [d for d in (2, 3, 4, 5, 6, 10, 12, 20, 30) if Li > d and Li % d == 0]
        widths = [0, 1, 7, 60, Li, Li + 1, max(1, Li - 1), None, 2 * Li + 1, max(1, Li // 2)]
        pick = rng.sample(widths, 3 if Li < 60000 else 2)
        if divs:
            pick[0] = rng.choice(divs)
            ctx.feature("fasta:width-divides-length")
        for w in pick:
            fkw = dict(kw)
            if w is not None:
                fkw["wrap_width"] = X.int_form(rng, ctx, w, "wrap_width")
            weff = 60 if w is None else w
            ctx.count("fasta")
            how = rng.choice(WRITER_FORMS["fasta"])
            ctx.feature("writer:" + how)
            try:
                text = call_writer(ts, "fasta", how, fkw)
                ferr = None
            except (ValueError, TypeError) as e:
                ferr = e
            except Exception as e:
                ctx.violation(f"fasta/raises/{type(e).__name__}", f"{how}({fkw}) raised {type(e).__name__}: {e}", detail)
                continue
            if got_al is None and not samples:
                # EITHER: with zero samples the writers never pull from the (lazy) alignments iterator
                if ferr is None and text != "":
                    ctx.violation("fasta/content", f"{how}({fkw}) wrote {short(text)!r} for a tree sequence without samples", detail)
                continue
            if got_al is None:
                if ferr is None:
                    ctx.violation("fasta/accepted-where-alignments-raise", f"{how}({fkw}) returned {short(text)!r} although "
                                  f"alignments({kw}) raises {type(err).__name__}", detail)
                elif type(ferr) is not type(err):
                    ctx.violation("fasta/exception-differs-from-alignments", f"{how}({fkw}) raised {type(ferr).__name__}, "
                                  f"alignments raised {type(err).__name__}", detail)
                continue
            if ferr is not None:
                ctx.violation("fasta/raises-where-alignments-succeed", f"{how}({fkw}) raised {type(ferr).__name__}: {ferr}", detail)
                continue
            want = []
            if Li > 65535 and samples:
                ctx.feature("fasta:record>64KiB-compared")
            for u, a in zip(samples, got_al):
                want.append(f">n{u}")
                want.extend(wrap_ref(a, weff))
            lines = text.split("\n")
            if not text.endswith("\n") and text != "":
                ctx.violation("fasta/no-final-newline", f"{how}({fkw}) output does not end with a newline: {short(text)!r}", detail)
            if lines and lines[-1] == "":
                lines.pop()
            if lines != want:
                key = "fasta/wrap" if "".join(lines) == "".join(want) else "fasta/content"
                ctx.violation(key, f"{how}({fkw}) lines {short(repr(lines))} expected {short(repr(want))} "
                              f"(alignments {short(repr(got_al))}, samples {samples})", detail)
    # ---------------- nexus
    for rep in range(2):
        kw = {}
        p = rng.choice(PRECISIONS)
        if p is not None:
            kw["precision"] = X.int_form(rng, ctx, p, "precision")
        it = rng.choice([None, None, True, False])
        ia = rng.choice([None, None, True, False])
        if it is not None:
            kw["include_trees"] = it
        if ia is not None:
            kw["include_alignments"] = ia
        missing = rng.choice([None, None, "?", "N", "-"])
        if missing is not None:
            kw["missing_data_character"] = missing
        ref_arg = None
        if rng.random() < 0.3 and is_int(L):
            ref_arg = "".join(rng.choice("ACGT") for _ in range(Li))
            kw["reference_sequence"] = ref_arg
        check_nexus(ctx, rng, ts, m, kw, detail)


WRITER_FORMS = {f: [f"as_{f}", f"as_{f}", f"write_{f}:file", f"write_{f}:path", f"write_{f}:pathlib", f"write_{f}:kw",
                    f"write_{f}:stream", f"write_{f}:realfile"] for f in ("fasta", "nexus")}


def call_writer(ts, fmt, how, kw):
    if how.startswith("as_"):
        return getattr(ts, "as_" + fmt)(**kw)
    fn = getattr(ts, "write_" + fmt)
    if how.endswith(":file"):
        buf = io.StringIO()
        fn(buf, **kw)
        return buf.getvalue()
    if how.endswith(":kw"):
        buf = io.StringIO()
        fn(file_or_path=buf, **kw)
        return buf.getvalue()
    if how.endswith(":stream") or how.endswith(":realfile"):
        # a file object that already holds text and is written to afterwards: must stay open, nothing may be lost
        return X.write_to_stream(fn, kw, how)
    fd, path = tempfile.mkstemp(prefix="c18-", suffix=".txt")  # one file, no directory: a single unlink cleans up
    os.close(fd)
    try:
        fn(__import__("pathlib").Path(path) if how.endswith("pathlib") else path, **kw)
        with open(path) as f:
            return f.read()
    finally:
        try:
            os.unlink(path)
        except OSError:
            pass


TREE_RE = re.compile(r"^TREE (\S+) = \[&R\] (.*)$")


def check_nexus(ctx, rng, ts, m, kw, detail):
    ctx.count("nexus")
    L = m.L
    samples = m.samples()
    bps = m.breakpoints()
    discrete = is_int(L) and all(is_int(s[0]) for s in m.sites) and all(is_int(e[0]) and is_int(e[1]) for e in m.edges) \
        and all(is_int(g[0]) and is_int(g[1]) for g in m.migrations)
    it = kw.get("include_trees")
    it = True if it is None else it
    ia = kw.get("include_alignments")
    ia = (discrete and len(m.sites) > 0) if ia is None else ia
    missing = kw.get("missing_data_character") or "?"
    precision = kw.get("precision")
    trefs = [TreeRef(m, (bps[i] + bps[i + 1]) / 2) for i in range(len(bps) - 1)]
    how = rng.choice(WRITER_FORMS["nexus"])
    ctx.feature("writer:" + how)
    what = f"{how}({kw})"
    # expected failures
    must_fail = set()
    al = None
    if ia:
        akw = {"missing_data_character": missing}
        if "reference_sequence" in kw:
            akw["reference_sequence"] = kw["reference_sequence"]
        try:
            al = list(ts.alignments(**akw))
        except (ValueError, TypeError) as e:
            if samples:
                must_fail.add(type(e))
            else:
                al = []  # EITHER (zero samples): the lazy alignments iterator is never advanced; nothing to write
    if it and any(len(t.roots) != 1 for t in trefs):
        must_fail.add(ValueError)
    try:
        text = call_writer(ts, "nexus", how, kw)
        err = None
    except (ValueError, TypeError) as e:
        err = e
    except tskit.LibraryError as e:
        key = "newick/fast-path-buffer-too-small" if "buffer" in str(e).lower() else "nexus/raises/LibraryError"
        ctx.violation(key, f"{what} raised LibraryError: {e}", detail)
        return
    except Exception as e:
        ctx.violation(f"nexus/raises/{type(e).__name__}", f"{what} raised {type(e).__name__}: {e}", detail)
        return
    if must_fail:
        ctx.feature("nexus:undefined")
        if err is None:
            ctx.violation("nexus/accepted-undefined-input", f"{what} returned {short(text)!r}; expected "
                          f"{[c.__name__ for c in must_fail]} (multi-root tree or undefined alignments)", detail)
        elif not isinstance(err, tuple(must_fail)):
            ctx.violation("nexus/wrong-exception", f"{what} raised {type(err).__name__}: {err}; expected "
                          f"{[c.__name__ for c in must_fail]}", detail)
        return
    if err is not None:
        ctx.violation("nexus/raises-on-defined-input", f"{what} raised {type(err).__name__}: {err}", detail)
        return
    ctx.feature("nexus:defined")
    ctx.count("nexus-parsed")
    if it and len(trefs) > 1:
        ctx.feature("nexus:multi-tree")
    if it and len(trefs) >= 256:
        ctx.feature("nexus:>=256-trees-compared")
    if ia and L > 65535 and samples:
        ctx.feature("nexus:data-rows>64KiB-compared")
    if it and not discrete:
        ctx.feature("nexus:non-discrete-positions")
    if ia:
        ctx.feature("nexus:with-data-block")
    lines = [ln.strip() for ln in text.split("\n")]
    if lines and lines[-1] == "":
        lines.pop()
    if not lines or lines[0] != "#NEXUS":
        ctx.violation("nexus/header", f"{what}: first line {lines[:1]!r}, expected '#NEXUS'", detail)
        return
    blocks = {}
    cur = None
    for ln in lines[1:]:
        mm = re.match(r"^BEGIN (\w+);$", ln)
        if mm:
            if cur is not None or mm.group(1) in blocks:
                ctx.violation("nexus/structure", f"{what}: nested or repeated block at {ln!r}: {short(text)!r}", detail)
                return
            cur = mm.group(1)
            blocks[cur] = []
        elif ln == "END;":
            if cur is None:
                ctx.violation("nexus/structure", f"{what}: END without BEGIN: {short(text)!r}", detail)
                return
            cur = None
        elif cur is None:
            ctx.violation("nexus/structure", f"{what}: text outside a block: {ln!r}", detail)
            return
        else:
            blocks[cur].append(ln)
    if cur is not None:
        ctx.violation("nexus/structure", f"{what}: block {cur} not closed", detail)
        return
    want_blocks = {"TAXA"} | ({"DATA"} if ia else set()) | ({"TREES"} if it else set())
    if set(blocks) != want_blocks:
        ctx.violation("nexus/blocks", f"{what}: blocks {sorted(blocks)}, expected {sorted(want_blocks)} "
                      f"(include_trees={it}, include_alignments={ia}, discrete_genome={discrete}, sites={len(m.sites)})", detail)
        return
    want_taxa = [f"DIMENSIONS NTAX={len(samples)};", ("TAXLABELS " + " ".join(f"n{u}" for u in samples)).strip() + ";"]
    got_taxa = [re.sub(r"\s+;", ";", re.sub(r"\s+", " ", x)) for x in blocks["TAXA"]]
    if got_taxa != [re.sub(r"\s+;", ";", x) for x in want_taxa]:
        ctx.violation("nexus/taxa", f"{what}: TAXA block {blocks['TAXA']}, expected {want_taxa}", detail)
    if ia:
        want = [f"DIMENSIONS NCHAR={int(L)};", f"FORMAT DATATYPE=DNA MISSING={missing};", "MATRIX"]
        want += [f"n{u} {a}" for u, a in zip(samples, al)] + [";"]
        if blocks["DATA"] != want:
            ctx.violation("nexus/data", f"{what}: DATA block {short(repr(blocks['DATA']))}, expected {short(repr(want))}", detail)
    if it:
        tl = blocks["TREES"]
        if len(tl) != len(trefs):
            ctx.violation("nexus/tree-count", f"{what}: {len(tl)} TREE lines for {len(trefs)} marginal trees", detail)
            return
        pp = (0 if discrete else 17) if precision is None else precision
        dflt = default_precisions(m)
        for i, ln in enumerate(tl):
            mm = TREE_RE.match(ln)
            if not mm:
                ctx.violation("nexus/tree-line", f"{what}: cannot read {ln!r} (documented: 'TREE t<l>^<r> = [&R] <newick>')", detail)
                continue
            name = "t" + format(bps[i], f".{pp}f") + "^" + format(bps[i + 1], f".{pp}f")
            if mm.group(1) != name:
                ctx.violation("nexus/tree-name", f"{what}: tree {i} is named {mm.group(1)!r}, expected {name!r}", detail)
            tr = trefs[i]
            root = next(iter(tr.roots))
            s = mm.group(2)
            if precision is None:
                cands = [c for c in sorted(dflt) if _quiet_match(s, tr, root, tr.default_label, c)]
                tp = cands[0] if cands else min(dflt)
            else:
                tp = precision
            ctx.count("nexus-tree")
            check_string(ctx, f"{what} tree {i}", s, tr, root, tr.default_label, tp, True, detail)
            # "the same Newick strings": as_newick of the trees reached the same way (child order depends on
            # how a tree was reached, so ts.at() would be too strict)
            if i == 0:
                try:
                    own = [t.as_newick(**({} if precision is None else {"precision": precision})) for t in ts.trees()]
                except Exception:
                    own = None
            s_tree = own[i] if own is not None and len(own) == len(tl) else None
            if s_tree is not None and s_tree != s:
                ctx.violation("nexus/tree-differs-from-as_newick", f"{what} tree {i}: {short(s)!r} != as_newick {short(s_tree)!r}", detail)


def run_aln(case, ctx):
    rng = case_rng(case)
    m = gen_aln_model(rng)
    for t in m.tags:
        ctx.feature(t)
    ctx.sig(m.signature(), nontrivial=len(m.edges) > 0 and len(m.sites) > 0)
    ts = X.ts_form(rng, ctx, to_ts(m), share=0.3)
    detail = {"model": m.to_json(), "refseq": m.refseq} if m.L < 1000 else \
        {"model": "long genome", "L": m.L, "nodes": m.nodes, "edges": m.edges, "sites": m.sites, "mutations": m.mutations,
         "refseq": None if m.refseq is None else {k: short(str(v), 60) for k, v in m.refseq.items()}}
    check_exports(ctx, rng, ts, m, detail)


RUNNERS = {"enum": run_enum, "rand": run_rand, "d7": run_d7, "big": run_big, "msp": run_msp, "ts": run_ts,
           "aln": run_aln, "thr": run_thr, "wide": run_wide}


def run_case(case, ctx):
    ctx.feature("kind:" + case["gen"])
    RUNNERS[case["gen"]](case, ctx)
