"""C01 — marginal trees are exactly what the node and edge tables say.

Monitors (all against lib.model / lib.treecheck, which are computed per position from {child: parent}):
  check_tree:*     one positioned Tree against the reference forest, reached through every entry point
                   (trees(), reversed, at, at_index, first/last, aslist, copy, reused Tree, copy-then-step)
  breakpoints, num_trees, edge_diffs (+include_terminal, documented edge order), edgesets, records, coiterate
Families (see cases()):  walk (forest walk, small), msprime (larger), big (>=256 children / depth / samples / roots),
special (fixed structural extremes: zero nodes, one node, zero samples, sub-interval edge ...).

EITHER zones (docs leave it open, either accepted):
  * order of children / roots / siblings (compared as sets, traversals relative to the reported child order);
  * samples() with root_threshold > 1 (all samples of the tree sequence, or those below the roots);
  * MRCA with the virtual root as an argument; tree.root with zero roots;
  * the interval reported by the extra include_terminal item of edge_diffs in the REVERSE direction;
  * order in which edgesets()/records() are yielded, and the order of Edgeset.children.
"""
import itertools
import math
import warnings
import zlib

import numpy as np
import tskit

from lib import gen
from lib.harness import case_rng
from lib.model import NODE_IS_SAMPLE, NULL, Forest, RowModel, sort_edges_key
from lib.treecheck import check_tree as _check_tree
from lib.tsk import to_ts

ID = "C01"



def check_tree(tree, *a, **kw):
    """lib.treecheck.check_tree; a library error on a positioned tree of a valid tree sequence, queried with valid
    node ids and the options it was built with, is itself a finding (not an inconclusive harness error)."""
    try:
        return _check_tree(tree, *a, **kw)
    except (tskit.LibraryError, RecursionError, SystemError, MemoryError) as ex:
        return [("exception", f"tree {tree.index}: {type(ex).__name__}: {ex}")]


N_SPECIAL = 10
BIG_KINDS = ["star", "chain", "comb", "isolated", "two-level", "broom", "star", "chain"]


def cases(tier, seed):
    n = 12000 if tier == "quick" else 1500000
    counters = {"big": 0, "special": 0}
    for k in range(n):
        # family by a hash of k, so that every shard (idx % workers, any worker count) sees every family
        r = zlib.crc32(b"%d" % k) % 60
        if r == 59:
            yield {"gen": "msprime", "k": k}  # larger inputs with many trees (arbitrary doubles, ARG nodes)
        elif r in (7, 37):
            # >= 256 children / samples / roots, chains of depth > 256; the kinds are cycled, not drawn
            yield {"gen": "big", "k": k, "kind": BIG_KINDS[counters["big"] % len(BIG_KINDS)]}
            counters["big"] += 1
        elif r == 23:
            yield {"gen": "special", "k": k, "j": counters["special"] % N_SPECIAL}  # fixed structural extremes, cycled
            counters["special"] += 1
        else:
            yield {"gen": "walk", "k": k}
    # exhaustive small scope is enumerated after the random cases (thorough only)
    if tier == "thorough":
        for k in range(small_scope_count()):
            yield {"gen": "small", "k": k}


def small_scope_count():
    return 0


def build_msprime(rng):
    import msprime
    from lib.tsk import from_tables
    n = rng.randint(2, 8)
    L, rate = rng.choice([(10, 0.05), (10, 0.2), (100, 0.01), (100, 0.03), (1000.0, 0.002)])
    kw = dict(samples=n, ploidy=rng.choice([1, 2]), sequence_length=L, recombination_rate=rate,
              random_seed=rng.randint(1, 2 ** 31), discrete_genome=rng.random() < 0.5)
    if rng.random() < 0.3:
        kw["model"] = msprime.DiscreteTimeWrightFisher()
        kw["population_size"] = 10
    else:
        kw["population_size"] = 1
        if rng.random() < 0.5:
            kw["record_full_arg"] = True
    if "model" in kw:
        kw["ploidy"] = 2
    try:  # msprime is only a workload source here, not the system under test
        ts = msprime.sim_ancestry(**kw)
        ts = msprime.sim_mutations(ts, rate=rng.choice([0.01, 0.1]), random_seed=rng.randint(1, 2 ** 31),
                                   discrete_genome=kw["discrete_genome"])
    except Exception:  # noqa: BLE001
        return gen.gen_full(rng, max_nodes=24, max_bp=10)
    tc = ts.dump_tables()
    for name in ("nodes", "edges", "sites", "mutations", "individuals", "populations", "migrations"):
        getattr(tc, name).metadata_schema = tskit.MetadataSchema(None)  # keep the bytes, drop msprime's schemas
    tc.metadata_schema = tskit.MetadataSchema(None)
    if rng.random() < 0.5:  # make some internal nodes samples and some leaves non-samples
        fl = tc.nodes.flags.copy()
        for _ in range(rng.randint(1, 4)):
            fl[rng.randrange(len(fl))] ^= 1
        tc.nodes.flags = fl
    if rng.random() < 0.3:
        L = tc.sequence_length
        tc.delete_intervals([[L * 0.25, L * 0.5]], simplify=False)
    if tc.edges.num_rows > 400:  # keep the O(nodes x trees) reference affordable
        return gen.gen_full(rng, max_nodes=24, max_bp=10)
    m = from_tables(tc)
    m.tags.add("msprime")
    return m


# ---------------------------------------------------------------------- structurally extreme instances


def _from_parent_maps(rng, times, flags, maps, bounds):
    """RowModel from one {child: parent} map per interval (bounds has len(maps)+1 entries); equal consecutive
    parents are squashed into one edge."""
    m = RowModel(bounds[-1])
    n = len(times)
    m.nodes = [(flags[u], float(times[u]), NULL, NULL, b"") for u in range(n)]
    edges = []
    for u in range(n):
        start, cur = None, NULL
        for i, pm in enumerate(maps):
            p = pm.get(u, NULL)
            if p != cur:
                if cur != NULL:
                    edges.append((start, bounds[i], cur, u, b""))
                start, cur = bounds[i], p
        if cur != NULL:
            edges.append((start, bounds[-1], cur, u, b""))
    m.edges = sorted(edges, key=sort_edges_key(m))
    return m


def build_big(rng, kind=None):
    """Instances past the sizes where a narrow counter, a short stack or a quadratic shortcut would show:
    >= 256 children of one node, >= 256 roots, >= 256 samples, paths longer than 256 edges."""
    kind = kind or rng.choice(BIG_KINDS)
    K = rng.choice([255, 256, 257, 258, 300])
    S = NODE_IS_SAMPLE
    if kind == "star":
        # K leaves below one root; in the second tree a block of leaves hangs below a second, older root
        times = [0.0] * K + [1.0, 2.0]
        flags = [S if rng.random() < 0.9 else 0 for _ in range(K)] + [rng.choice([0, S]), 0]
        a = {u: K for u in range(K)}
        b = dict(a)
        for u in rng.sample(range(K), rng.choice([1, 2, K // 2, K - 1])):
            b[u] = K + 1
        if rng.random() < 0.5:
            b[K] = K + 1
        maps = [a, b]
    elif kind == "chain":
        D = rng.choice([256, 257, 300])
        times = [float(i) for i in range(D + 1)]
        mode = rng.choice(["bottom", "all", "some"])
        flags = [S if (i == 0 or mode == "all" or (mode == "some" and rng.random() < 0.3)) else 0
                 for i in range(D + 1)]
        a = {i: i + 1 for i in range(D)}
        b = dict(a)
        del b[rng.randrange(D)]  # cut the chain somewhere: two pieces, the upper one possibly dead
        c = dict(a)
        i = rng.randrange(D - 1)
        c[i] = i + 2  # skip one node
        maps = [a, b, c][: rng.choice([2, 3])]
    elif kind == "comb":
        K = rng.choice([130, 150])
        # leaves 0..K-1, internal K..2K-2 (internal j at time j-K+1); leaf i+1 and internal K+i-1 join in K+i
        times = [0.0] * K + [float(i + 1) for i in range(K - 1)]
        flags = [S] * K + [0] * (K - 1)
        a = {0: K, 1: K}
        for i in range(2, K):
            a[i] = K + i - 1
            a[K + i - 2] = K + i - 1
        b = dict(a)
        u = rng.randrange(K)
        b[u] = 2 * K - 2  # one leaf regrafted onto the root: its old parent becomes unary
        maps = [a, b]
    elif kind == "isolated":
        # K isolated samples (K roots) and one cherry; second tree: everything isolated, or a star appears
        K = max(K, 258)
        times = [0.0] * K + [1.0]
        flags = [S] * K + [0]
        a = {0: K, 1: K}
        b = {} if rng.random() < 0.5 else {u: K for u in range(K)}
        maps = [a, b, a][: rng.choice([2, 3])]
    elif kind == "two-level":
        g = rng.choice([16, 17])
        # root R with g children, each with g leaf samples: g*g >= 256 samples
        leaves = g * g
        times = [0.0] * leaves + [1.0] * g + [2.0]
        flags = [S] * leaves + [rng.choice([0, S]) for _ in range(g)] + [0]
        a = {u: leaves + u // g for u in range(leaves)}
        for j in range(g):
            a[leaves + j] = leaves + g
        b = dict(a)
        for u in rng.sample(range(leaves), g):
            b[u] = leaves + rng.randrange(g)
        del b[leaves + rng.randrange(g)]  # one whole group becomes its own root
        maps = [a, b]
    else:  # broom: a long handle (unary chain) with K bristles at the bottom node
        D = 257
        times = [0.0] * K + [float(i + 1) for i in range(D)]
        flags = [S] * K + [0] * D
        a = {u: K for u in range(K)}
        for i in range(D - 1):
            a[K + i] = K + i + 1
        b = dict(a)
        b[rng.randrange(K)] = K + D - 1
        maps = [a, b]
    L = rng.choice([2.0, 8.0, 100.0])
    nb = len(maps)
    bounds = [0.0] + sorted(rng.sample([k * L / 8 for k in range(1, 8)], nb - 1)) + [L]
    m = _from_parent_maps(rng, times, flags, maps, bounds)
    gen.decorate_sites(rng, m, max_sites=4, max_muts=3)
    m.tags.add("big:" + kind)
    return m


def build_special(rng, j):
    """Fixed structural extremes (cycled by case number)."""
    S = NODE_IS_SAMPLE
    j = j % N_SPECIAL
    L = rng.choice([1.0, 8.0])
    m = RowModel(L)

    def node(flags, t):
        m.nodes.append((flags, float(t), NULL, NULL, b""))

    if j == 0:
        pass  # no nodes at all: one empty tree over [0, L)
    elif j == 1:
        node(S, 0)  # a single sample and nothing else
    elif j == 2:
        node(0, 0)  # a single non-sample node
    elif j == 3:
        node(S, 0), node(0, 1)
        m.edges = [(0.0, L, 1, 0, b"")]  # one edge; mutation on the (parentless) root and on the leaf
        m.sites = [(0.0, "A", b"")]
        m.mutations = [(0, 1, "C", NULL, None, b""), (0, 0, "G", 0, None, b"")]
    elif j == 4:
        for t in (0, 0, 1, 2):
            node(0, t)  # topology but zero samples: no roots anywhere
        m.edges = [(0.0, L, 2, 0, b""), (0.0, L, 2, 1, b""), (0.0, L / 2, 3, 2, b"")]
    elif j == 5:
        for _ in range(6):
            node(S, 0)  # all rows identical, no edges: six isolated roots
    elif j == 6:
        node(S, 0), node(S, 0), node(0, 1)
        m.edges = [(L / 4, L / 2, 2, 0, b""), (L / 4, L / 2, 2, 1, b"")]  # edges only over a strict sub-interval
        m.sites = [(0.0, "A", b""), (L / 4, "C", b""), (L / 2, "G", b"")]
        m.mutations = [(0, 0, "T", NULL, None, b""), (1, 0, "T", NULL, None, b""), (2, 2, "T", NULL, None, b"")]
    elif j == 7:
        node(S, 0), node(0, 1), node(0, 2), node(0, 3)
        m.edges = [(0.0, L, 1, 0, b""), (0.0, L, 2, 1, b""), (0.0, L, 3, 2, b"")]  # one sample below a unary chain
    elif j == 8:
        node(S, 0), node(S, 1), node(S, 2)
        m.edges = [(0.0, L / 2, 1, 0, b""), (L / 2, L, 2, 0, b""), (0.0, L, 2, 1, b"")]  # all-sample chain, 2 trees
    else:
        # the same parent/child pair over abutting intervals (unsquashed) plus a gap in the middle
        node(S, 0), node(S, 0), node(0, 1)
        q = L / 4
        m.edges = [(0.0, q, 2, 0, b""), (q, 2 * q, 2, 0, b""), (3 * q, L, 2, 0, b""), (0.0, q, 2, 1, b""),
                   (3 * q, L, 2, 1, b"")]
    m.edges = sorted(m.edges, key=sort_edges_key(m))
    m.tags.add(f"special:{j}")
    return m


def permute_tied_parent_groups(rng, m):
    """The edge-order requirement is: by parent time, rows of one parent adjacent, then child, then left.  Parents
    of EQUAL time may therefore come in any order; the generator always emits them by ascending id."""
    groups = []
    for e in m.edges:
        if groups and groups[-1][0][2] == e[2]:
            groups[-1].append(e)
        else:
            groups.append([e])
    out, changed = [], False
    for _, grp in itertools.groupby(groups, key=lambda g: m.time(g[0][2])):
        grp = list(grp)
        if len(grp) > 1:
            before = [g[0][2] for g in grp]
            rng.shuffle(grp)
            changed = changed or before != [g[0][2] for g in grp]
        for g in grp:
            out.extend(g)
    m.edges = out
    if changed:
        m.tags.add("edge-order:tied-parents-permuted")
    return m


def build(case):
    rng = case_rng(case)
    g = case.get("gen")
    if g == "msprime":
        return rng, build_msprime(rng)
    if g == "big":
        return rng, build_big(rng, case.get("kind"))
    if g == "special":
        return rng, build_special(rng, case.get("j", case["k"] // 60))
    big = rng.random() < 0.15
    m = gen.gen_full(rng, max_nodes=24 if big else 9, max_bp=10 if big else 5, max_sites=6)
    if rng.random() < 0.25:
        permute_tied_parent_groups(rng, m)
    return rng, m


# ---------------------------------------------------------------------- options and the forms they are passed in


def boundary_threshold(rng, m):
    """A root_threshold that sits exactly ON (or one above) the sample count of some root of some tree."""
    bps = m.breakpoints()
    i = rng.randrange(len(bps) - 1)
    fr = Forest(m, m.forest_at((bps[i] + bps[i + 1]) / 2))
    rs = sorted(fr.roots(1))
    if not rs:
        return 1
    return max(1, fr.num_samples(rng.choice(rs)) + rng.choice([0, 0, 1]))


def option_sets(rng, m):
    samples = m.samples()
    out = []
    for sample_lists in (False, True):
        r = rng.random()
        if r < 0.6:
            thr = rng.choice([1, 1, 2, 3])
        elif r < 0.85:
            thr = boundary_threshold(rng, m)
        else:
            thr = rng.choice([max(1, len(samples)), len(samples) + 1, 4, 5, 2 ** 31 - 1])
        r = rng.random()
        if r < 0.3 or not samples:
            tracked = None
        elif r < 0.4:
            tracked = list(samples)
        elif r < 0.5:
            tracked = []
        else:
            tracked = rng.sample(samples, rng.randint(1, len(samples)))
        out.append({"sample_lists": sample_lists, "root_threshold": thr, "tracked": tracked})
    return out


def tracked_form(rng, tracked, ctx):
    """The same tracked sample set as list / tuple / numpy arrays / generator-free iterable in another order."""
    f = rng.choice(["list", "list", "tuple", "int32", "int64", "reversed", "np-scalars"])
    ctx.feature("tracked-form:" + f)
    if f == "tuple":
        return tuple(tracked)
    if f == "int32":
        return np.array(tracked, dtype=np.int32)
    if f == "int64":
        return np.array(tracked, dtype=np.int64)
    if f == "reversed":
        return list(reversed(tracked))
    if f == "np-scalars":
        return [np.int32(u) for u in tracked]
    return list(tracked)


def tree_kwargs(rng, opts, ctx, vary=True):
    """Keyword arguments of the Tree constructor / ts.at / at_index / first / last / aslist / coiterate."""
    kw = {"sample_lists": opts["sample_lists"], "root_threshold": opts["root_threshold"]}
    if opts["tracked"] is not None:
        kw["tracked_samples"] = tracked_form(rng, opts["tracked"], ctx) if vary else opts["tracked"]
    if vary and not kw["sample_lists"] and rng.random() < 0.3:
        del kw["sample_lists"]  # the default
    if vary and kw["root_threshold"] == 1 and rng.random() < 0.3:
        del kw["root_threshold"]
    return kw


def trees_iter(ts, rng, opts, ctx):
    """ts.trees(...) through one of its argument forms, including the deprecated spellings."""
    kw = tree_kwargs(rng, opts, ctx)
    form = rng.choice(["kw", "kw", "positional", "deprecated", "sample_counts"])
    if form == "positional" and "tracked_samples" in kw:
        ctx.feature("trees-form:positional-tracked")
        tr = kw.pop("tracked_samples")
        return ts.trees(tr, **kw)
    if form == "deprecated":
        ctx.feature("trees-form:deprecated-leaf-names")
        if "tracked_samples" in kw:
            kw["tracked_leaves"] = kw.pop("tracked_samples")
        if "sample_lists" in kw:
            kw["leaf_lists"] = kw.pop("sample_lists")
        return ts.trees(**kw)
    if form == "sample_counts":
        ctx.feature("trees-form:sample_counts")
        kw[rng.choice(["sample_counts", "leaf_counts"])] = rng.choice([True, False])
        with warnings.catch_warnings():
            warnings.simplefilter("ignore")  # "not supported since 0.2.4 and is ignored"
            return ts.trees(**kw)
    ctx.feature("trees-form:keywords")
    return ts.trees(**kw)


def position_form(rng, x, ctx):
    f = rng.choice(["float", "float", "np.float64", "int"])
    if f == "np.float64":
        ctx.feature("position-form:np.float64")
        return np.float64(x)
    if f == "int" and x == int(x):
        ctx.feature("position-form:int")
        return int(x)
    return x


def index_of(bps, x):
    for i in range(len(bps) - 1):
        if bps[i] <= x < bps[i + 1]:
            return i
    raise AssertionError(x)


def make_ts(m, rng, ctx):
    """The same rows turned into a TreeSequence through the different public routes."""
    r = rng.random()
    if r < 0.75:
        return to_ts(m)
    from lib.tsk import to_tables
    form = rng.choice(["build_index", "load_tables", "dump_tables", "file", "pickle", "tables-prop"])
    ctx.feature("ts-form:" + form)
    if form == "build_index":
        tc = to_tables(m)
        tc.build_index()
        return tc.tree_sequence()
    if form == "load_tables":
        return tskit.TreeSequence.load_tables(to_tables(m), build_indexes=True)
    ts = to_ts(m)
    if form == "dump_tables":
        return ts.dump_tables().tree_sequence()
    if form == "tables-prop":
        return tskit.TableCollection.fromdict(ts.tables.asdict()).tree_sequence()
    if form == "pickle":
        import pickle
        return pickle.loads(pickle.dumps(ts))
    import os
    import tempfile
    fd, path = tempfile.mkstemp(prefix="c01-", suffix=".trees")
    os.close(fd)
    try:
        ts.dump(path)
        return tskit.load(path)
    finally:
        os.unlink(path)


# ---------------------------------------------------------------------- the case


def run_case(case, ctx):
    rng, m = build(case)
    large = case.get("gen") == "big"
    tags = gen.topo_tags(m) if not large else set(m.tags)
    for t in tags:
        ctx.feature(t)
    ctx.feature("gen:" + case.get("gen", "walk"))
    ctx.sig(m.signature(), nontrivial=len(m.edges) > 0)
    ctx.sample({"case": case, "model": m.to_json()}) if case["k"] < 2 else None
    ts = make_ts(m, rng, ctx)
    bps = m.breakpoints()
    ntrees = len(bps) - 1
    mj = m.to_json() if not large else {"gen": case.get("gen"), "tags": sorted(m.tags), "num_nodes": m.num_nodes,
                                        "edges": len(m.edges), "note": "large model: replay the case"}

    def report(bad, how, opts):
        for key, msg in bad[:5]:
            ctx.violation(f"tree/{key}", f"[{how} opts={opts}] {msg}", {"model": mj})

    ctx.count("num_trees")
    if ts.num_trees != ntrees or ts.get_num_trees() != ntrees or len(ts.trees()) != ntrees:
        ctx.violation("num_trees", f"num_trees={ts.num_trees} get_num_trees()={ts.get_num_trees()} "
                      f"len(trees())={len(ts.trees())} expected {ntrees}", {"model": mj})
        return
    got_bps = list(ts.breakpoints())
    ctx.count("breakpoints")
    if got_bps != bps or list(ts.breakpoints(as_array=True)) != bps or list(ts.breakpoints(True)) != bps:
        ctx.violation("breakpoints", f"breakpoints {got_bps} expected {bps}", {"model": mj})
    if large:
        run_large(ts, m, rng, ctx, report, bps, mj)
        check_edge_diffs(ts, m, ctx, rng, mj, light=True)
        return
    for opts in option_sets(rng, m):
        kw = tree_kwargs(rng, opts, ctx, vary=False)
        # iteration
        idx = 0
        for tree in trees_iter(ts, rng, opts, ctx):
            bad = check_tree(tree, m, opts, deep=True, rng=rng, wide=True)
            ctx.count("check_tree:trees()")
            ctx.count("wide-deep")
            if tree.index != idx:
                bad.append(("index", f"iteration index {tree.index} expected {idx}"))
            if tree.tree_sequence is not ts:
                bad.append(("options", "tree.tree_sequence is not the tree sequence it came from"))
            report(bad, "trees()", opts)
            idx += 1
        if idx != ntrees:
            ctx.violation("iteration", f"trees() yielded {idx} trees, expected {ntrees}")
        elif tree.index != -1 or tree.num_edges != 0 or tuple(tree.interval) != (0, 0):
            # "Upon successful termination of the iterator, the tree will be in the cleared null state"
            ctx.violation("iteration", f"after trees() ended the tree has index {tree.index}, {tree.num_edges} edges, "
                          f"interval {tuple(tree.interval)}", {"model": mj})
        # reversed iteration
        idx = ntrees - 1
        for tree in reversed(trees_iter(ts, rng, opts, ctx)):
            deep = rng.random() < 0.05
            bad = check_tree(tree, m, opts, deep=deep, rng=rng, wide=True)
            ctx.count("check_tree:reversed")
            if tree.index != idx:
                bad.append(("index", f"reversed iteration index {tree.index} expected {idx}"))
            report(bad, "reversed(trees())", opts)
            idx -= 1
        # direct access at positions: both ends of every interval, exact boundary neighbours, several number types
        for i in range(ntrees):
            l, r = bps[i], bps[i + 1]
            xs = [l, (l + r) / 2, math.nextafter(r, 0)]
            if rng.random() < 0.5:
                xs[1] = rng.choice([math.nextafter(l, math.inf), l + (r - l) * rng.random(),
                                    -0.0 if i == 0 else l])
                ctx.feature("at:neighbour-of-left-end")
            full = rng.randrange(3)
            for k, x in enumerate(xs):
                akw = tree_kwargs(rng, opts, ctx)
                xf = position_form(rng, x, ctx)
                tree = ts.at(xf, **akw)
                bad = []
                if tree.index != i:
                    bad.append(("at", f"at({xf!r}) landed on tree {tree.index}, expected {i}"))
                if k == full:
                    ctx.count("check_tree:at")
                    bad += check_tree(tree, m, opts, deep=False, wide=True)
                else:
                    # the three positions of one interval reach the same tree the same way: landing place and
                    # parent map only
                    ctx.count("at:landing")
                    exp = m.forest_at(l)
                    pa = tree.parent_array
                    if tuple(tree.interval) != (l, r) or [int(pa[u]) for u in range(m.num_nodes)] != \
                            [exp.get(u, NULL) for u in range(m.num_nodes)] or tree.num_edges != len(exp):
                        bad.append(("at", f"at({xf!r}): interval {tuple(tree.interval)} parents {list(pa)} expected "
                                    f"({l},{r}) {exp}"))
                report(bad, f"at({xf!r})", opts)
            j = rng.choice([i, i, i - ntrees, np.int64(i), np.int32(i - ntrees)])
            tree = ts.at_index(j, **tree_kwargs(rng, opts, ctx))
            ctx.count("check_tree:at_index")
            if int(j) < 0:
                ctx.feature("at_index:negative")
            bad = check_tree(tree, m, opts, deep=rng.random() < 0.05, rng=rng, wide=True)
            if tree.index != i:
                bad.append(("at_index", f"at_index({j!r}) landed on {tree.index}, expected {i}"))
            report(bad, f"at_index({j!r})", opts)
        fl = [("first", ts.first(**kw), 0), ("last", ts.last(**kw), ntrees - 1)]
        for how, tree, i in fl if ntrees > 1 or opts["sample_lists"] else fl[:1]:
            ctx.count("check_tree:first/last")
            bad = check_tree(tree, m, opts, deep=False, wide=True)
            if tree.index != i:
                bad.append((how, f"{how}() landed on {tree.index}"))
            report(bad, how, opts)
        # copies: Tree.copy() of a positioned tree and ts.aslist() with the same options (both duplicate the C tree)
        trees = ts.aslist(**kw)
        if len(trees) != ntrees:
            ctx.violation("aslist", f"aslist() has {len(trees)} trees, expected {ntrees}", {"model": mj})
        for i, tree in enumerate(trees):
            if tree.index != i:
                report([("aslist", f"aslist()[{i}] has index {tree.index}")], "aslist(**options)", opts)
            if not opts["sample_lists"] and rng.random() < 0.5:
                continue  # aslist is trees() + copy(), both also checked separately
            ctx.count("check_tree:aslist")
            report(check_tree(tree, m, opts, deep=False, wide=True), "aslist(**options)", opts)
        for tree in ts.trees(**kw):
            if rng.random() < 0.5:
                ctx.count("check_tree:copy")
                cp = tree.copy()
                report(check_tree(cp, m, opts, deep=rng.random() < 0.1, rng=rng, wide=True), "trees() -> copy()", opts)
                if rng.random() < 0.5:
                    # a copy is a full Tree: it must be able to walk on from where the original stood, in both
                    # directions, without disturbing the original
                    walk_copy(cp, tree, m, opts, rng, ctx, report, ntrees)
        # one Tree object reused: forward sweep, step off the end, backward sweep, first/last on a positioned tree
        tree = tskit.Tree(ts, kw["tracked_samples"], sample_lists=kw["sample_lists"],
                          root_threshold=kw["root_threshold"]) if "tracked_samples" in kw else tskit.Tree(ts, **kw)
        seq = ["first"] + ["next"] * ntrees + ["last"] + ["prev"] * ntrees + ["first", "last", "first"]
        pos = -1
        ok = True
        for op in seq:
            r = getattr(tree, op)()
            pos = {"first": 0, "last": ntrees - 1}.get(op, pos)
            if op == "next":
                pos = 0 if pos == -1 else (pos + 1 if pos + 1 < ntrees else -1)
            elif op == "prev":
                pos = ntrees - 1 if pos == -1 else pos - 1
            ctx.count("check_tree:reused-tree")
            if op in ("next", "prev") and (r is not True and r is not False or r != (pos != -1)):
                ctx.violation("tree/reused/return", f"reused Tree: {op}() returned {r!r} on reaching index {pos}",
                              {"model": mj})
            if tree.index != pos:
                ctx.violation("tree/reused/index", f"reused Tree after {op}: index {tree.index} expected {pos}", {"model": mj})
                ok = False
                break
            if pos >= 0:
                report(check_tree(tree, m, opts, deep=False, wide=True), f"reused Tree after ...{op}", opts)
        # ... then jumps on the same object: seek / seek_index / clear from wherever it stands (linear seeks in both
        # directions, wrap-around through the null state, direction switches in the interior)
        if ok:
            random_jumps(tree, m, opts, rng, ctx, report, bps, pos)
    # aslist
    if rng.random() < 0.15:
        for i, tree in enumerate(ts.aslist()):
            ctx.count("check_tree:aslist")
            report(check_tree(tree, m, {"root_threshold": 1}, deep=False, wide=True), "aslist", {})
    # (10) edge_diffs / edgesets / coiterate replay
    check_edge_diffs(ts, m, ctx, rng, mj)
    check_coiterate_other(ts, m, ctx, rng, mj)


def walk_copy(cp, orig, m, opts, rng, ctx, report, ntrees):
    pos = orig.index
    for _ in range(rng.randint(1, 3)):
        op = rng.choice(["next", "prev"])
        getattr(cp, op)()
        if op == "next":
            pos = 0 if pos == -1 else (pos + 1 if pos + 1 < ntrees else -1)
        else:
            pos = ntrees - 1 if pos == -1 else pos - 1
        ctx.count("check_tree:copy-then-step")
        if cp.index != pos:
            report([("copy/index", f"copy of tree {orig.index} after {op}: index {cp.index} expected {pos}")],
                   "copy() -> step", opts)
            return
        if pos >= 0:
            report(check_tree(cp, m, opts, deep=False, wide=True), f"copy() -> ...{op}", opts)
    report(check_tree(orig, m, opts, deep=False, wide=True), "original after its copy moved", opts)


def random_jumps(tree, m, opts, rng, ctx, report, bps, pos):
    ntrees = len(bps) - 1
    L = m.L
    for _ in range(6):
        op = rng.choice(["seek", "seek", "seek", "seek_index", "seek_index", "clear", "next", "prev"])
        if op == "seek":
            i = rng.randrange(ntrees)
            l, r = bps[i], bps[i + 1]
            x = rng.choice([l, math.nextafter(r, 0), (l + r) / 2, L / 2, math.nextafter(L / 2, 0),
                            math.nextafter(L / 2, math.inf), -0.0])
            x = position_form(rng, x, ctx)
            tree.seek(x)
            new = index_of(bps, float(x))
            what = f"seek({x!r})"
        elif op == "seek_index":
            i = rng.randrange(ntrees)
            j = rng.choice([i, i - ntrees])
            tree.seek_index(j)
            new = i
            what = f"seek_index({j})"
        elif op == "clear":
            tree.clear()
            new = -1
            what = "clear()"
        elif op == "next":
            tree.next()
            new = 0 if pos == -1 else (pos + 1 if pos + 1 < ntrees else -1)
            what = "next()"
        else:
            tree.prev()
            new = ntrees - 1 if pos == -1 else pos - 1
            what = "prev()"
        ctx.count("check_tree:reused-jumps")
        if tree.index != new:
            report([("reused/index", f"reused Tree at {pos} after {what}: index {tree.index} expected {new}")],
                   "reused Tree jumps", opts)
            return
        if new >= 0:
            report(check_tree(tree, m, opts, deep=False, wide=True), f"reused Tree at {pos} after {what}", opts)
        pos = new


def run_large(ts, m, rng, ctx, report, bps, mj):
    """Structurally extreme instance: one option set (sample lists on, about half of the samples tracked), every
    tree deep-checked once on the forward pass, shallow on the other paths."""
    ntrees = len(bps) - 1
    samples = m.samples()
    K = len(samples)
    thr = rng.choice([1, 1, 2, 255, 256, 257, max(1, K), K + 1])
    if "big:isolated" in m.tags and rng.random() < 0.7:
        thr = 1  # keep the >= 256 roots
    tracked = rng.sample(samples, rng.choice([K // 2, K, max(0, K - 1), min(K, 256)])) if K else None
    opts = {"sample_lists": True, "root_threshold": thr, "tracked": tracked}
    kw = tree_kwargs(rng, opts, ctx, vary=False)
    ctx.feature("large:nodes>=256") if m.num_nodes >= 256 else None
    for i, tree in enumerate(ts.trees(**kw)):
        ctx.count("check_tree:trees()")
        ctx.count("check_tree:large")
        mx = max(int(v) for v in tree.num_children_array)
        if mx >= 256:
            ctx.feature("large:num_children>=256")
        if tree.num_roots >= 256:
            ctx.feature("large:num_roots>=256")
        if max((tree.depth(u) for u in (0, m.num_nodes // 2)), default=0) >= 256:
            ctx.feature("large:depth>=256")
        deep = i == 0 or rng.random() < 0.3
        ctx.count("wide-deep") if deep else None
        report(check_tree(tree, m, opts, deep=deep, rng=rng, wide=True), "trees() [large]", opts)
    opts2 = {"sample_lists": False, "root_threshold": rng.choice([1, 2]), "tracked": None}
    kw2 = tree_kwargs(rng, opts2, ctx, vary=False)
    for tree in reversed(ts.trees(**kw2)):
        ctx.count("check_tree:reversed")
        report(check_tree(tree, m, opts2, deep=False, wide=True), "reversed(trees()) [large]", opts2)
    i = rng.randrange(ntrees)
    x = rng.choice([bps[i], math.nextafter(bps[i + 1], 0)])
    tree = ts.at(x, **kw)
    ctx.count("check_tree:at")
    report(check_tree(tree, m, opts, deep=False, wide=True) + ([] if tree.index == i else [("at", f"at({x}) -> {tree.index}")]),
           f"at({x}) [large]", opts)
    cp = tree.copy()
    ctx.count("check_tree:copy")
    report(check_tree(cp, m, opts, deep=False, wide=True), "at() -> copy() [large]", opts)
    walk_copy(cp, tree, m, opts, rng, ctx, report, ntrees)
    # the reused object keeps the tracked samples but not the sample lists (their walk is quadratic on a chain)
    opts = dict(opts, sample_lists=False)
    tree = tskit.Tree(ts, **tree_kwargs(rng, opts, ctx, vary=False))
    pos = -1
    for op in ["first"] + ["next"] * ntrees + ["prev"] * ntrees + ["last"]:
        getattr(tree, op)()
        pos = {"first": 0, "last": ntrees - 1}.get(op, pos)
        if op == "next":
            pos = 0 if pos == -1 else (pos + 1 if pos + 1 < ntrees else -1)
        elif op == "prev":
            pos = ntrees - 1 if pos == -1 else pos - 1
        ctx.count("check_tree:reused-tree")
        if tree.index != pos:
            ctx.violation("tree/reused/index", f"reused Tree after {op}: index {tree.index} expected {pos}", {"model": mj})
            return
        if pos >= 0:
            report(check_tree(tree, m, opts, deep=False, wide=True), f"reused Tree after ...{op} [large]", opts)


# ---------------------------------------------------------------------- edge_diffs / edgesets / coiterate


def check_edge_diffs(ts, m, ctx, rng=None, mj=None, light=False):
    bps = m.breakpoints()
    mj = mj if mj is not None else m.to_json()
    L = m.L

    def key(e):
        return (m.time(e.parent), e.parent, e.child)

    for direction in (tskit.FORWARD, tskit.REVERSE):
        for terminal in (False, True):
            cur = {}
            intervals = []
            ok = True
            form = (rng.randrange(3) if rng is not None else 0) if terminal else 0
            if not terminal:
                it = ts.edge_diffs(direction=direction)
            elif form == 0:
                it = ts.edge_diffs(include_terminal=True, direction=direction)
            else:
                it = ts.edge_diffs(True, direction=direction)  # positional
            items = list(it)
            exp_n = len(bps) - 1 + (1 if terminal else 0)
            if len(items) != exp_n:
                ctx.violation("edge_diffs", f"dir={direction} include_terminal={terminal}: {len(items)} items, expected "
                              f"{exp_n}", {"model": mj})
                continue
            for k, item in enumerate(items):
                (l, r), out, inn = item
                ctx.count("edge_diffs")
                if (item.interval, item.edges_out, item.edges_in) != ((l, r), out, inn):
                    ctx.violation("edge_diffs", "named fields differ from positions", {"model": mj})
                last = terminal and k == len(items) - 1
                for e in out:
                    if cur.get(e.child) != e.parent:
                        ctx.violation("edge_diffs", f"edge out {e} not in current forest {cur}", {"model": mj})
                        ok = False
                    cur.pop(e.child, None)
                for e in inn:
                    if e.child in cur:
                        ctx.violation("edge_diffs", f"edge in {e} but child already has parent", {"model": mj})
                        ok = False
                    cur[e.child] = e.parent
                for e in list(out) + list(inn):
                    me = m.edges[e.id]
                    if (e.left, e.right, e.parent, e.child, e.metadata) != me[:5]:
                        ctx.violation("edge_diffs", f"edge {e} differs from row {me}", {"model": mj})
                # documented: edges_in by ascending (parent time, parent id, child id), edges_out the reverse
                ctx.count("edge_diffs:order")
                kin = [key(e) for e in inn]
                kout = [key(e) for e in out]
                if kin != sorted(kin) or kout != sorted(kout, reverse=True):
                    ctx.violation("edge_diffs/order", f"dir={direction} interval ({l},{r}): edges_in keys {kin} must ascend, "
                                  f"edges_out keys {kout} must descend (parent time, parent, child)", {"model": mj})
                if last:
                    ctx.count("edge_diffs:terminal")
                    if cur or inn:
                        ctx.violation("edge_diffs/terminal", f"dir={direction} terminal item leaves {cur}, edges_in {inn}",
                                      {"model": mj})
                    # forward: "both left and right equal to the sequence length"; reverse: not documented (EITHER)
                    if direction == tskit.FORWARD and (l, r) != (L, L):
                        ctx.violation("edge_diffs/terminal", f"terminal interval ({l},{r}) expected ({L},{L})", {"model": mj})
                    continue
                exp = m.forest_at((l + r) / 2)
                if cur != exp:
                    ctx.violation("edge_diffs", f"dir={direction} after interval ({l},{r}) forest {cur} expected {exp}",
                                  {"model": mj})
                    ok = False
                intervals.append((l, r))
                if not ok:
                    break
            exp_iv = list(zip(bps[:-1], bps[1:]))
            if direction == tskit.REVERSE:
                exp_iv = exp_iv[::-1]
            if ok and intervals != exp_iv:
                ctx.violation("edge_diffs", f"dir={direction} intervals {intervals} expected {exp_iv}", {"model": mj})
    # edgesets: at every position each parent with children is covered by exactly one edgeset listing exactly them
    for how in ("edgesets", "records"):
        with warnings.catch_warnings():
            warnings.simplefilter("ignore")
            if how == "edgesets":
                es = [(e.left, e.right, e.parent, list(e.children)) for e in ts.edgesets()]
            else:
                if light or (rng is not None and rng.random() < 0.5):
                    continue
                es = []
                for rec in ts.records():
                    es.append((rec.left, rec.right, rec.node, list(rec.children)))
                    if rec.time != m.time(rec.node) or rec.population != m.nodes[rec.node][2]:
                        ctx.violation("records", f"record {rec}: time/population differ from node row {m.nodes[rec.node]}",
                                      {"model": mj})
        for l, r, p, cs in es:
            if not (0 <= l < r <= L) or l not in bps or r not in bps or not cs or len(set(cs)) != len(cs):
                ctx.violation(how, f"{how}: malformed item ({l},{r},{p},{cs}) breakpoints {bps}", {"model": mj})
        for i in range(len(bps) - 1):
            x = (bps[i] + bps[i + 1]) / 2
            fr = Forest(m, m.forest_at(x))
            got = {}
            dup = False
            for l, r, p, cs in es:
                if l <= x < r:
                    dup = dup or p in got
                    got[p] = set(cs)
            ctx.count(how)
            exp = {p: set(cs) for p, cs in fr.children.items()}
            if got != exp or dup:
                ctx.violation(how, f"{how} covering {x}: {got} (overlap={dup}) expected {exp}", {"model": mj})
    # coiterate with itself: intervals tile and trees agree
    k = 0
    for iv, t1, t2 in ts.coiterate(ts):
        ctx.count("coiterate")
        if (iv.left, iv.right) != (bps[k], bps[k + 1]) or t1.index != k or t2.index != k:
            ctx.violation("coiterate", f"coiterate interval {iv} trees {t1.index},{t2.index} expected index {k}")
            break
        k += 1
    if k != len(bps) - 1:
        ctx.violation("coiterate", f"coiterate yielded {k} intervals, expected {len(bps) - 1}")


def check_coiterate_other(ts, m, ctx, rng, mj):
    """coiterate with a DIFFERENT tree sequence of the same length, options passed through: the intervals are the
    common refinement of both breakpoint lists and each side is the right tree of its own sequence."""
    if rng.random() < 0.5:
        return
    m2 = gen.gen_topology(rng, max_nodes=6, max_bp=4, L=m.L)
    ts2 = to_ts(m2)
    b1, b2 = m.breakpoints(), m2.breakpoints()
    allb = sorted(set(b1) | set(b2))
    s1, s2 = m.samples(), m2.samples()
    thr = rng.choice([1, 2])
    sl = rng.random() < 0.5
    o = {"sample_lists": sl, "root_threshold": thr, "tracked": None}
    swap = rng.random() < 0.5
    a, bb, ma, mb = (ts2, ts, m2, m) if swap else (ts, ts2, m, m2)
    k = 0
    for iv, t1, t2 in a.coiterate(bb, sample_lists=sl, root_threshold=thr):
        ctx.count("coiterate:other")
        if k + 1 >= len(allb) or (iv.left, iv.right) != (allb[k], allb[k + 1]):
            ctx.violation("coiterate", f"coiterate interval {k} is {iv}, expected ({allb[k:k + 2]}) from {b1} and {b2}",
                          {"model": mj, "other": m2.to_json()})
            return
        x = (iv.left + iv.right) / 2
        for t, mm in ((t1, ma), (t2, mb)):
            if t.index != index_of(mm.breakpoints(), x):
                ctx.violation("coiterate", f"coiterate interval {iv}: tree index {t.index}, expected "
                              f"{index_of(mm.breakpoints(), x)}", {"model": mj, "other": m2.to_json()})
                return
            bad = check_tree(t, mm, o, deep=False, wide=True)
            for key, msg in bad[:3]:
                ctx.violation(f"tree/{key}", f"[coiterate(other) opts={o}] {msg}", {"model": mm.to_json()})
        k += 1
    if k != len(allb) - 1:
        ctx.violation("coiterate", f"coiterate(other) yielded {k} intervals, expected {len(allb) - 1}",
                      {"model": mj, "other": m2.to_json()})
