"""C01 — marginal trees are exactly what the node and edge tables say."""
import itertools
import math

import numpy as np
import tskit

from lib import gen
from lib.harness import case_rng
from lib.model import NODE_IS_SAMPLE, NULL, RowModel
from lib.treecheck import check_tree
from lib.tsk import to_ts

ID = "C01"


def cases(tier, seed):
    n = 12000 if tier == "quick" else 1500000
    for k in range(n):
        if k % 60 == 59:
            yield {"gen": "msprime", "k": k}  # larger inputs with many trees (arbitrary doubles, ARG nodes)
        else:
            yield {"gen": "walk", "k": k}
    # exhaustive small scope is enumerated after the random cases (thorough only)
    if tier == "thorough":
        for k in range(small_scope_count()):
            yield {"gen": "small", "k": k}


def small_scope_count():
    return 0


def build_msprime(rng):
    import msprime
    from lib.tsk import from_tables
    n = rng.randint(2, 8)
    L, rate = rng.choice([(10, 0.05), (10, 0.2), (100, 0.01), (100, 0.03), (1000.0, 0.002)])
    kw = dict(samples=n, ploidy=rng.choice([1, 2]), sequence_length=L, recombination_rate=rate,
              random_seed=rng.randint(1, 2 ** 31), discrete_genome=rng.random() < 0.5)
    if rng.random() < 0.3:
        kw["model"] = msprime.DiscreteTimeWrightFisher()
        kw["population_size"] = 10
    else:
        kw["population_size"] = 1
        if rng.random() < 0.5:
            kw["record_full_arg"] = True
    if "model" in kw:
        kw["ploidy"] = 2
    try:  # msprime is only a workload source here, not the system under test
        ts = msprime.sim_ancestry(**kw)
        ts = msprime.sim_mutations(ts, rate=rng.choice([0.01, 0.1]), random_seed=rng.randint(1, 2 ** 31),
                                   discrete_genome=kw["discrete_genome"])
    except Exception:  # noqa: BLE001
        return gen.gen_full(rng, max_nodes=24, max_bp=10)
    tc = ts.dump_tables()
    for name in ("nodes", "edges", "sites", "mutations", "individuals", "populations", "migrations"):
        getattr(tc, name).metadata_schema = tskit.MetadataSchema(None)  # keep the bytes, drop msprime's schemas
    tc.metadata_schema = tskit.MetadataSchema(None)
    if rng.random() < 0.5:  # make some internal nodes samples and some leaves non-samples
        fl = tc.nodes.flags.copy()
        for _ in range(rng.randint(1, 4)):
            fl[rng.randrange(len(fl))] ^= 1
        tc.nodes.flags = fl
    if rng.random() < 0.3:
        L = tc.sequence_length
        tc.delete_intervals([[L * 0.25, L * 0.5]], simplify=False)
    if tc.edges.num_rows > 400:  # keep the O(nodes x trees) reference affordable
        return gen.gen_full(rng, max_nodes=24, max_bp=10)
    m = from_tables(tc)
    m.tags.add("msprime")
    return m


def build(case):
    rng = case_rng(case)
    if case.get("gen") == "msprime":
        return rng, build_msprime(rng)
    big = rng.random() < 0.15
    m = gen.gen_full(rng, max_nodes=24 if big else 9, max_bp=10 if big else 5, max_sites=6)
    return rng, m


def option_sets(rng, m):
    samples = m.samples()
    out = []
    for sample_lists in (False, True):
        thr = rng.choice([1, 1, 2, 3])
        r = rng.random()
        if r < 0.3 or not samples:
            tracked = None
        elif r < 0.4:
            tracked = list(samples)
        elif r < 0.5:
            tracked = []
        else:
            tracked = rng.sample(samples, rng.randint(1, len(samples)))
        out.append({"sample_lists": sample_lists, "root_threshold": thr, "tracked": tracked})
    return out


def run_case(case, ctx):
    rng, m = build(case)
    tags = gen.topo_tags(m)
    for t in tags:
        ctx.feature(t)
    ctx.sig(m.signature(), nontrivial=len(m.edges) > 0)
    ctx.sample({"case": case, "model": m.to_json()}) if case["k"] < 2 else None
    ts = to_ts(m)
    bps = m.breakpoints()
    ntrees = len(bps) - 1

    def report(bad, how, opts):
        for key, msg in bad[:5]:
            ctx.violation(f"tree/{key}", f"[{how} opts={opts}] {msg}", {"model": m.to_json()})

    if ts.num_trees != ntrees:
        ctx.violation("num_trees", f"num_trees={ts.num_trees} expected {ntrees}", {"model": m.to_json()})
        return
    got_bps = list(ts.breakpoints())
    ctx.count("breakpoints")
    if got_bps != bps or list(ts.breakpoints(as_array=True)) != bps:
        ctx.violation("breakpoints", f"breakpoints {got_bps} expected {bps}", {"model": m.to_json()})
    for opts in option_sets(rng, m):
        kw = {"sample_lists": opts["sample_lists"], "root_threshold": opts["root_threshold"]}
        if opts["tracked"] is not None:
            kw["tracked_samples"] = opts["tracked"]
        # iteration
        idx = 0
        for tree in ts.trees(**kw):
            bad = check_tree(tree, m, opts, deep=True, rng=rng)
            ctx.count("check_tree:trees()")
            if tree.index != idx:
                bad.append(("index", f"iteration index {tree.index} expected {idx}"))
            report(bad, "trees()", opts)
            idx += 1
        if idx != ntrees:
            ctx.violation("iteration", f"trees() yielded {idx} trees, expected {ntrees}")
        # reversed iteration
        idx = ntrees - 1
        for tree in reversed(ts.trees(**kw)):
            bad = check_tree(tree, m, opts, deep=False)
            ctx.count("check_tree:reversed")
            if tree.index != idx:
                bad.append(("index", f"reversed iteration index {tree.index} expected {idx}"))
            report(bad, "reversed(trees())", opts)
            idx -= 1
        # direct access at positions
        for i in range(ntrees):
            l, r = bps[i], bps[i + 1]
            for x in (l, (l + r) / 2, math.nextafter(r, 0)):
                tree = ts.at(x, **kw)
                ctx.count("check_tree:at")
                bad = []
                if tree.index != i:
                    bad.append(("at", f"at({x}) landed on tree {tree.index}, expected {i}"))
                bad += check_tree(tree, m, opts, deep=False)
                report(bad, f"at({x})", opts)
            tree = ts.at_index(i, **kw)
            ctx.count("check_tree:at_index")
            bad = check_tree(tree, m, opts, deep=False)
            if tree.index != i:
                bad.append(("at_index", f"at_index({i}) landed on {tree.index}"))
            report(bad, f"at_index({i})", opts)
        for how, tree, i in (("first", ts.first(**kw), 0), ("last", ts.last(**kw), ntrees - 1)):
            ctx.count("check_tree:first/last")
            bad = check_tree(tree, m, opts, deep=False)
            if tree.index != i:
                bad.append((how, f"{how}() landed on {tree.index}"))
            report(bad, how, opts)
        # copies: Tree.copy() of a positioned tree and ts.aslist() with the same options (both duplicate the C tree)
        for i, tree in enumerate(ts.aslist(**kw)):
            ctx.count("check_tree:aslist")
            bad = check_tree(tree, m, opts, deep=False)
            if tree.index != i:
                bad.append(("aslist", f"aslist()[{i}] has index {tree.index}"))
            report(bad, "aslist(**options)", opts)
        for tree in ts.trees(**kw):
            if rng.random() < 0.5:
                ctx.count("check_tree:copy")
                report(check_tree(tree.copy(), m, opts, deep=False), "trees() -> copy()", opts)
        # one Tree object reused: forward sweep, step off the end, backward sweep, first/last on a positioned tree
        tree = tskit.Tree(ts, **kw)
        seq = (["first"] + ["next"] * ntrees + ["last"] + ["prev"] * ntrees + ["first", "last", "first"]
               + (["next"] if ntrees > 1 else []) + ["last", "prev", "first"])
        pos = -1
        for op in seq:
            r = getattr(tree, op)()
            pos = {"first": 0, "last": ntrees - 1}.get(op, pos)
            if op == "next":
                pos = 0 if pos == -1 else (pos + 1 if pos + 1 < ntrees else -1)
            elif op == "prev":
                pos = ntrees - 1 if pos == -1 else pos - 1
            ctx.count("check_tree:reused-tree")
            if tree.index != pos:
                ctx.violation("tree/reused/index", f"reused Tree after {op}: index {tree.index} expected {pos}", {"model": m.to_json()})
                break
            if pos >= 0:
                report(check_tree(tree, m, opts, deep=False), f"reused Tree after ...{op}", opts)
    # aslist
    if rng.random() < 0.3:
        for i, tree in enumerate(ts.aslist()):
            ctx.count("check_tree:aslist")
            report(check_tree(tree, m, {"root_threshold": 1}, deep=False), "aslist", {})
    # (10) edge_diffs / edgesets / coiterate replay
    check_edge_diffs(ts, m, ctx)


def check_edge_diffs(ts, m, ctx):
    bps = m.breakpoints()
    for direction in (tskit.FORWARD, tskit.REVERSE):
        cur = {}
        intervals = []
        ok = True
        for (l, r), out, inn in ts.edge_diffs(direction=direction):
            ctx.count("edge_diffs")
            for e in out:
                if cur.get(e.child) != e.parent:
                    ctx.violation("edge_diffs", f"edge out {e} not in current forest {cur}", {"model": m.to_json()})
                    ok = False
                cur.pop(e.child, None)
            for e in inn:
                if e.child in cur:
                    ctx.violation("edge_diffs", f"edge in {e} but child already has parent", {"model": m.to_json()})
                    ok = False
                cur[e.child] = e.parent
                me = m.edges[e.id]
                if (e.left, e.right, e.parent, e.child) != me[:4]:
                    ctx.violation("edge_diffs", f"edge {e} differs from row {me}")
            exp = m.forest_at((l + r) / 2)
            if cur != exp:
                ctx.violation("edge_diffs", f"dir={direction} after interval ({l},{r}) forest {cur} expected {exp}",
                              {"model": m.to_json()})
                ok = False
            intervals.append((l, r))
            if not ok:
                break
        exp_iv = list(zip(bps[:-1], bps[1:]))
        if direction == tskit.REVERSE:
            exp_iv = exp_iv[::-1]
        if ok and intervals != exp_iv:
            ctx.violation("edge_diffs", f"dir={direction} intervals {intervals} expected {exp_iv}")
    # edgesets
    es = {}
    for e in ts.edgesets():
        for c in e.children:
            es.setdefault((e.left, e.right, e.parent), set()).add(c)
    # every position: union of edgesets covering x gives forest
    for i in range(len(bps) - 1):
        x = (bps[i] + bps[i + 1]) / 2
        got = {}
        for (l, r, p), cs in es.items():
            if l <= x < r:
                for c in cs:
                    got[c] = p
        ctx.count("edgesets")
        if got != m.forest_at(x):
            ctx.violation("edgesets", f"edgesets at {x}: {got} expected {m.forest_at(x)}", {"model": m.to_json()})
    # coiterate with itself: intervals tile and trees agree
    k = 0
    for iv, t1, t2 in ts.coiterate(ts):
        ctx.count("coiterate")
        if (iv.left, iv.right) != (bps[k], bps[k + 1]) or t1.index != k or t2.index != k:
            ctx.violation("coiterate", f"coiterate interval {iv} trees {t1.index},{t2.index} expected index {k}")
            break
        k += 1
    if k != len(bps) - 1:
        ctx.violation("coiterate", f"coiterate yielded {k} intervals, expected {len(bps) - 1}")
