"""C08 (4): threaded workload over the GIL-releasing statistics methods.

Used two ways:
  * imported by lib/props/c08.py inside the ASan worker: `jobs`, `run_single`, `run_concurrent`;
  * run as a script under the ThreadSanitizer build (pylaunch):
        pylaunch lib/props/c08_threads.py <file.trees> <seed> <nthreads> <reps>
    prints one JSON line {"calls":..., "mismatches": [...], "configs": [...]}; TSan reports go to stderr
    / TSAN_OPTIONS=log_path.

The five places that release the GIL (python/_tskitmodule.c, Py_BEGIN_ALLOW_THREADS):
genealogical_nearest_neighbours, mean_descendants, the weighted-stat *vector* method
(genetic_relatedness_vector), divergence_matrix, ld_matrix.  All jobs are deterministic functions of
(tree sequence, seed); a threaded result must equal the single-threaded one.
"""
import json
import random
import sys
import threading

import numpy as np


def jobs(ts, seed):
    """[(name, config, thunk)] - every thunk calls exactly one GIL-releasing method."""
    rng = random.Random(seed)
    samples = [int(u) for u in ts.samples()]
    n = len(samples)
    L = ts.sequence_length
    out = []
    perm = list(samples)
    rng.shuffle(perm)
    k = rng.randint(2, min(4, n))
    cuts = sorted(rng.sample(range(1, n), k - 1))
    sets = [perm[a:b] for a, b in zip([0] + cuts, cuts + [n])]
    # a second, different partition: concurrent calls with different arguments would expose shared scratch state
    perm2 = list(samples)
    rng.shuffle(perm2)
    k2 = rng.randint(2, min(5, n))
    cuts2 = sorted(rng.sample(range(1, n), k2 - 1))
    sets2 = [perm2[a:b] for a, b in zip([0] + cuts2, cuts2 + [n])]
    focal = rng.sample(range(ts.num_nodes), min(ts.num_nodes, 12))
    bps = [float(x) for x in ts.breakpoints()]
    inner = [x for x in bps[1:-1]]
    wins = sorted(set([0.0, L] + rng.sample(inner, min(len(inner), 5)) + [L * rng.randint(1, 31) / 32 for _ in range(3)]))
    W = np.array([[rng.randint(-4, 4) / 2 for _ in range(2)] for _ in range(n)])
    for nt in (0, 2, 3):
        out.append(("genealogical_nearest_neighbours", f"num_threads={nt}",
                    lambda nt=nt: ts.genealogical_nearest_neighbours(focal, sets, num_threads=nt)))
    out.append(("mean_descendants", "", lambda: ts.mean_descendants(sets)))
    out.append(("mean_descendants", "sets2", lambda: ts.mean_descendants(sets2)))
    out.append(("genealogical_nearest_neighbours", "sets2",
                lambda: ts.genealogical_nearest_neighbours(focal[::-1], sets2)))
    for centre in (True, False):
        for w in (None, wins):
            out.append(("genetic_relatedness_vector", f"centre={centre},windows={'list' if w else None}",
                        lambda centre=centre, w=w: ts.genetic_relatedness_vector(
                            W, windows=w, mode="branch", centre=centre, span_normalise=False)))
    for mode in ("site", "branch"):
        for nt in (0, 2, 3, 7):
            for w in (None, wins):
                ss = sets if nt in (0, 3) else sets2
                out.append(("divergence_matrix", f"mode={mode},num_threads={nt},windows={'list' if w else None}",
                            lambda mode=mode, nt=nt, w=w, ss=ss: ts.divergence_matrix(
                                ss, windows=w, mode=mode, num_threads=nt, span_normalise=True)))
    out.append(("genetic_relatedness_matrix", "num_threads=2",
                lambda: ts.genetic_relatedness_matrix(sets, mode="branch", num_threads=2)))
    if ts.num_sites >= 2:
        sites = sorted(rng.sample(range(ts.num_sites), min(ts.num_sites, 12)))
        out.append(("ld_matrix", "r2", lambda: ts.ld_matrix(sites=[sites], stat="r2")))
        out.append(("ld_matrix", "r2,sample_sets", lambda: ts.ld_matrix(sample_sets=sets, sites=[sites], stat="r2")))
    return out


def same(a, b):
    a, b = np.asarray(a, dtype=float), np.asarray(b, dtype=float)
    if a.shape != b.shape:
        return False
    # chunked summation may associate differently: allow rounding, nothing more
    return bool(np.allclose(a, b, rtol=1e-11, atol=1e-13, equal_nan=True))


class JobError:
    def __init__(self, name, cfg, exc):
        self.text = f"{name}({cfg}) raised {type(exc).__name__}: {exc}"


def run_single(job_list):
    """Single-threaded baseline; a call that raises yields a JobError (reported by the caller)."""
    out = []
    with np.errstate(all="ignore"):
        for name, cfg, thunk in job_list:
            try:
                out.append(thunk())
            except Exception as e:
                out.append(JobError(name, cfg, e))
    return out


def run_concurrent(job_list, expected, nthreads, reps):
    """Every thread runs every job `reps` times (rotated order); returns (calls, mismatches)."""
    barrier = threading.Barrier(nthreads)
    mismatches = []
    errors = []
    calls = [0] * nthreads
    lock = threading.Lock()

    def worker(t):
        try:
            barrier.wait(timeout=60)
            for r in range(reps):
                order = list(range(len(job_list)))
                order = order[(t + r) % len(order):] + order[:(t + r) % len(order)]
                for j in order:
                    name, cfg, thunk = job_list[j]
                    if isinstance(expected[j], JobError):
                        continue
                    with np.errstate(all="ignore"):
                        got = thunk()
                    calls[t] += 1
                    if not same(got, expected[j]):
                        with lock:
                            mismatches.append({"method": name, "config": cfg, "thread": t, "rep": r,
                                               "got": np.asarray(got).tolist(),
                                               "expected": np.asarray(expected[j]).tolist()})
        except Exception as e:  # reported, never swallowed
            with lock:
                errors.append(f"{type(e).__name__}: {e}")

    threads = [threading.Thread(target=worker, args=(t,)) for t in range(nthreads)]
    for th in threads:
        th.start()
    for th in threads:
        th.join()
    return sum(calls), mismatches, errors


def main(argv):
    import tskit

    path, seed, nthreads, reps = argv[0], int(argv[1]), int(argv[2]), int(argv[3])
    ts = tskit.load(path)
    job_list = jobs(ts, seed)
    expected = run_single(job_list)
    calls, mismatches, errors = run_concurrent(job_list, expected, nthreads, reps)
    errors = [e.text for e in expected if isinstance(e, JobError)] + errors
    for m in mismatches[5:]:
        m.pop("got", None)
        m.pop("expected", None)
    print(json.dumps({"calls": calls, "mismatches": mismatches[:20], "errors": errors[:5],
                      "configs": sorted(set(f"{n}({c})" for n, c, _ in job_list)),
                      "tskit": tskit.__file__, "threads": nthreads, "reps": reps}))
    return 0


if __name__ == "__main__":
    sys.exit(main(sys.argv[1:]))
