import os

from lib.props.meta_common import ASSUME_COMMON

ID = "C14"
META = dict(
    LEVEL="exploration",
    RULE=("valid migration-free forest-walk tree sequences (metadata everywhere, individuals with parents, "
          "populations, known/unknown mutation times) x node lists (random subsets in any order, all, permuted, "
          "reversed, empty, samples only, non-samples only, single, duplicates, out-of-range) x "
          "reorder_populations x remove_unreferenced x record_provenance x {TableCollection, TreeSequence}: the result "
          "is compared table-by-table with a Python reference subset; union: self and other are reference subsets "
          "of one collection sharing an arbitrary node set, all add_populations x check_shared_equality x "
          "record_provenance combinations, compared with a Python reference union, plus one-datum perturbations of "
          "the shared portion that must be refused; split/rejoin law on covers (A older than a time cut, B, C) whose "
          "independence precondition is enforced by the generator and re-verified by the check. Distinct by sha1 of "
          "rows + arguments; non-trivial when something is retained/added and the collection has edges or mutations."),
    REQUIRED=["subset:ref", "subset:loads", "subset:source-unchanged", "subset:out-of-range-rejected",
              "union:ref", "union:refusal", "union:loads", "law:rejoin", "law:assert_equals", "law:content",
              "provenance"],
    ASSUMPTIONS=ASSUME_COMMON + [
        "order of retained individuals after subset and the treatment of parents that are not retained are "
        "unspecified (compared as a set with consistent id remapping)",
        "node lists with duplicates are undocumented: exercised for memory safety only",
        "the split/rejoin law is asserted only for independent parts (no B-C edge, individual or population; "
        "populations of C not referenced elsewhere; individual parent links visible on the side of the child)",
    ],
    BUDGET={"quick": 40.0,
            # seconds per worker; VERIF_C14_THOROUGH_BUDGET shortens it for development runs only
            "thorough": float(os.environ.get("VERIF_C14_THOROUGH_BUDGET", 840.0))},
)
