import os

from lib.props.meta_common import ASSUME_COMMON

ID = "C14"
META = dict(
    LEVEL="exploration",
    RULE=("valid migration-free forest-walk tree sequences (metadata everywhere, individuals with parents, "
          "populations, known/unknown mutation times) x node lists (random subsets in any order, all, permuted, "
          "reversed, strided, all but one, empty, samples only, non-samples only, single, duplicates, out-of-range "
          "incl. ids that wrap to a valid id in 32 bits) x reorder_populations x remove_unreferenced x "
          "record_provenance x {TableCollection, TreeSequence, low-level _tskit.TableCollection} x every spelling "
          "of the call (keyword, positional, partly positional, defaults omitted, None for a default) x 20 spellings "
          "of the id array (list, tuple, range, array.array, numpy int8..uint64, big-endian, strided, read-only, "
          "empty arrays of any dtype): the result is compared table-by-table with a Python reference subset (the "
          "low-level result row for row in the documented order, then sorted); table metadata schemas, top-level "
          "metadata/schema, time_units and the reference sequence must be untouched. union: self and other are "
          "reference subsets of one collection sharing an arbitrary node set, all add_populations x "
          "check_shared_equality x record_provenance combinations through the same entry points and spellings, "
          "compared with a Python reference union; 20 kinds of one-datum perturbations of the shared portion that "
          "must be refused; node mappings that are no mapping into self must be refused; union(other=self). "
          "A fixed share of the cases (by case index, not by chance) is structurally extreme: every table > 256 "
          "rows (star with > 256 children, chain of depth > 256, one individual on > 256 nodes), single ragged "
          "entries > 64 KiB and an individual with > 256 parents, every table > 65535 rows (numpy reference), and a "
          "second subset / union applied to the object the first call produced. Split/rejoin law on covers (A older "
          "than a time cut, B, C) whose independence precondition is enforced by the generator and re-verified by "
          "the check, with add_populations on (populations independent) and off (population table kept, ids "
          "verbatim), also with > 65535 new rows per table. Distinct by sha1 of rows + arguments; non-trivial when "
          "something is retained/added and the collection has edges or mutations."),
    REQUIRED=["subset:ref", "subset:loads", "subset:source-unchanged", "subset:out-of-range-rejected",
              "subset:ll-exact-order", "subset:chain", "subset:top-level-kept", "subset:huge-ref",
              "union:ref", "union:refusal", "union:loads", "union:chain", "union:bad-node-mapping-rejected",
              "union:top-level-kept", "law:rejoin", "law:assert_equals", "law:content", "law:huge-rejoin",
              "provenance"],
    ASSUMPTIONS=ASSUME_COMMON + [
        "order of retained individuals after subset and the treatment of parents that are not retained are "
        "unspecified (compared as a set with consistent id remapping)",
        "node lists with duplicates and two nodes of other mapped to one node of self are undocumented: exercised "
        "for memory safety only",
        "the split/rejoin law is asserted only for independent parts (no B-C edge, individual or population; "
        "populations of C not referenced elsewhere unless population ids are kept; individual parent links visible "
        "on the side of the child)",
        "id arrays of a dtype other than list / int32 / int64 / uint32 may be refused with TypeError; "
        "union(other=self) may be refused with an error; union(check_shared_equality=False) of really differing "
        "shared parts is compared with the reference only while other stays a valid tree sequence and node -> "
        "individual references agree",
        "self and other always carry the same schemas, time_units, top-level metadata and reference sequence",
    ],
    BUDGET={"quick": 40.0,
            # seconds per worker; VERIF_C14_THOROUGH_BUDGET shortens it for development runs only
            "thorough": float(os.environ.get("VERIF_C14_THOROUGH_BUDGET", 840.0))},
)
