import os

from lib.props.meta_common import ASSUME_COMMON

ID = "C08"
META = dict(
    LEVEL="exploration",
    RULE=("forest-walk generated tree sequences (<= 12 nodes, dyadic coordinates/times/weights; multi-allelic and "
          "recurrent sites, multiple roots, internal samples, gaps, isolated stretches, nodes that lose and regain a "
          "parent) plus simulated (msprime) sequences with arbitrary doubles; each case runs one family of statistic "
          "calls with random sample sets (overlapping/singleton/all/unequal), index tuples, windows (None, 'trees', "
          "'sites', lists cutting trees / on breakpoints / on sites), mode x polarised x span_normalise x "
          "centre/proportion/strict, and compares the real result with (1) the documented summary-function engine "
          "evaluated naively per tree/site, (2) first-principles tuple/pair/MRCA/genotype definitions, (3) window "
          "refinement laws, (4) num_threads fan-out, concurrent Python threads and a ThreadSanitizer run. Three audit "
          "families (lib/props/c08_wide.py): 'forms' calls every method through other argument forms (tuples, numpy "
          "arrays of several dtypes, 2-D arrays, Fortran / non-contiguous weights, positional arguments, documented "
          "defaults left out, deprecated aliases, repeated calls); 'big' forces > 256 windows / index tuples / sample "
          "sets / weight columns / output dimensions / time bins, >= 256 samples and children (star, broom, "
          "caterpillar) and one-sample / site-less / edge-less inputs; 'coal' checks pair_coalescence_counts with time "
          "windows starting exactly at the sample time, pair_coalescence_quantiles (exact rational cdf, strict on cdf "
          "steps that are exact in binary64) and pair_coalescence_rates. A case is "
          "distinct by the sha1 of (family, row tuples) and non-trivial when the instance has an edge or a site."),
    REQUIRED=[
        "general:site", "general:branch", "general:node",
        "named:site", "named:branch", "named:node",
        "named-tuples:site", "named-tuples:branch", "named-tuples:node",
        "afs:site", "afs:branch",
        "divmat:site", "divmat:branch", "grm:branch", "relatedness-vector", "weighted:branch",
        "trait:site", "trait:branch", "trait-first-principles:branch",
        "gnn", "mean_descendants", "pair_coalescence_counts",
        "ld_matrix:r2", "ld_matrix:other-stats", "ldcalc:r2_matrix", "ldcalc:r2_array",
        "kc_distance:tree", "kc_distance:treeseq", "rf_distance", "negative-arguments",
        "refinement", "window-shortcuts",
        "forms:named", "forms:general", "forms:afs", "forms:matrix", "forms:topo", "forms:weighted", "forms:trait",
        "forms:alias", "forms:vector", "forms:repeat-call", "coal:quantiles", "coal:rates",
        "rf_distance:multi-root-refused",
        "threads:num_threads", "threads:gnn", "threads:concurrent-runs",
        "tsan:runs",
    ],
    ASSUMPTIONS=ASSUME_COMMON + [
        "lib/props/c08_ref.py states the documented definitions of the statistics correctly (two independent routes "
        "are compared with the real code and hence with each other)",
        "thread-schedule independence is observed on the interleavings produced (threads x repetitions counters), "
        "TSan reports only races that actually overlap in a run; CPython itself is uninstrumented",
        "ill-conditioned ratios (Tajimas_D, Fst, proportion=True, trait_linear_model near singularity) are compared "
        "only when the reference denominator exceeds 1e-6",
    ],
    # C08_THOROUGH_BUDGET: development knob only (shorter trial runs of the thorough tier)
    BUDGET={"quick": 45.0, "thorough": float(os.environ.get("C08_THOROUGH_BUDGET", 840.0))},
    EXTRA_VARIANTS=["tsan"],
    CASE_TIMEOUT={"quick": 400, "thorough": 900},
    MIN_CASES={"quick": 100, "thorough": 5000},
)
