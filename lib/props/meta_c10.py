from lib.props.meta_common import ASSUME_COMMON

ID = "C10"
META = dict(
    LEVEL="fault_enumeration",
    RULE=("for each generated dumped file (2-10 kB; reference sequence / top-level metadata+schema forced on fixed shares of the files, "
          "every eighth file with all tables empty; time units, provenance, migrations, row metadata at random): EVERY truncation "
          "offset; every byte of header+descriptors+keys x {^0x01,^0x80,=0x00,=0xFF} (reserved descriptor bytes: all with ^0x01, a "
          "rotating third with ^0x80/=0xFF); arithmetic-aware edits of num_items, file_size, key_start/len, array_start/len (+-1, x2, "
          "0, 2^64-1, +2^32, +2^62, +2^63, wrap-around values making len*type_size overflow back), every type code, descriptor "
          "swap, two-field edits (num_items=0+file_size=64, file_size+-k with k bytes appended/cut, both index arrays resized inside "
          "their alignment padding); 300 random 1-8 byte edits in column data/padding; typed special values (NaNs of either sign and "
          "several payloads, +-inf, +-0, denormal, max, -1; ids -1, -2, n, n+1, INT_MAX, INT_MIN) in the first/middle/last element of "
          "every numeric array item incl. sequence_length; exact boundary values computed from the file (id = row count of the "
          "referenced table +-1, offset = data length +-1, coordinate = L / L+-ulp / other end of the interval +-ulp / neighbouring "
          "element, time = another node's time / +-ulp, adjacent elements exchanged) in (nearly) every element; items removed / "
          "retyped / resized / duplicated / mis-ordered, tables shortened or extended consistently, index arrays resized, columns "
          "exchanged with the file RE-PACKED by an independent kastore writer (tskit-level format checks decide), all offsets as "
          "uint64 (must load equal) plus faults on that file; a 3-object stream of different objects with truncation / must-raise "
          "structural and data faults in object 1 or 2 through eager loaders, lazy loaders at the object's offset and pipes; a "
          "large file (> 65535 rows, > 64 KiB ragged column and blobs) with truncation at every array boundary and 2^k sizes, "
          "16/32-bit-aware descriptor edits and offset entries around 2^16; torn writes (zeros from offset n to the end). 27 loader forms in rotation: tskit.load, "
          "TreeSequence.load, TableCollection.load x {str, bytes, pathlib path, buffered / raw file object, int fd, pipe, socket} x "
          "{skip_tables, skip_reference_sequence, both}, file argument by keyword, the low-level _tskit classes, a re-used low-level object. Byte offsets are "
          "classified by an independent parse of the layout. Distinct = sha1(file rows, fault class, file size)."),
    REQUIRED=["loads", "truncations", "structural-edits", "arith-edits", "data-edits", "stream-loads", "typed-edits",
              "boundary-edits", "repack-edits", "stream-fault-loads", "truncations-nonseekable", "arith-combo-edits"],
    ASSUMPTIONS=ASSUME_COMMON + ["a data-region acceptance is judged by the C02 validity predicate (tskit.load), a positive sequence_length, dump->load->dump identity and equality of the object with its own round trip",
                                 "a re-packed file that breaks a format requirement of lib/props/c10_ext.format_reasons (column types as dump() writes them, one row count per table, offsets rows+1 non-decreasing 0..len(data), index one entry per edge, fixed-shape format/name, format/version, uuid, sequence_length) must be refused by every loader that reads the item"],
    BUDGET={"quick": 60.0, "thorough": 1200.0},
    CASE_TIMEOUT={"quick": 240, "thorough": 600},
)
