from lib.props.meta_common import ASSUME_COMMON

ID = "C10"
META = dict(
    LEVEL="fault_enumeration",
    RULE=("for each generated dumped file (2-10 kB; with/without top-level metadata+schema, time units, reference sequence, "
          "provenance, migrations, row metadata): EVERY truncation offset; every byte of header+descriptors+keys x "
          "{^0x01,^0x80,=0x00,=0xFF}; arithmetic-aware edits of num_items, file_size, key_start/len, array_start/len (+-1, x2, "
          "0, 2^64-1, +2^32, +2^62, +2^63, wrap-around values making len*type_size overflow back), every type code, descriptor "
          "swap; 300 random 1-8 byte edits in column data/padding; truncations of the second object of a stream. Loaders: "
          "tskit.load, TableCollection.load, skip_tables, skip_reference_sequence. Byte offsets are classified by an "
          "independent parse of the layout. Distinct = sha1(file rows, fault class, file size)."),
    REQUIRED=["loads", "truncations", "structural-edits", "arith-edits", "data-edits", "stream-loads"],
    ASSUMPTIONS=ASSUME_COMMON + ["a data-region acceptance is judged by the C02 validity predicate plus dump->load identity"],
    BUDGET={"quick": 60.0, "thorough": 1200.0},
    CASE_TIMEOUT={"quick": 240, "thorough": 600},
)
