from lib.props.meta_common import ASSUME_COMMON

ID = "C10"
META = dict(
    LEVEL="fault_enumeration",
    RULE=("for each generated dumped file (2-10 kB; with/without top-level metadata+schema, time units, reference sequence, "
          "provenance, migrations, row metadata): EVERY truncation offset; every byte of header+descriptors+keys x "
          "{^0x01,^0x80,=0x00,=0xFF}; arithmetic-aware edits of num_items, file_size, key_start/len, array_start/len (+-1, x2, "
          "0, 2^64-1, +2^32, +2^62, +2^63, wrap-around values making len*type_size overflow back), every type code, descriptor "
          "swap; 300 random 1-8 byte edits in column data/padding; typed special values (NaNs of either sign and several payloads, "
          "+-inf, +-0, denormal, max, -1; ids -1, -2, n, n+1, INT_MAX, INT_MIN) in the first/middle/last element of every numeric "
          "array item incl. sequence_length, cycling through all ten loader forms; truncations of the second object of a stream. Loaders: "
          "tskit.load, TableCollection.load, skip_tables, skip_reference_sequence. Byte offsets are classified by an "
          "independent parse of the layout. Distinct = sha1(file rows, fault class, file size)."),
    REQUIRED=["loads", "truncations", "structural-edits", "arith-edits", "data-edits", "stream-loads", "typed-edits"],
    ASSUMPTIONS=ASSUME_COMMON + ["a data-region acceptance is judged by the C02 validity predicate (tskit.load), a positive sequence_length, dump->load->dump identity and equality of the object with its own round trip"],
    BUDGET={"quick": 60.0, "thorough": 1200.0},
    CASE_TIMEOUT={"quick": 240, "thorough": 600},
)
