from lib.props.meta_common import ASSUME_COMMON

ID = "C19"
META = dict(
    LEVEL="exploration",
    RULE=("TreeSequence.ibd_segments / TableCollection.ibd_segments are called on (a) every sequence of 2 forests "
          "on <= 4 nodes (quick; also 3 forests on <= 4 nodes and 2 forests on 5 nodes in thorough), squashed or "
          "unsquashed, (b) forest-walk generated tree sequences (internal samples, unary nodes, multiple roots, "
          "gaps, unsquashed adjacent edges, 40-110 node 'wide' instances, one in ten with coordinates rescaled to "
          "> 24 significant bits) and (c) extreme instances forced by case index ('ext': the genealogy at the top / "
          "around 2^8, 2^15, 2^16, sqrt(2^31) of a 46 000 - 100 000 node table, one pair with > 255 and > 65 535 "
          "segments, > 65 535 pairs in one result, 130 - 1 030 requested nodes under one edge, chains of 300 - 1 500 "
          "unary links; 'manysets': > 65 536 between-sets), with default / within lists of arbitrary nodes / "
          "between partitions (0, 1, many, empty, equal-sized sets) in 16 container forms (list, tuple, range, "
          "numpy scalars, int8..uint64, big-endian, strided, read-only, 2-d array), min_span from a grid that "
          "contains exact segment spans and the doubles next to them, max_time between node times, exactly on an "
          "MRCA time (result must be the strict or the inclusive reading), next double above / below it, 0, -0.0, "
          "inf, DBL_MAX, negative values (refused or as defined), numbers as int / float / numpy scalars, each "
          "argument set under all four store_pairs x store_segments choices (True/False/None/0/1), every call "
          "through one of 11 routes (ts, tc, copies, ts.tables, dump_tables, unpickled, no index, low-level module "
          "by keyword / position / its own defaults). Every summary, key set (iteration, keys(), items(), values(), "
          "pairs array, `in`, get), per-pair summary, segment array and IdentitySegment object is compared with "
          "maximal runs of equal (path a->MRCA, path b->MRCA) signatures computed per elementary interval from the "
          "edge rows; one reading must fit all four store options; earlier results must survive later calls, "
          "segment lists must outlive their result, the same call twice must compare equal. Distinct = sha1 of row "
          "tuples; non-trivial = has edges."),
    REQUIRED=["oracle:segments-equal-reference", "oracle:pair-summaries-equal-reference",
              "oracle:totals-equal-reference", "oracle:store-options-consistent", "oracle:disjoint-and-covering",
              "oracle:must-raise", "exhaustive-small-forests", "ext:cases", "manysets:calls",
              "boundary-calls(two-candidate gate)", "oracle:earlier-result-unchanged",
              "oracle:same-call-equal-result", "oracle:list-outlives-result", "oracle:absent-pair-keyerror"],
    ASSUMPTIONS=ASSUME_COMMON + [
        "time[MRCA] == max_time and the per-link/per-edge-row reading of 'same path' on unsquashed edges are "
        "EITHER zones (documentation and code differ / documentation is ambiguous): the result must equal one of "
        "the candidate readings, the same one under all four store options",
        "negative min_span / max_time may be refused or answered as defined; uint64 arrays inside `between` are not "
        "fed (numpy promotes them to float64 next to a signed set, which is refused)",
        "instances with > 3 000 requested pairs are read back in full for counts and spans, segment arrays for a "
        "deterministic sample of about 200 pairs",
    ],
    BUDGET={"quick": 50.0, "thorough": 840.0},
    CASE_TIMEOUT={"quick": 60, "thorough": 240},
    MIN_CASES={"quick": 50, "thorough": 2000},
)
