from lib.props.meta_common import ASSUME_COMMON

ID = "C19"
META = dict(
    LEVEL="exploration",
    RULE=("TreeSequence.ibd_segments / TableCollection.ibd_segments are called on (a) every sequence of 2 forests "
          "on <= 4 nodes (quick; also 3 forests on <= 4 nodes and 2 forests on 5 nodes in thorough), squashed or "
          "unsquashed, and (b) forest-walk generated tree sequences (internal samples, unary nodes, multiple roots, "
          "gaps, unsquashed adjacent edges, 40-110 node 'wide' instances) with default / within lists of arbitrary "
          "nodes / between partitions (lists, tuples, int32/int64 arrays, empty sets), min_span from a grid that "
          "contains exact segment spans, max_time strictly between distinct node times, each argument set under all "
          "four store_pairs x store_segments choices through both entry points. Every summary, key set, per-pair "
          "summary and segment array is compared with maximal runs of equal (path a->MRCA, path b->MRCA) signatures "
          "computed per elementary interval from the edge rows. Distinct = sha1 of row tuples; non-trivial = has "
          "edges."),
    REQUIRED=["oracle:segments-equal-reference", "oracle:pair-summaries-equal-reference",
              "oracle:totals-equal-reference", "oracle:store-options-consistent", "oracle:disjoint-and-covering",
              "oracle:must-raise", "exhaustive-small-forests"],
    ASSUMPTIONS=ASSUME_COMMON + [
        "time[MRCA] == max_time and the per-link/per-edge-row reading of 'same path' on unsquashed edges are "
        "EITHER zones (documentation and code differ / documentation is ambiguous)",
        "node ids >= num_nodes are not fed (known defect D5 owned by C09)",
    ],
    BUDGET={"quick": 50.0, "thorough": 840.0},
    CASE_TIMEOUT={"quick": 60, "thorough": 240},
    MIN_CASES={"quick": 50, "thorough": 2000},
)
