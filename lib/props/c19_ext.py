"""C19 audit extension (lib/AUDIT-BRIEF.md): extreme instances, an incremental positional reference for them,
and the argument / accessor forms the check did not drive before.  Nothing here shares code with tsk_ibd_finder_*.

Everything is pure model code except `fast_tables` / `embed_tables` (column-wise table construction).
"""
import itertools
import math
import sys

import numpy as np

from lib.model import NODE_IS_SAMPLE, NULL, RowModel, sort_edges_key

DBL_MAX = sys.float_info.max


# --------------------------------------------------------------------------- incremental positional reference


def ref_runs_sweep(m, pairs, per_row):
    """Same definition as c19.ref_runs (maximal runs of equal path signatures per requested pair), but the
    {child: (parent, edge row)} map is updated at every breakpoint instead of being rebuilt from all edge rows,
    so that instances with 10^5 elementary intervals are affordable.  Written from docs/ibd.md "Definition"."""
    edges = m.edges
    starts, ends = {}, {}
    for j, e in enumerate(edges):
        starts.setdefault(e[0], []).append(j)
        ends.setdefault(e[1], []).append(j)
    bps = m.breakpoints()
    par = {}
    out = {p: [] for p in pairs}
    cur = {p: None for p in pairs}
    nodes = sorted({u for p in pairs for u in p})
    for i in range(len(bps) - 1):
        l = bps[i]
        for j in ends.get(l, ()):
            c = edges[j][3]
            if par.get(c, (None, None))[1] == j:
                del par[c]
        for j in starts.get(l, ()):
            par[edges[j][3]] = (edges[j][2], j)
        paths = {}
        for u in nodes:
            pn, pr = [u], []
            v = u
            while v in par:
                v, j = par[v]
                pn.append(v)
                pr.append(j)
            paths[u] = (pn, pr)
        for p in pairs:
            (pa, ra), (pb, rb) = paths[p[0]], paths[p[1]]
            sig, w = None, NULL
            if len(pa) > 1 or len(pb) > 1:
                posb = pb if len(pb) < 6 else {v: k for k, v in enumerate(pb)}
                for ia, v in enumerate(pa):
                    if v in posb:
                        ib = pb.index(v) if posb is pb else posb[v]
                        w = v
                        sig = (w, tuple(ra[:ia]), tuple(rb[:ib])) if per_row else (tuple(pa[:ia + 1]), tuple(pb[:ib + 1]))
                        break
            c = cur[p]
            if c is not None and c[0] != sig:
                out[p].append((c[1], l, c[2]))
                c = None
            if c is None and sig is not None:
                c = (sig, l, w)
            cur[p] = c
    L = bps[-1]
    for p in pairs:
        if cur[p] is not None:
            out[p].append((cur[p][1], L, cur[p][2]))
    return out


# --------------------------------------------------------------------------- extreme instances


def _finish(m, edges, desc):
    m.edges = sorted(edges, key=sort_edges_key(m))
    m.desc = desc  # short witness instead of the full row dump
    return m


def ladder_model(rng, k, variant):
    """One pair whose path to the SAME MRCA changes at every one of k-1 unit breakpoints: k segments per pair,
    all labelled with one node (k > 255 exceeds an 8-bit per-pair counter)."""
    m = RowModel(float(k))
    S = NODE_IS_SAMPLE
    edges = []
    if variant == "low":
        # u=0 v=1 w=2 samples; a=3 b=4 (time 1); r=5 (time 2)
        m.nodes = [(S, 0.0, NULL, NULL, b"")] * 3 + [(0, 1.0, NULL, NULL, b"")] * 2 + [(0, 2.0, NULL, NULL, b"")]
        for i in range(k):
            edges.append((float(i), float(i + 1), 3 if i % 2 == 0 else 4, 0, b""))
        edges += [(0.0, float(k), 5, 3, b""), (0.0, float(k), 5, 4, b""), (0.0, float(k), 5, 1, b""),
                  (0.0, float(k), 3, 2, b"")]
    else:
        # u=0 v=1 w=2 samples; a=3 (time 1); r1=4 r2=5 (time 2); top=6 (time 3)
        m.nodes = ([(S, 0.0, NULL, NULL, b"")] * 3 + [(0, 1.0, NULL, NULL, b"")] + [(0, 2.0, NULL, NULL, b"")] * 2
                   + [(0, 3.0, NULL, NULL, b"")])
        for i in range(k):
            edges.append((float(i), float(i + 1), 4 if i % 2 == 0 else 5, 3, b""))
        edges += [(0.0, float(k), 3, 0, b""), (0.0, float(k), 3, 2, b""), (0.0, float(k), 6, 4, b""),
                  (0.0, float(k), 6, 5, b""), (0.0, float(k), 6, 1, b"")]
    return _finish(m, edges, {"builder": "ladder_model", "k": k, "variant": variant})


def manymrca_model(rng, k, third=True):
    """Pair (0, 1) has a different MRCA 3+i on every unit interval i: k segments for one pair at linear cost
    (k > 65535 exceeds 16-bit per-pair / per-result counters).  Node 2 joins on every third interval."""
    m = RowModel(float(k))
    S = NODE_IS_SAMPLE
    m.nodes = [(S, 0.0, NULL, NULL, b"")] * 3 + [(0, 1.0 + (i % 7), NULL, NULL, b"") for i in range(k)]
    edges = []
    for i in range(k):
        edges.append((float(i), float(i + 1), 3 + i, 0, b""))
        edges.append((float(i), float(i + 1), 3 + i, 1, b""))
        if third and i % 3 == 0:
            edges.append((float(i), float(i + 1), 3 + i, 2, b""))
    return _finish(m, edges, {"builder": "manymrca_model", "k": k, "third": third})


def star_stem_model(rng, k, stem=2, side=3, two=False, sample_leaves=True):
    """k leaves under one hub, a unary stem of `stem` nodes above the hub (each stem edge carries the ancestry of
    all k leaves: the finder's segment queue has to grow from 64 to > k entries), `side` extra leaves hanging off
    the top.  With two=True the genome has two intervals and a few leaves hang directly off the stem in the
    second one."""
    L = 2.0 if two else 1.0
    m = RowModel(L)
    S = NODE_IS_SAMPLE
    hub = k
    stems = list(range(k + 1, k + 1 + stem))
    sides = list(range(k + 1 + stem, k + 1 + stem + side))
    top = stems[-1]
    m.nodes = ([(S if sample_leaves else 0, 0.0, NULL, NULL, b"")] * k + [(0, 1.0, NULL, NULL, b"")]
               + [(0, 2.0 + i, NULL, NULL, b"") for i in range(stem)] + [(S, 0.0, NULL, NULL, b"")] * side)
    moved = set(rng.sample(range(k), min(k, 5))) if two else set()
    edges = []
    for c in range(k):
        if c in moved:
            edges.append((0.0, 1.0, hub, c, b""))
            edges.append((1.0, 2.0, stems[0], c, b""))
        else:
            edges.append((0.0, L, hub, c, b""))
    prev = hub
    for s in stems:
        edges.append((0.0, L, s, prev, b""))
        prev = s
    for c in sides:
        edges.append((0.0, L, top, c, b""))
    m.layout = {"leaves": list(range(k)), "hub": hub, "stems": stems, "sides": sides, "top": top}
    return _finish(m, edges, {"builder": "star_stem_model", "k": k, "stem": stem, "side": side, "two": two,
                             "moved": sorted(moved), "sample_leaves": sample_leaves})


def deep_chain_model(rng, depth, nint):
    """A chain of `depth` unary links (node i at time i); the bottom sample re-attaches to another chain node in
    each of `nint` intervals, side samples hang off a few chain nodes."""
    m = RowModel(float(nint))
    S = NODE_IS_SAMPLE
    n = depth + 1
    sides = [n, n + 1, n + 2]
    m.nodes = [(S if i == 0 or rng.random() < 0.01 else 0, float(i), NULL, NULL, b"") for i in range(n)]
    m.nodes += [(S, 0.0, NULL, NULL, b"")] * 3
    edges = [(0.0, float(nint), i + 1, i, b"") for i in range(1, depth)]
    for i in range(nint):
        edges.append((float(i), float(i + 1), 1 if i == 0 else rng.randint(1, depth), 0, b""))
    for s in sides:
        edges.append((0.0, float(nint), rng.choice([1, depth // 2, depth - 1, depth]), s, b""))
    m.layout = {"bottom": 0, "top": depth, "sides": sides}
    return _finish(m, edges, {"builder": "deep_chain_model", "depth": depth, "nint": nint,
                             "edges_tail": [list(e[:4]) for e in edges[depth - 1:]]})


def scaled_copy(m, mult, times=False):
    """All coordinates multiplied by an odd integer just above a power of two: positions then need > 24
    significant bits (not representable in binary32), sums of spans stay exact in binary64.  With `times` the
    node / mutation / migration times are rescaled the same way (order and ties are preserved)."""
    c = m.copy()
    if times:
        c.nodes = [(r[0], r[1] * mult) + tuple(r[2:]) for r in m.nodes]
        c.mutations = [tuple(r[:4]) + (None if r[4] is None else r[4] * mult,) + tuple(r[5:]) for r in m.mutations]
        c.migrations = [tuple(g[:5]) + (g[5] * mult,) + tuple(g[6:]) for g in m.migrations]
        for a, b in zip(m.nodes, c.nodes):
            assert b[1] / mult == a[1], "scaled time is not exact"
        m = c.copy()
    c.L = m.L * mult
    c.edges = [(e[0] * mult, e[1] * mult, e[2], e[3], e[4]) for e in m.edges]
    c.sites = [(s[0] * mult,) + tuple(s[1:]) for s in m.sites]
    c.migrations = [(g[0] * mult, g[1] * mult) + tuple(g[2:]) for g in m.migrations]
    for x in [c.L] + [v for e in c.edges for v in e[:2]]:
        assert float(x) == x and x * 16 == int(x * 16), "scaled coordinate is not an exact small dyadic"
    c.tags = set(m.tags) | {"scaled-coordinates"}
    return c


def fast_tables(m):
    """TableCollection of a nodes+edges-only model, column-wise (row-wise add_row is too slow for 10^5 rows)."""
    import tskit
    tc = tskit.TableCollection(m.L)
    n = len(m.nodes)
    tc.nodes.set_columns(flags=np.array([r[0] for r in m.nodes], dtype=np.uint32),
                         time=np.array([r[1] for r in m.nodes], dtype=np.float64),
                         population=np.full(n, -1, dtype=np.int32), individual=np.full(n, -1, dtype=np.int32))
    e = m.edges
    tc.edges.set_columns(left=np.array([r[0] for r in e], dtype=np.float64),
                         right=np.array([r[1] for r in e], dtype=np.float64),
                         parent=np.array([r[2] for r in e], dtype=np.int32),
                         child=np.array([r[3] for r in e], dtype=np.int32))
    return tc


HIGH_SLOTS = [0, 1, 127, 128, 255, 256, 32767, 32768, 46340, 46341, 65535, 65536]


def embed_tables(m, rng, N, mode):
    """The nodes+edges of small model m placed at chosen ids of an N-node table (all other nodes isolated
    non-samples at time 0).  Returns (tc, idmap small->big).  mode 'top': the last ids; 'slots': ids around the
    8/15/16-bit limits and sqrt(2^31), at least two of them from the top; 'mixed': half low, half top."""
    import tskit
    n = m.num_nodes
    tops = list(range(N - 1, N - 1 - 2 * n - 4, -1))
    if mode == "top":
        ids = tops[:n]
    elif mode == "slots":
        cand = [x for x in HIGH_SLOTS if x < N - 2 * n - 8]
        rng.shuffle(cand)
        ids = tops[:2] + cand[:max(0, n - 2)]
        ids = (ids + tops[2:])[:n]
    else:
        ids = list(range(n // 2)) + tops[:n - n // 2]
    ids = list(ids)
    rng.shuffle(ids)
    idmap = {u: int(ids[u]) for u in range(n)}
    flags = np.zeros(N, dtype=np.uint32)
    time = np.zeros(N, dtype=np.float64)
    for u in range(n):
        flags[idmap[u]] = m.nodes[u][0]
        time[idmap[u]] = m.nodes[u][1]
    tc = tskit.TableCollection(m.L)
    tc.nodes.set_columns(flags=flags, time=time, population=np.full(N, -1, dtype=np.int32),
                         individual=np.full(N, -1, dtype=np.int32))
    edges = sorted(((e[0], e[1], idmap[e[2]], idmap[e[3]]) for e in m.edges),
                   key=lambda e: (time[e[2]], e[2], e[3], e[0]))
    for l, r, p, c in edges:
        tc.edges.add_row(l, r, p, c)
    return tc, idmap


def relabel_ref(ref, idmap):
    """{(a, b): [(l, r, w)]} in small ids -> the same in big ids, keys as (min, max), lists sorted."""
    out = {}
    for (a, b), segs in ref.items():
        A, B = idmap[a], idmap[b]
        out[(min(A, B), max(A, B))] = sorted((l, r, idmap[w]) for l, r, w in segs)
    return out


# --------------------------------------------------------------------------- argument forms


def _fits(ids, lo, hi):
    return all(lo <= int(u) <= hi for u in ids)


def id_forms(ids, ll=False, in_between=False):
    """Names of the container forms that can hold these ids.  `ll`: forms the low-level module takes as they are
    (it converts with numpy's safe casting: list / tuple / int32 and narrower arrays)."""
    f = ["list", "tuple", "int32", "range" if _is_range(ids) else "list", "npints", "strided32", "readonly32",
         "int16" if _fits(ids, -2 ** 15, 2 ** 15 - 1) else "int32",
         "int8" if _fits(ids, -128, 127) else "int32",
         "uint8" if _fits(ids, 0, 255) else "int32",
         "uint16" if _fits(ids, 0, 65535) else "int32"]
    if not ll:
        f += ["int64", "uint32", "strided64", "bigendian32"]
        if not in_between:
            # EITHER zone: numpy.hstack of a uint64 set with a signed set promotes to float64, which
            # safe_np_int_cast refuses with a TypeError (a refusal, not a wrong result) - not fed inside `between`
            f += ["uint64"]
    return f


def _is_range(ids):
    ids = [int(u) for u in ids]
    return len(ids) >= 1 and ids == list(range(ids[0], ids[0] + len(ids)))


def id_container(rng, ids, ll=False, in_between=False):
    """(form name, container).  Every form denotes the same id sequence."""
    ids = [int(u) for u in ids]
    form = rng.choice(id_forms(ids, ll, in_between))
    if form == "list":
        return form, list(ids)
    if form == "tuple":
        return form, tuple(ids)
    if form == "range":
        return form, range(ids[0], ids[0] + len(ids))
    if form == "npints":
        return form, [np.int64(u) if i % 2 else np.int32(u) for i, u in enumerate(ids)]
    if form == "strided32" or form == "strided64":
        dt = np.int32 if form == "strided32" else np.int64
        base = np.full(2 * len(ids) + 1, -7, dtype=dt)
        base[1::2] = ids
        return form, base[1::2]
    if form == "readonly32":
        a = np.array(ids, dtype=np.int32)
        a.setflags(write=False)
        return form, a
    if form == "bigendian32":
        return form, np.array(ids, dtype=">i4")
    return form, np.array(ids, dtype=getattr(np, form))


def between_container(rng, sets, ll=False):
    """(form name, container) for a list of id lists."""
    sets = [[int(u) for u in s] for s in sets]
    sizes = {len(s) for s in sets}
    forms = ["lists", "lists", "tuples", "mixed", "mixed", "arrays32"]
    if len(sizes) == 1 and sizes != {0} and len(sets) >= 1:
        forms += ["array2d", "array2d"]
    form = rng.choice(forms)
    if form == "lists":
        return form, [list(s) for s in sets]
    if form == "tuples":
        return form, tuple(tuple(s) for s in sets)
    if form == "arrays32":
        return form, [np.array(s, dtype=np.int32) for s in sets]
    if form == "array2d":
        return form, np.array(sets, dtype=rng.choice([np.int32, np.int64]))
    out = []
    for s in sets:
        out.append(id_container(rng, s, in_between=True)[1] if s else rng.choice([[], (), np.zeros(0, dtype=np.int32)]))
    return form, out


def num_form(rng, v):
    """The same real number as int / float / numpy scalar (only exact conversions)."""
    if v is None:
        return v
    forms = ["float", "float", "np.float64"]
    if math.isfinite(v) and float(v) == int(v) and abs(v) < 2 ** 31:
        forms += ["int", "np.int64", "np.int32"]
    if math.isinf(v) or (abs(v) < 3e38 and float(np.float32(v)) == float(v)):
        forms += ["np.float32"]
    f = rng.choice(forms)
    if f == "float":
        return float(v)
    if f == "int":
        return int(v)
    return getattr(np, f[3:])(v)


def plain(x):
    """JSON-able rendering of an argument value for witnesses."""
    if isinstance(x, range):
        return f"range({x.start}, {x.stop})"
    if isinstance(x, np.ndarray):
        return {"ndarray": str(x.dtype), "strides": list(x.strides), "values": x.tolist()} if x.size <= 64 else \
            f"<ndarray {x.dtype} shape {x.shape} first {x.ravel()[:3].tolist()}>"
    if isinstance(x, (list, tuple)):
        if len(x) > 400:
            return f"<{len(x)} entries, first {[plain(y) for y in list(x[:3])]}>"
        return [plain(y) for y in x]
    if isinstance(x, np.integer):
        return int(x)
    if isinstance(x, np.floating):
        return float(x)
    if isinstance(x, float) and (math.isinf(x) or math.isnan(x)):
        return repr(x)
    return x


def next_up(x):
    return math.nextafter(x, math.inf)


def next_down(x):
    return math.nextafter(x, -math.inf)
