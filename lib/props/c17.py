"""C17 — text table dumps reload to the same tree sequence.

Three oracles, all written from docs/file-formats.md ("Text file formats") and the docstrings of
TreeSequence.dump_text / tskit.load_text / tskit.parse_* / TableCollection.sort:

(A) dump oracle: every file written by dump_text is split by an independent tab parser and each cell is
    compared with the RowModel the tree sequence was built from (documented column names, fixed
    `precision` for node/edge/site coordinates, Base64 metadata, "unknown" mutation times ...).
(B) round trip: load_text(dump_text(ts)) equals the model with the documented sort applied
    (TableCollection.sort: edges by (time[parent], parent, child, left); sites by position; mutations by
    site then time keeping relative order; migrations by (time, source, dest, left, node); nodes,
    individuals, populations untouched).  Only the fields the statement lists are compared: node flags are
    reduced to the sample bit, edge metadata is not compared.
(C) metamorphic layouts: the dumped files are re-rendered with permuted columns, unknown junk columns,
    and optional columns omitted; load_text and each parse_* parser must return the expectation with the
    documented defaults (population/individual -1, metadata empty, mutation time unknown, parent -1,
    location/parents empty).

Audit pass (lib/props/AUDIT-C17.md): the same oracles are now reached through every documented CALL FORM
(lib/props/c17_ext.py: dump_text keyword / positional / one table per call / complementary subsets / real files /
write-only objects / the command line wrappers / a pickled copy; load_text keyword / positional / defaults / real
files / byte streams / rewound objects; parse_* keyword / positional / defaults / source= / real files / a table
that is written twice), on BOUNDARY values (doubles that need 17 significant digits in the str()-formatted
columns and through `precision`, inf / nan / -0.0 locations, flags 2^31 and 2^32-1, metadata of every byte value
and of 47..300 bytes, an empty or blank cell forced into the first / last column) and on EXTREME inputs (family
`tiny`: zero nodes, one node, no edges, identical rows, whole ragged columns empty / empty only in the last or
first row; family `big`: > 256 rows and ids in every table, > 256 mutations at a site, 300 parents, entries
> 64 KiB).  Case families follow k mod 23 (a prime: every shard count sees every family).

EITHER zones (not asserted):
  * order of migrations that tie on the documented sort key;
  * which exception type is raised by an insufficient `precision` (LibraryError or ValueError both fine),
    and whether such a dump loads at all;
  * sequence_length inference (documented: the maximum right coordinate of the edges) is asserted when that
    maximum equals L, and when it is smaller than L but every site and migration still fits below it; with no
    edges and no sequence_length only "raises or returns" is noted;
  * the sign of a -0.0 location and the payload of a nan location are not compared (nan must stay nan);
  * strict=False (whitespace) mode is not part of the statement.
"""
import base64

import tskit

from lib import gen
from lib.harness import case_rng
from lib.model import NULL, RowModel, sorted_copy
from lib.props import c17_ext as X
from lib.tsk import rows_from_columns, to_tables, to_ts

ID = "C17"

ALLELES_TEXT = ["A", "C", "G", "T", "", "", "AC", "GGT", "é", "0", "1", " ", "A G", "-", "unknown", "ü∂"]

# documented columns: (required, optional) per file, plus the names dump_text must write
SPEC = {
    "nodes": (["is_sample", "time"], ["population", "individual", "metadata"]),
    "edges": (["left", "right", "parent", "child"], ["metadata"]),
    "sites": (["position", "ancestral_state"], ["metadata"]),
    "mutations": (["site", "node", "derived_state"], ["time", "parent", "metadata"]),
    "individuals": (["flags"], ["location", "parents", "metadata"]),
    "populations": (["metadata"], []),
    "migrations": (["left", "right", "node", "source", "dest", "time"], ["metadata"]),
}
FILES = list(SPEC)
PARSERS = {
    "nodes": "parse_nodes", "edges": "parse_edges", "sites": "parse_sites",
    "mutations": "parse_mutations", "individuals": "parse_individuals",
    "populations": "parse_populations", "migrations": "parse_migrations",
}


PERIOD = 23  # prime: with any number of shards every worker sees every family
FAMILY = {5: "lowprec", 16: "lowprec", 2: "tiny", 13: "tiny", 9: "big"}


def cases(tier, seed):
    n = 16000 if tier == "quick" else 600000
    for k in range(n):
        g = FAMILY.get(k % PERIOD, "rt")
        if g == "big" and (k // PERIOD) % 3:
            g = "rt"  # a big case costs ~8 ordinary ones: one in 69
        yield {"gen": g, "k": k}


# ----------------------------------------------------------------------------------- inputs


def build(case):
    """Input of a case.  Families tiny / big come from c17_ext; everything else is the forest walk below plus
    boundary decorations in fixed shares of k (not left to chance)."""
    k = case["k"]
    if case["gen"] == "tiny":
        rng = case_rng(case)
        t = 2 * (k // PERIOD) + (k % PERIOD > 6)      # consecutive numbers over the tiny cases
        nk = len(X.TINY_KINDS)
        m = X.build_tiny(rng, X.TINY_KINDS[t % nk], t // nk * 3 + t % nk)
        return rng, m
    if case["gen"] == "big":
        rng = case_rng(case)
        m = X.build_big(rng, k // PERIOD)
        return rng, m
    rng, m = build_walk(case)
    j = k // PERIOD + k  # runs through all residues of 2, 3, 4 inside every family
    if j % 5 == 0:
        X.column_patterns(rng, m, j // 5)      # whole ragged columns empty / empty only in the last row ...
    if j % 4 == 1:
        X.deco_nondyadic(rng, m, rng.choice([("time",), ("coords",), ("time", "coords")]))
    elif j % 4 == 3 and any(t is not None for *_, t, _ in m.mutations):
        X.deco_nondyadic(rng, m, ("time",))    # known mutation times are written with str(): 17 digits wanted
    if j % 4 == 2:
        X.deco_wide(rng, m)
    if j % 3 == 0:
        X.deco_repr_doubles(rng, m)
    return rng, m


def build_walk(case):
    rng = case_rng(case)
    big = rng.random() < 0.1
    discrete = rng.random() < 0.3
    m = gen.gen_topology(rng, max_nodes=30 if big else 9, max_bp=8 if big else 4, discrete=discrete)
    if rng.random() < 0.8:
        gen.decorate_pops_inds(rng, m, npop=rng.choice([None, 1, 3]), nind=rng.choice([None, 2, 5]))
    gen.decorate_sites(rng, m, max_sites=8 if big else 5,
                       alleles=ALLELES_TEXT if rng.random() < 0.5 else None,
                       discrete=discrete)
    if rng.random() < 0.7:
        gen.decorate_migrations(rng, m)
    if rng.random() < 0.85:
        gen.decorate_meta(rng, m, tables=("nodes", "edges", "sites", "mutations", "individuals",
                                          "populations", "migrations"))
    # exact power-of-two rescaling of times / coordinates (tiny and huge magnitudes stay dyadic)
    if rng.random() < 0.15:
        f = rng.choice([2.0 ** -10, 2.0 ** 20, 2.0 ** 40])
        m.nodes = [(fl, t * f, p, i, md) for fl, t, p, i, md in m.nodes]
        m.mutations = [(s, u, d, p, None if t is None else t * f, md) for s, u, d, p, t, md in m.mutations]
        m.migrations = [g[:5] + (g[5] * f, g[6]) for g in m.migrations]
        m.tags.add("time-scaled:%g" % f)
    if rng.random() < 0.1:
        f = rng.choice([2.0 ** -6, 2.0 ** 10, 2.0 ** 30])
        m.L *= f
        m.edges = [(l * f, r * f, p, c, md) for l, r, p, c, md in m.edges]
        m.sites = [(x * f, a, md) for x, a, md in m.sites]
        m.migrations = [(g[0] * f, g[1] * f) + g[2:] for g in m.migrations]
        m.tags.add("coords-scaled:%g" % f)
    # the documented requirement is only that the edges of one parent are adjacent (sorted by child, left) and parents are in
    # time order: permute parents of equal age so that load_text's sort really has something to do
    if rng.random() < 0.5:
        groups = {}
        for e in m.edges:
            groups.setdefault((m.time(e[2]), e[2]), []).append(e)
        keys = sorted(groups, key=lambda k: (k[0], rng.random()))
        edges = []
        for k in keys:
            edges.extend(groups[k])  # within one parent: (child, left) order is required
        m.edges = edges
        m.tags.add("edges-not-canonical")
    return rng, m


def fmt_exact(x, p):
    return float(format(x, f".{p}f")) == x


def needed_precision(m):
    vals = [t for _, t, _, _, _ in m.nodes]
    vals += [e[0] for e in m.edges] + [e[1] for e in m.edges] + [s[0] for s in m.sites]
    p = 0
    while not all(fmt_exact(v, p) for v in vals):
        p += 1
        if p > 60:
            raise AssertionError("generator produced a non-dyadic coordinate")
    return p


# ----------------------------------------------------------------------------------- text layer


def split_file(text):
    """Independent reader of one dumped file: header names + list of field lists."""
    lines = text.split("\n")
    if lines and lines[-1] == "":
        lines.pop()
    header = lines[0].split("\t")
    rows = [ln.split("\t") for ln in lines[1:]]
    return header, rows


def render(header, rows):
    return "".join("\t".join(r) + "\n" for r in [header] + rows)


def b64(b):
    return base64.b64encode(b).decode("ascii")


def expected_cells(name, m, precision):
    """The cells dump_text must write, as {column: predicate-or-string} per row.
    Strings are compared literally; floats written with repr are compared by value."""
    F = lambda x: format(x, f".{precision}f")  # noqa: E731
    V = lambda x: ("float", x)  # noqa: E731  value comparison (repr formatting is not documented)
    out = []
    if name == "nodes":
        for j, (fl, t, pop, ind, md) in enumerate(m.nodes):
            out.append({"id": str(j), "is_sample": str(fl & 1), "time": F(t), "population": str(pop),
                        "individual": str(ind), "metadata": b64(md)})
    elif name == "edges":
        for l, r, p, c, md in m.edges:
            out.append({"left": F(l), "right": F(r), "parent": str(p), "child": str(c)})
    elif name == "sites":
        for pos, anc, md in m.sites:
            out.append({"position": F(pos), "ancestral_state": anc, "metadata": b64(md)})
    elif name == "mutations":
        for s, u, d, par, t, md in m.mutations:
            out.append({"site": str(s), "node": str(u), "derived_state": d, "parent": str(par),
                        "time": "unknown" if t is None else V(t), "metadata": b64(md)})
    elif name == "individuals":
        for j, (fl, loc, par, md) in enumerate(m.individuals):
            out.append({"id": str(j), "flags": str(fl), "location": ("floats", loc),
                        "parents": ",".join(str(x) for x in par), "metadata": b64(md)})
    elif name == "populations":
        for j, (md,) in enumerate(m.populations):
            out.append({"id": str(j), "metadata": b64(md)})
    elif name == "migrations":
        for l, r, u, s, d, t, md in m.migrations:
            out.append({"left": V(l), "right": V(r), "node": str(u), "source": str(s), "dest": str(d),
                        "time": V(t), "metadata": b64(md)})
    return out


def nan_key(loc):
    """Location tuples with nan made comparable (nan != nan; which nan it is is not asserted)."""
    return tuple("nan" if x != x else x for x in loc)


def cell_ok(exp, got):
    if isinstance(exp, tuple):
        try:
            if exp[0] == "float":
                return float(got) == exp[1]
            if exp[0] == "floats":
                vals = tuple(float(x) for x in got.split(",")) if got != "" else ()
                return nan_key(vals) == nan_key(exp[1])
        except ValueError:
            return False
    return exp == got


def check_dump(ctx, name, text, m, precision, form="kw"):
    """(A) the dumped text states the rows of the model (`form`: how dump_text was called, for the message)."""
    ctx.count("dump-cells:" + name)
    header, rows = split_file(text)
    req, opt = SPEC[name]
    missing = [c for c in req + opt if c not in header and not (name == "edges" and c == "metadata")]
    if missing:
        ctx.violation(f"dump/{name}/header", f"dump_text {name} header {header} lacks documented columns {missing}")
        return None
    if len(set(header)) != len(header):
        ctx.violation(f"dump/{name}/header", f"duplicate column names in header {header}")
        return None
    exp = expected_cells(name, m, precision)
    if len(rows) != len(exp):
        ctx.violation(f"dump/{name}/row-count", f"dump_text [call form {form}] wrote {len(rows)} {name} rows, table "
                      f"has {len(exp)}", {"text": text[:1500]})
        return None
    for j, (r, e) in enumerate(zip(rows, exp)):
        if len(r) < len(header):
            ctx.violation(f"dump/{name}/short-row", f"{name} row {j} has {len(r)} fields for header {header}: {r!r}")
            return None
        if any(x != "" for x in r[len(header):]):
            ctx.violation(f"dump/{name}/extra-fields", f"{name} row {j} has non-empty fields beyond the header: {r!r}")
            return None
        for col, want in e.items():
            if col not in header:
                continue
            got = r[header.index(col)]
            if not cell_ok(want, got):
                ctx.violation(f"dump/{name}/{col}",
                              f"dump_text(precision={precision}) [call form {form}] {name} row {j} column {col!r}: "
                              f"wrote {got[:300]!r}, table row says {str(want)[:300]!r}",
                              {"row": [x[:300] for x in r], "model": model_json(m)})
                return None
    # normalised (header, rows) with rows cut to the header width
    return header, [r[:len(header)] for r in rows]


# ----------------------------------------------------------------------------------- expectations


def expect_rows(name, m, kept):
    """Rows the parser must produce from the file of table `name` holding only the columns `kept`
    (documented defaults for omitted optional columns).  Same tuple layout as RowModel."""
    k = set(kept)
    if name == "nodes":
        return [(fl & 1, t, pop if "population" in k else NULL, ind if "individual" in k else NULL,
                 md if "metadata" in k else b"") for fl, t, pop, ind, md in m.nodes]
    if name == "edges":
        return [(l, r, p, c, b"") for l, r, p, c, _ in m.edges]
    if name == "sites":
        return [(pos, anc, md if "metadata" in k else b"") for pos, anc, md in m.sites]
    if name == "mutations":
        return [(s, u, d, par if "parent" in k else NULL, t if "time" in k else None,
                 md if "metadata" in k else b"") for s, u, d, par, t, md in m.mutations]
    if name == "individuals":
        return [(fl, loc if "location" in k else (), par if "parents" in k else (),
                 md if "metadata" in k else b"") for fl, loc, par, md in m.individuals]
    if name == "populations":
        return [(md,) for md, in m.populations]
    if name == "migrations":
        return [g[:6] + (g[6] if "metadata" in k else b"",) for g in m.migrations]
    raise KeyError(name)


COLS = {
    "nodes": ["flags", "time", "population", "individual", "metadata"],
    "edges": ["left", "right", "parent", "child", "metadata"],
    "sites": ["position", "ancestral_state", "metadata"],
    "mutations": ["site", "node", "derived_state", "parent", "time", "metadata"],
    "individuals": ["flags", "location", "parents", "metadata"],
    "populations": ["metadata"],
    "migrations": ["left", "right", "node", "source", "dest", "time", "metadata"],
}


def diff_rows(name, exp, got):
    """First difference between two row lists -> (column, message) or None."""
    if len(exp) != len(got):
        return "row-count", f"{len(got)} rows, expected {len(exp)}"
    if name == "individuals":
        exp = [(fl, nan_key(loc), par, md) for fl, loc, par, md in exp]
        got = [(fl, nan_key(loc), par, md) for fl, loc, par, md in got]
    for j, (e, g) in enumerate(zip(exp, got)):
        if e != g:
            for c, (a, b) in enumerate(zip(e, g)):
                if a != b:
                    return COLS[name][c], f"row {j}: {COLS[name][c]}={b!r}, expected {a!r} (row got {g!r}, expected {e!r})"
    return None


# ----------------------------------------------------------------------------------- layouts


JUNK_NAMES = ["junk", "x", "ID", "Time", "flags2", "is sample", "meta data", "left_", "", "ünknown"]
JUNK_VALUES = ["", "0", "-1", "zz", "1.5", "a b", "é", "unknown", "A,B", " "]


def _edge_sensitive(rows, ci):
    """Does column ci hold a cell that an over-eager strip()/rstrip() of the line would damage?"""
    return any(r[ci] == "" or r[ci] != r[ci].strip() for r in rows)


def relayout(rng, name, header, rows, mode, drop=()):
    """Re-render a dumped file.  mode: subset of {"permute", "junk", "edge"}; drop: optional columns to omit
    (the `id` column is unknown to every parser, so it is dropped at random as well).  "edge" moves a column
    holding an empty / blank-padded cell to the very end or the very start of the line (when there is one)."""
    cols = [c for c in header if c not in drop]
    if "id" in cols and rng.random() < 0.5:
        cols.remove("id")
    src = {c: header.index(c) for c in cols}
    layout = [(c, None) for c in cols]
    if "junk" in mode:
        used = set(header)
        for _ in range(rng.randint(1, 3)):
            nm = rng.choice(JUNK_NAMES)
            if nm in used or nm in SPEC[name][0] or nm in SPEC[name][1]:
                continue
            # individuals' files must not gain a column called like a real one of *that* table only
            used.add(nm)
            layout.insert(rng.randint(0, len(layout)), (nm, [rng.choice(JUNK_VALUES) for _ in rows]))
    if "permute" in mode:
        rng.shuffle(layout)
    where = None
    if "edge" in mode and rows:
        cand = [j for j, (c, vals) in enumerate(layout) if vals is None and c != "id" and _edge_sensitive(rows, src[c])]
        if cand:
            it = layout.pop(rng.choice(cand))
            where = rng.choice(["last", "last", "first"])
            if where == "last":
                layout.append(it)
            else:
                layout.insert(0, it)
    new_header = [c for c, _ in layout]
    new_rows = []
    for j, r in enumerate(rows):
        new_rows.append([r[src[c]] if vals is None else vals[j] for c, vals in layout])
    return new_header, new_rows, where


# ----------------------------------------------------------------------------------- the case

DUMP_WEIGHTS = {"kw": 3, "pos": 3, "single": 2, "split": 2, "files": 1, "writeonly": 1, "kw+prov": 2, "cli": 1,
                "pos-kw-mix": 2, "pickled": 1}
LOAD_WEIGHTS = {"kw": 2, "pos": 3, "mixed-defaults": 3, "files": 1, "wrapped-bytes": 1, "pos-L-kw": 2,
                "kw-shuffled": 2, "reread": 1}
PARSE_WEIGHTS = {"std": 3, "defaults": 3, "pos": 3, "srckw": 2, "file": 1, "std-enc": 2}


def wchoice(rng, weights):
    return rng.choices(list(weights), weights=list(weights.values()))[0]


def model_json(m):
    """Violation detail: the literal model unless it is huge (the case descriptor is the replay anyway)."""
    if sum(len(getattr(m, n)) for n in FILES) > 400:
        return {"note": "big model, replay the case", "rows": {n: len(getattr(m, n)) for n in FILES}}
    return m.to_json()


def dump_all(ctx, rng, ts, precision):
    form = wchoice(rng, DUMP_WEIGHTS)
    ctx.count("dump-form:" + form)
    return form, X.dump_form(ts, precision, form, rng)


def load(ctx, rng, files, L, form=None):
    form = form or wchoice(rng, LOAD_WEIGHTS)
    ctx.count("load-form:" + form)
    return form, X.load_form(files, L, form, rng)


def from_tables(tc):
    """lib.tsk.from_tables for the seven tables compared here, reading every raw column ONCE
    (lib.tsk.from_tables fetches a fresh copy of the column per row: quadratic, 20 % of this check's time)."""
    m = RowModel(tc.sequence_length)
    for n in FILES:
        setattr(m, n, rows_from_columns(n, getattr(tc, n).asdict()))
    return m


def sorted_model(model):
    """lib.model.sorted_copy without the deep copy (rows are immutable tuples; a third of the oracle's time went
    into copying them): the documented TableCollection.sort order, ids of sites and mutation parents remapped."""
    m = RowModel(model.L)
    for n in ("nodes", "individuals", "populations"):
        setattr(m, n, list(getattr(model, n)))
    src = sorted_copy(_Shallow(model))
    m.edges, m.sites, m.mutations, m.migrations = src.edges, src.sites, src.mutations, src.migrations
    return m


class _Shallow:
    """Just enough of a RowModel for sorted_copy: copy() returns a shallow stand-in."""

    def __init__(self, model):
        self.__dict__.update({n: getattr(model, n) for n in ("L", "nodes", "edges", "sites", "mutations",
                                                             "individuals", "populations", "migrations")})

    def copy(self):
        return _Shallow(self)

    def time(self, u):
        return self.nodes[u][1]


def compare_loaded(ctx, how, ts2, exp_model, detail):
    """(B)/(C): the loaded tree sequence equals the expectation after the documented sort."""
    E = sorted_model(exp_model)
    G = from_tables(ts2.dump_tables())
    ok = True
    if G.L != E.L:
        ctx.violation(f"{how}/sequence_length", f"sequence_length {G.L}, expected {E.L}", detail())
        ok = False
    for name in FILES:
        exp = getattr(E, name)
        got = getattr(G, name)
        if name == "edges":
            got = [e[:4] + (b"",) for e in got]
            exp = [e[:4] + (b"",) for e in exp]
        if name == "migrations":
            key = lambda g: (g[5], g[3], g[4], g[0], g[2])  # noqa: E731
            if [key(g) for g in got] != sorted(key(g) for g in got):
                ctx.violation(f"{how}/migrations/order", f"migrations not in the documented sort order: {got}", detail())
                ok = False
            exp, got = sorted(exp), sorted(got)
        d = diff_rows(name, exp, got)
        if d is not None:
            ctx.violation(f"{how}/{name}/{d[0]}", f"load_text [{how}] {name} {d[1]}"[:1800], detail())
            ok = False
    return ok


def input_features(ctx, m):
    for t in m.tags:
        ctx.feature(t)
    has = {n: len(getattr(m, n)) > 0 for n in FILES}
    for n in ("individuals", "populations", "migrations", "mutations"):
        if has[n]:
            ctx.feature("has:" + n)
    if any(d == "" for *_, d, _, _, _ in m.mutations) or any(a == "" for _, a, _ in m.sites):
        ctx.feature("empty-state")
    if any(len(x[-1]) == 0 for n in FILES for x in getattr(m, n)) and "metadata" in m.tags:
        ctx.feature("empty-metadata-among-nonempty")
    if any(t is not None for *_, t, _ in m.mutations):
        ctx.feature("known-mutation-time")
    if any(p != NULL for _, _, _, p, _, _ in m.mutations):
        ctx.feature("mutation-parent")
    if any(len(loc) == 0 for _, loc, _, _ in m.individuals) and any(len(loc) > 0 for _, loc, _, _ in m.individuals):
        ctx.feature("ragged-location")
    if any(len(par) == 0 for _, _, par, _ in m.individuals) and any(len(par) > 0 for _, _, par, _ in m.individuals):
        ctx.feature("ragged-parents")
    if any(x != x or x in (float("inf"), float("-inf")) for _, loc, _, _ in m.individuals for x in loc):
        ctx.feature("location:nan-or-inf")
    if any(len(x[-1]) >= 57 for n in FILES for x in getattr(m, n)):
        ctx.feature("metadata>=57-bytes")
    if any(t is not None and len(repr(t)) >= 17 for *_, t, _ in m.mutations):
        ctx.feature("mutation-time:17-digits")
    if any(fl >= 2 ** 31 for fl, _, _, _ in m.individuals):
        ctx.feature("individual-flags>=2^31")
    return has


def run_case(case, ctx):
    rng, m = build(case)
    has = input_features(ctx, m)
    ctx.count("family:" + case["gen"])
    nontrivial = len(m.edges) > 0 and (len(m.sites) > 0 or has["individuals"] or has["migrations"])
    ctx.sig(m.signature(), nontrivial=nontrivial)
    if case["k"] < 2:
        ctx.sample({"case": case, "model": m.to_json()})
    ts = to_ts(m)
    pneed = needed_precision(m)
    detail0 = lambda **kw: dict(model=model_json(m), **kw)  # noqa: E731

    if case["gen"] == "lowprec":
        return run_lowprec(ctx, rng, m, ts, pneed)

    choices = [pneed, pneed, pneed + 1, max(17, pneed), max(20, pneed + 3)]
    if pneed <= 6:
        choices += [None, None, 6]
    precision = rng.choice(choices)
    ctx.feature(f"precision:{'default' if precision is None else ('needed' if precision == pneed else 'larger')}")
    try:
        dform, texts = dump_all(ctx, rng, ts, precision)
    except Exception as e:  # dump_text must never fail on a valid tree sequence
        ctx.violation("dump/raises", f"dump_text(precision={precision}) raised {type(e).__name__}: {e}", detail0())
        return
    peff = 6 if precision is None else precision
    parsed = {}
    for name in FILES:
        parsed[name] = check_dump(ctx, name, texts[name], m, peff, dform)
    if any(v is None for v in parsed.values()):
        return

    full = {n: SPEC[n][0] + SPEC[n][1] for n in FILES}
    exp_full = RowModel(m.L)
    for n in FILES:
        setattr(exp_full, n, expect_rows(n, m, full[n]))

    # ---- (B) plain round trip of the untouched text
    ctx.count("roundtrip")
    for t in ("deco:repr-doubles", "deco:nondyadic-times", "deco:nondyadic-coords", "deco:wide-metadata"):
        if t in m.tags:
            ctx.count("roundtrip:" + t[5:])
    lform = "?"
    try:
        lform, ts2 = load(ctx, rng, texts, m.L)
    except Exception as e:
        ctx.violation("roundtrip/load-raises",
                      f"load_text(dump_text(ts, precision={precision})) raised {type(e).__name__}: {e}",
                      {"model": model_json(m), "texts": {k: v[:800] for k, v in texts.items()}})
        ts2 = None
    if ts2 is not None:
        compare_loaded(ctx, "roundtrip", ts2, exp_full,
                       lambda: {"model": model_json(m), "precision": precision, "dump_form": dform, "load_form": lform})
    # sequence length inferred from the edges (documented: maximum right coordinate)
    maxr = max((e[1] for e in m.edges), default=None)
    if maxr is None:
        # "useful in degenerate situations (such as when there are zero edges)": without it nothing is promised
        try:
            load(ctx, rng, texts, rng.choice([0, None]), "kw")
            ctx.feature("zero-edges-no-length:returned")
        except Exception:
            ctx.feature("zero-edges-no-length:raised")
    elif case["gen"] == "big":
        pass  # nothing a big input adds to the inference; its three-digit ids go through (B) and (C)
    elif maxr == m.L or (all(s[0] < maxr for s in m.sites) and all(g[1] <= maxr for g in m.migrations)):
        ctx.count("roundtrip:inferred-length")
        exp_inf = exp_full
        if maxr < m.L:
            ctx.count("roundtrip:inferred-length-below-L")
            exp_inf = exp_full.copy()
            exp_inf.L = maxr
        try:
            _, ts3 = load(ctx, rng, texts, 0 if rng.random() < 0.5 else None)
            compare_loaded(ctx, "inferred-length", ts3, exp_inf, detail0)
        except Exception as e:
            ctx.violation("inferred-length/load-raises", f"load_text without sequence_length raised "
                          f"{type(e).__name__}: {e}", detail0())

    # ---- (C) layouts, through load_text and through every parse_* function
    nrep = 1 if case["gen"] == "big" else 3
    for rep in range(nrep):
        mode = rng.choice([("permute",), ("junk",), ("permute", "junk"), (), ("permute", "junk"),
                           ("permute", "edge"), ("edge",), ("junk", "edge")])
        files = {}
        kept = {}
        dropped_desc = []
        # an individuals file can only be left out when the nodes file has no individual column: decide first
        r_omit = rng.random()
        if not m.nodes and rep == 0:
            r_omit = 0.55  # an empty node table and no populations file: the back-fill has nothing to look at
        omit_inds = 0.4 <= r_omit < 0.5 and rep > 0
        for name in FILES:
            header, rows = parsed[name]
            opt = SPEC[name][1]
            drop = [c for c in opt if rng.random() < (0.35 if rep or nrep == 1 else 0.0)]
            if omit_inds and name == "nodes" and "individual" not in drop:
                drop.append("individual")
            nh, nr, where = relayout(rng, name, header, rows, mode, drop)
            if where:
                ctx.feature("layout:blank-cell-column-" + where)
            files[name] = render(nh, nr)
            kept[name] = [c for c in full[name] if c not in drop]
            rt = relaxed_text(rng, nh, nr) if case["gen"] != "big" else None
            if rt is not None and nr:
                run_parser(ctx, rng, name, rt, expect_rows(name, m, kept[name]), mode, kept[name], m, relaxed=True)
            dropped_desc += [f"{name}.{c}" for c in drop]
        # direct parser calls
        for name in FILES:
            exp = expect_rows(name, m, kept[name])
            run_parser(ctx, rng, name, files[name], exp, mode, kept[name], m)
        # load_text on a coherent subset of the files
        sel = dict(files)
        expm = RowModel(m.L)
        for n in FILES:
            setattr(expm, n, expect_rows(n, m, kept[n]))
        r = r_omit
        omitted = []
        if r < 0.15:
            omitted = ["mutations"]
        elif r < 0.3:
            omitted = ["sites", "mutations"]
        elif r < 0.4:
            omitted = ["migrations"]
        elif r < 0.5 and "individual" not in kept["nodes"]:
            omitted = ["individuals"]
        elif r < 0.6:
            # documented convenience: populations referenced by nodes are created when the file is absent
            omitted = ["populations", "migrations"]
        elif r < 0.65 and all(max(g[3], g[4]) <= max([x[2] for x in expm.nodes], default=NULL) for g in m.migrations):
            # ... and migrations between the populations created that way stay loadable
            omitted = ["populations"]
        for n in omitted:
            del sel[n]
            setattr(expm, n, [])
        if "populations" in omitted:
            mx = max([x[2] for x in expm.nodes], default=NULL)
            expm.populations = [(b"",)] * (mx + 1)
            ctx.count("population-backfill")
            if not expm.nodes:
                ctx.feature("population-backfill:zero-nodes")
            elif mx == NULL:
                ctx.feature("population-backfill:no-node-has-a-population")
        ctx.count("layout:load_text")
        for c in dropped_desc:
            ctx.feature("dropped:" + c)
        for n in omitted:
            ctx.feature("file-omitted:" + n)
        lform = "?"
        detail = lambda: {"model": model_json(m), "mode": mode, "dropped": dropped_desc, "omitted": omitted,  # noqa: E731
                          "load_form": lform, "files": {k: v[:600] for k, v in sel.items()}}
        try:
            lform, ts4 = load(ctx, rng, sel, m.L)
        except Exception as e:
            ctx.violation("layout/load-raises",
                          f"load_text raised {type(e).__name__}: {e} on files with layout {mode}, "
                          f"dropped optional columns {dropped_desc}, omitted files {omitted}", detail())
            continue
        # mechanism-named keys: which transformation was active
        tag = "+".join(mode) or "plain"
        if dropped_desc:
            tag += "+dropped"
        if omitted:
            tag += "+omitted-files"
        compare_loaded(ctx, f"layout[{tag}]", ts4, expm, detail)


def relaxed_text(rng, header, rows):
    """The same file for strict=False (any run of whitespace separates fields); only possible when no
    cell is empty or contains whitespace.  Returns None otherwise."""
    for r in [header] + rows:
        for x in r:
            if x == "" or len(x.split()) != 1 or x.split()[0] != x:
                return None
    seps = ["\t", " ", "  ", " \t", "\t\t", "    "]
    return "".join(rng.choice(["", "", " "]) + "".join(x + rng.choice(seps) for x in r[:-1]) + r[-1]
                   + rng.choice(["", "", " ", "\t"]) + "\n" for r in [header] + rows)


def run_parser(ctx, rng, name, text, exp, mode, kept, m, relaxed=False):
    ctx.count(("parse-relaxed:" if relaxed else "parse:") + name)
    form = wchoice(rng, PARSE_WEIGHTS)
    ctx.count("parse-form:" + form)
    pre = []
    table = None
    twice = False
    r = rng.random()
    if r < 0.3:
        # documented: "If specified write into this table" -> rows are appended
        if rng.random() < 0.4 and exp:
            pre = exp[:1]
        mm = RowModel(1.0)
        setattr(mm, name, list(pre))
        table = getattr(to_tables(mm), name)          # a table owned by a TableCollection (as load_text passes)
        if rng.random() < 0.3:
            table = table.copy()                      # a free-standing table
        twice = rng.random() < 0.3
    detail = {"text": text[:1200], "kept": kept, "mode": mode, "form": form}
    try:
        res = X.parse_form(name, text, form, not relaxed, table, rng)
        if twice:
            # the same table object written a second time: the rows are appended again
            ctx.count("parse:same-table-twice")
            X.parse_form(name, text, form, not relaxed, table, rng)
    except Exception as e:
        ctx.violation(f"parse{'-relaxed' if relaxed else ''}/{name}/raises",
                      f"{PARSERS[name]} [call form {form}] raised {type(e).__name__}: {e} on layout {mode} "
                      f"with columns {kept}", detail)
        return
    if table is None:
        table = res  # with table= given, rows are written into the given table (return value left open)
    got = rows_from_columns(name, table.asdict())  # raw columns of the returned / given table
    d = diff_rows(name, pre + exp + (exp if twice else []), got)
    if d is not None:
        how = "+".join(mode) or "plain"
        missing = [c for c in SPEC[name][1] if c not in kept]
        if missing:
            how += "+dropped"
        ctx.violation(f"parse{'-relaxed' if relaxed else ''}/{name}/{d[0]}",
                      f"{PARSERS[name]} [{how}; call form {form}; omitted columns {missing}] {d[1]}"[:1800], detail)


def run_lowprec(ctx, rng, m, ts, pneed):
    """precision below what the coordinates need: only 'raises or loads what the text says'."""
    if pneed == 0:
        ctx.count("trivial_cases")
        return
    p = pneed - 1 if rng.random() < 0.5 else rng.randrange(0, pneed)  # one digit short: the exact boundary
    ctx.feature("precision:insufficient")
    if p == pneed - 1:
        ctx.feature("precision:one-digit-short")
    try:
        dform, texts = dump_all(ctx, rng, ts, p)
    except Exception as e:
        ctx.violation("dump/raises", f"dump_text(precision={p}) raised {type(e).__name__}: {e}", {"model": m.to_json()})
        return
    for name in FILES:
        check_dump(ctx, name, texts[name], m, p, dform)
    ctx.count("lowprec")
    try:
        _, ts2 = load(ctx, rng, texts, m.L)
    except (tskit.LibraryError, ValueError):
        ctx.feature("lowprec:rejected")
        return
    except Exception as e:
        ctx.violation("lowprec/unexpected-exception", f"load_text on a precision={p} dump raised "
                      f"{type(e).__name__}: {e}", {"model": m.to_json()})
        return
    ctx.feature("lowprec:loaded")
    G = from_tables(ts2.dump_tables())
    R = lambda x: float(format(x, f".{p}f"))  # noqa: E731
    exp_nodes = [(fl & 1, R(t), pop, ind, md) for fl, t, pop, ind, md in m.nodes]
    d = diff_rows("nodes", exp_nodes, G.nodes)
    if d is not None:
        ctx.violation(f"lowprec/nodes/{d[0]}", f"precision={p}: {d[1]}", {"model": m.to_json()})
    if sorted(s[0] for s in G.sites) != sorted(R(s[0]) for s in m.sites):
        ctx.violation("lowprec/sites/position", f"precision={p}: site positions {[s[0] for s in G.sites]} expected "
                      f"{sorted(R(s[0]) for s in m.sites)}", {"model": m.to_json()})
    exp_e = sorted((R(l), R(r), pa, c) for l, r, pa, c, _ in m.edges)
    if sorted(e[:4] for e in G.edges) != exp_e:
        ctx.violation("lowprec/edges", f"precision={p}: edges {sorted(e[:4] for e in G.edges)} expected {exp_e}",
                      {"model": m.to_json()})
