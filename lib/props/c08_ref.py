"""C08 reference statistics: naive evaluation of the documented definitions (docs/stats.md and the
method docstrings) on a RowModel.  Pure Python/numpy, per-position forests from lib.model only: no
edge sweep, no incremental state, no shared code with the C library.

Two independent routes are implemented on purpose:
  (1) `Ref.general`  - the documented "summary function" engine (weights below a node / carried by an
      allele, pushed through f), used for general_stat / sample_count_stat and for every named
      statistic through its documented summary function (SUMMARY below);
  (2) `Ref.tuple_stat` and the dedicated functions (afs, divergence_matrix, gnn, mean_descendants,
      pair_coalescence_counts, ld r2, ...) - first-principles definitions in terms of tuples of
      samples, alleles they carry, branches that separate them and MRCAs.
"""
import itertools

import numpy as np

from lib.model import NULL, allele_at, forest


class TreeRef:
    __slots__ = ("left", "right", "fr", "below", "below_nodes", "blen", "has_edges")


class Ref:
    def __init__(self, m):
        self.m = m
        self.L = m.L
        self.N = m.num_nodes
        self.samples = m.samples()  # ts.samples(): sample node ids in increasing order
        self.n = len(self.samples)
        self.sidx = {u: i for i, u in enumerate(self.samples)}
        self.bps = m.breakpoints()
        self.trees = []
        for l, r in zip(self.bps[:-1], self.bps[1:]):
            t = TreeRef()
            t.left, t.right = l, r
            t.fr = forest(m, (l + r) / 2)
            t.below_nodes = [set(t.fr.descendants(u)) for u in range(self.N)]
            t.below = [sorted(self.sidx[v] for v in t.below_nodes[u] if v in self.sidx)
                       for u in range(self.N)]
            t.blen = [(m.time(t.fr.parent[u]) - m.time(u)) if u in t.fr.parent else None
                      for u in range(self.N)]
            t.has_edges = bool(t.fr.parent)
            self.trees.append(t)
        self.sites = []
        for j, s in enumerate(m.sites):
            fr = forest(m, s[0])
            alleles = [s[1]]
            nmut = 0
            for k in m.site_mutations(j):
                nmut += 1
                d = m.mutations[k][2]
                if d not in alleles:
                    alleles.append(d)
            node_allele = [alleles.index(allele_at(m, fr, j, u)) for u in range(self.N)]
            geno = [node_allele[u] for u in self.samples]
            carriers = [[i for i in range(self.n) if geno[i] == a] for a in range(len(alleles))]
            self.sites.append({"pos": s[0], "alleles": alleles, "geno": geno, "carriers": carriers,
                               "node_allele": node_allele, "nmut": nmut})

    # ------------------------------------------------------------------ windows
    def parse_windows(self, windows):
        """Documented shortcuts.  'sites': one window per site starting at the site and ending at the
        next one (docs); the first window is taken to start at 0 (the docs' literal list would not start
        at 0, which they require elsewhere)."""
        if windows is None:
            return [0.0, self.L]
        if isinstance(windows, str):
            if windows == "trees":
                return list(self.bps)
            if windows == "sites":
                pos = [s["pos"] for s in self.sites]
                if not pos:
                    return [0.0, self.L]
                w = pos + [self.L]
                w[0] = 0.0
                return w
            raise ValueError(windows)
        return [float(x) for x in windows]

    def tree_overlaps(self, wl, wr):
        for t in self.trees:
            lo, hi = max(t.left, wl), min(t.right, wr)
            if hi > lo:
                yield t, hi - lo

    # ------------------------------------------------------------------ (1) summary-function engine
    def general(self, W, f, windows, mode, polarised, span_normalise):
        """Returns (result, magnitude, nterms).  magnitude = same sum with absolute values of the
        terms (scale for tolerances); nterms[w] = number of f evaluations that entered window w."""
        W = np.asarray(W, dtype=float)
        if W.ndim == 1:
            W = W.reshape((-1, 1))
        k = W.shape[1]
        total = W.sum(axis=0) if len(W) else np.zeros(k)
        windows = self.parse_windows(windows)
        nw = len(windows) - 1

        def state(idx):
            return W[idx].sum(axis=0) if len(idx) else np.zeros(k)

        def ff(x):
            with np.errstate(all="ignore"):
                return np.asarray(f(x), dtype=float).reshape(-1)

        d = len(ff(total * 0.0))
        if mode == "node":
            res = np.zeros((nw, self.N, d))
            mag = np.zeros((nw, self.N, d))
        else:
            res = np.zeros((nw, d))
            mag = np.zeros((nw, d))
        nterms = [0] * nw
        if mode == "site":
            for s in self.sites:
                for w in range(nw):
                    if windows[w] <= s["pos"] < windows[w + 1]:
                        for a in range(len(s["alleles"])):
                            if polarised and a == 0:
                                continue
                            v = ff(state(s["carriers"][a]))
                            res[w] += v
                            mag[w] += np.abs(np.nan_to_num(v))
                            nterms[w] += 1
        else:
            for t in self.trees:
                vals = []
                for u in range(self.N):
                    if mode == "branch" and t.blen[u] is None:
                        vals.append(None)
                        continue
                    x = state(t.below[u])
                    v = ff(x)
                    if not polarised:
                        v = v + ff(total - x)
                    vals.append(v)
                for w in range(nw):
                    lo, hi = max(t.left, windows[w]), min(t.right, windows[w + 1])
                    if hi <= lo:
                        continue
                    span = hi - lo
                    for u in range(self.N):
                        if vals[u] is None:
                            continue
                        if mode == "branch":
                            c = t.blen[u] * span * vals[u]
                            res[w] += c
                            mag[w] += np.abs(np.nan_to_num(c))
                        else:
                            c = span * vals[u]
                            res[w, u] += c
                            mag[w, u] += np.abs(np.nan_to_num(c))
                        nterms[w] += 1
        if span_normalise:
            for w in range(nw):
                res[w] /= windows[w + 1] - windows[w]
                mag[w] /= windows[w + 1] - windows[w]
        return res, mag, nterms

    def indicator_weights(self, sample_sets):
        return np.array([[1.0 if u in A else 0.0 for A in sample_sets] for u in self.samples]).reshape(
            (self.n, len(sample_sets)))

    # ------------------------------------------------------------------ (2) tuple engine
    def tuple_stat(self, tuples, pred, k, windows, mode, polarised, span_normalise):
        """Average, over the weighted sample tuples [(weight, (node,...)), ...], of
            site   : sum over sites in the window and alleles (ancestral skipped if polarised) of
                     pred(flags), flags[i] = member i carries the allele
            branch : sum over trees and branches of length*span*(pred(flags) [+ pred(~flags)]),
                     flags[i] = member i is below the branch
            node   : per node the same without the length.
        Returns res (nw,) or (nw, N)."""
        windows = self.parse_windows(windows)
        nw = len(windows) - 1
        res = np.zeros((nw, self.N)) if mode == "node" else np.zeros(nw)
        wsum = sum(w for w, _ in tuples)
        if mode == "site":
            for s in self.sites:
                na = s["node_allele"]
                for w in range(nw):
                    if windows[w] <= s["pos"] < windows[w + 1]:
                        acc = 0.0
                        for wt, tup in tuples:
                            als = [na[u] for u in tup]
                            for a in range(len(s["alleles"])):
                                if polarised and a == 0:
                                    continue
                                acc += wt * pred([x == a for x in als])
                        res[w] += acc
        else:
            for t in self.trees:
                vals = [None] * self.N
                for u in range(self.N):
                    if mode == "branch" and t.blen[u] is None:
                        continue
                    bn = t.below_nodes[u]
                    acc = 0.0
                    for wt, tup in tuples:
                        fl = [x in bn for x in tup]
                        acc += wt * pred(fl)
                        if not polarised:
                            acc += wt * pred([not x for x in fl])
                    vals[u] = acc
                for w in range(nw):
                    lo, hi = max(t.left, windows[w]), min(t.right, windows[w + 1])
                    if hi <= lo:
                        continue
                    for u in range(self.N):
                        if vals[u] is None:
                            continue
                        if mode == "branch":
                            res[w] += t.blen[u] * (hi - lo) * vals[u]
                        else:
                            res[w, u] += (hi - lo) * vals[u]
        with np.errstate(all="ignore"):
            res = res / wsum if wsum != 0 else res * float("nan")
        if span_normalise:
            for w in range(nw):
                res[w] /= windows[w + 1] - windows[w]
        return res

    # ------------------------------------------------------------------ AFS by direct counting
    def afs(self, sample_sets, windows, mode, polarised, span_normalise):
        """docs 'Allele frequency spectrum' note: per allele (site) / per branch, the joint count in the
        sample sets; only alleles/branches carried by some but not all samples of the tree sequence;
        polarised: +1 (x length x span) at the count, ancestral allele skipped; unpolarised: +1/2 per
        allele at the folded count (a branch stands for two alleles).  Returned UNFOLDED together
        with a flag array; folding is applied by the caller (the fold of a joint spectrum is only
        documented as 'lower triangular in a similar way')."""
        windows = self.parse_windows(windows)
        nw = len(windows) - 1
        dims = [len(A) + 1 for A in sample_sets]
        res = np.zeros([nw] + dims)
        sets = [set(self.sidx[u] for u in A) for A in sample_sets]

        def coords(idx):
            return tuple(sum(1 for i in idx if i in S) for S in sets)

        if mode == "site":
            for s in self.sites:
                for w in range(nw):
                    if windows[w] <= s["pos"] < windows[w + 1]:
                        for a in range(len(s["alleles"])):
                            if polarised and a == 0:
                                continue
                            car = s["carriers"][a]
                            if 0 < len(car) < self.n:
                                res[(w,) + coords(car)] += 1.0 if polarised else 0.5
        else:
            for t in self.trees:
                for w in range(nw):
                    lo, hi = max(t.left, windows[w]), min(t.right, windows[w + 1])
                    if hi <= lo:
                        continue
                    for u in range(self.N):
                        if t.blen[u] is None:
                            continue
                        car = t.below[u]
                        if 0 < len(car) < self.n:
                            c = coords(car)
                            if polarised:
                                res[(w,) + c] += t.blen[u] * (hi - lo)
                            else:
                                # the two alleles of a mutation on this branch: count c and its complement
                                res[(w,) + c] += 0.5 * t.blen[u] * (hi - lo)
                                cc = tuple(d - 1 - x for d, x in zip(dims, c))
                                res[(w,) + cc] += 0.5 * t.blen[u] * (hi - lo)
        if span_normalise:
            for w in range(nw):
                res[w] /= windows[w + 1] - windows[w]
        return res

    # ------------------------------------------------------------------ pairwise distances
    def _pair_distance(self, a, b, windows, mode, span_normalise):
        """Number of sites at which a and b carry different alleles / total length of the branches
        that have exactly one of a, b below them, per window (a == b gives 0)."""
        windows = self.parse_windows(windows)
        nw = len(windows) - 1
        res = np.zeros(nw)
        if mode == "site":
            for s in self.sites:
                for w in range(nw):
                    if windows[w] <= s["pos"] < windows[w + 1]:
                        if s["node_allele"][a] != s["node_allele"][b]:
                            res[w] += 1
        else:
            for t in self.trees:
                d = 0.0
                for u in range(self.N):
                    if t.blen[u] is not None and ((a in t.below_nodes[u]) != (b in t.below_nodes[u])):
                        d += t.blen[u]
                for w in range(nw):
                    lo, hi = max(t.left, windows[w]), min(t.right, windows[w + 1])
                    if hi > lo:
                        res[w] += d * (hi - lo)
        if span_normalise:
            for w in range(nw):
                res[w] /= windows[w + 1] - windows[w]
        return res

    def divergence_matrix(self, sample_sets, windows, mode, span_normalise):
        """D[i, j] = mean over a in S_i, b in S_j of the pairwise distance; diagonal: mean over
        pairs of distinct members (0 for a singleton: no pairs accumulated, see EITHER note in c08)."""
        windows = self.parse_windows(windows)
        nw = len(windows) - 1
        ns = len(sample_sets)
        D = np.zeros((nw, ns, ns))
        cache = {}

        def dist(a, b):
            key = (min(a, b), max(a, b))
            if key not in cache:
                cache[key] = self._pair_distance(a, b, windows, mode, span_normalise)
            return cache[key]

        for i in range(ns):
            for j in range(ns):
                tot = np.zeros(nw)
                cnt = 0
                for a in sample_sets[i]:
                    for b in sample_sets[j]:
                        if i == j and a == b:
                            continue
                        tot += dist(a, b)
                        cnt += 1
                D[:, i, j] = tot / cnt if cnt else 0.0
        return D

    # ------------------------------------------------------------------ relatedness between nodes
    def shared(self, a, b, windows, mode, polarised, span_normalise):
        """m(a,b) / B(a,b) / N(a,b) of the genetic_relatedness docstring: number of (derived) alleles
        carried by both a and b / area of branches ancestral to both (unpolarised: plus alleles
        carried by neither / branches ancestral to neither)."""
        return self.tuple_stat([(1.0, (a, b))], lambda f: 1.0 if (f[0] and f[1]) else 0.0, 2, windows,
                               mode, polarised, span_normalise)

    # ------------------------------------------------------------------ GNN
    def gnn(self, focal, ref_sets):
        out = np.zeros((len(focal), len(ref_sets)))
        refall = set(u for S in ref_sets for u in S)
        for j, u in enumerate(focal):
            tot_len = 0.0
            for t in self.trees:
                span = t.right - t.left
                # nearest ancestor (starting from the focal node itself) that has a reference node
                # other than the focal node below it
                p = u
                found = None
                while True:
                    others = [v for v in t.below_nodes[p] if v in refall and v != u]
                    if others:
                        found = others
                        break
                    if p not in t.fr.parent:
                        break
                    p = t.fr.parent[p]
                if found is None:
                    continue
                tot_len += span
                for k, S in enumerate(ref_sets):
                    out[j, k] += span * sum(1 for v in found if v in S) / len(found)
            if tot_len > 0:
                out[j] /= tot_len
        return out

    # ------------------------------------------------------------------ mean descendants
    def mean_descendants(self, ref_sets, denom="refs"):
        """C[u, j] = sum_t span_t * #(S_j below-or-equal u) / span over which u has any descendant
        (itself included) among {the reference nodes ('refs') | the samples ('samples')}."""
        out = np.zeros((self.N, len(ref_sets)))
        refall = set(u for S in ref_sets for u in S)
        for u in range(self.N):
            length = 0.0
            for t in self.trees:
                span = t.right - t.left
                bn = t.below_nodes[u]
                if denom == "refs":
                    anc = any(v in refall for v in bn)
                else:
                    anc = any(v in self.sidx for v in bn)
                if anc:
                    length += span
                for k, S in enumerate(ref_sets):
                    out[u, k] += span * sum(1 for v in S if v in bn)
            if length > 0:
                out[u] /= length
            else:
                # numerator is necessarily zero for 'refs'; for 'samples' it may not be
                if np.any(out[u] != 0):
                    out[u] = float("nan")
        return out

    # ------------------------------------------------------------------ pair coalescence counts
    def pair_coalescence_counts(self, sample_sets, indexes, windows, count_ancestral=True):
        """raw[w, i, node] = sum over trees in the window of span x number of pairs (a, b), a in
        S_j, b in S_k (unordered distinct pairs when j == k), whose most recent common ancestor is
        the node; edge_span[w] = span of the window covered by trees with at least one edge."""
        windows = self.parse_windows(windows)
        nw = len(windows) - 1
        raw = np.zeros((nw, len(indexes), self.N))
        edge_span = np.zeros(nw)
        for t in self.trees:
            cnt = np.zeros((len(indexes), self.N))
            for i, (j, k) in enumerate(indexes):
                if j == k:
                    pairs = itertools.combinations(sample_sets[j], 2)
                else:
                    pairs = itertools.product(sample_sets[j], sample_sets[k])
                for a, b in pairs:
                    if a == b:
                        continue
                    mr = t.fr.mrca(a, b)
                    if mr != NULL and (count_ancestral or (mr != a and mr != b)):
                        cnt[i, mr] += 1
            for w in range(nw):
                lo, hi = max(t.left, windows[w]), min(t.right, windows[w + 1])
                if hi > lo:
                    raw[w] += cnt * (hi - lo)
                    if t.has_edges:
                        edge_span[w] += hi - lo
        return raw, edge_span

    # ------------------------------------------------------------------ LD
    def biallelic_r2(self, j, k, sample_idx=None):
        """r^2 between the derived (non-ancestral) alleles of two sites with exactly two alleles."""
        sj, sk = self.sites[j], self.sites[k]
        idx = range(self.n) if sample_idx is None else sample_idx
        n = len(idx)
        a = [1 if sj["geno"][i] != 0 else 0 for i in idx]
        b = [1 if sk["geno"][i] != 0 else 0 for i in idx]
        pa, pb = sum(a) / n, sum(b) / n
        pab = sum(x * y for x, y in zip(a, b)) / n
        D = pab - pa * pb
        den = pa * (1 - pa) * pb * (1 - pb)
        return D, den


# ---------------------------------------------------------------------- documented summary functions
# (docs/stats.md "Summary functions"); n = sample set sizes, x = counts below the node / carrying
# the allele.  Each returns a function x -> vector with one entry per index tuple.


def sf_diversity(n, idx):
    return lambda x: [x[i] * (n[i] - x[i]) / (n[i] * (n[i] - 1)) for (i,) in idx]


def sf_segregating_sites(n, idx):
    return lambda x: [(x[i] > 0) * (1 - x[i] / n[i]) for (i,) in idx]


def sf_Y1(n, idx):
    return lambda x: [x[i] * (n[i] - x[i]) * (n[i] - x[i] - 1) / (n[i] * (n[i] - 1) * (n[i] - 2))
                      for (i,) in idx]


def sf_divergence(n, idx):
    def f(x):
        out = []
        for i, j in idx:
            if i == j:  # "unless the two indices are the same, when the diversity function is used"
                out.append(x[i] * (n[i] - x[i]) / (n[i] * (n[i] - 1)))
            else:
                out.append(x[i] * (n[j] - x[j]) / (n[i] * n[j]))
        return out
    return f


def sf_Y2(n, idx):
    return lambda x: [x[i] * (n[j] - x[j]) * (n[j] - x[j] - 1) / (n[i] * n[j] * (n[j] - 1)) for i, j in idx]


def sf_f2(n, idx):
    def f(x):
        out = []
        for i, j in idx:
            den = n[i] * (n[i] - 1) * n[j] * (n[j] - 1)
            out.append(x[i] * (x[i] - 1) * (n[j] - x[j]) * (n[j] - x[j] - 1) / den
                       - x[i] * (n[i] - x[i]) * (n[j] - x[j]) * x[j] / den)
        return out
    return f


def sf_Y3(n, idx):
    return lambda x: [x[i] * (n[j] - x[j]) * (n[k] - x[k]) / (n[i] * n[j] * n[k]) for i, j, k in idx]


def sf_f3(n, idx):
    def f(x):
        out = []
        for i, j, k in idx:
            den = n[i] * (n[i] - 1) * n[j] * n[k]
            out.append(x[i] * (x[i] - 1) * (n[j] - x[j]) * (n[k] - x[k]) / den
                       - x[i] * (n[i] - x[i]) * (n[j] - x[j]) * x[k] / den)
        return out
    return f


def sf_f4(n, idx):
    def f(x):
        out = []
        for i, j, k, l in idx:
            den = n[i] * n[j] * n[k] * n[l]
            out.append(x[i] * x[k] * (n[j] - x[j]) * (n[l] - x[l]) / den
                       - x[i] * x[l] * (n[j] - x[j]) * (n[k] - x[k]) / den)
        return out
    return f


def sf_relatedness(n, idx, centre):
    def f(x):
        p = [x[i] / n[i] for i in range(len(n))]
        m = sum(p) / len(n) if centre else 0.0  # "average derived allele frequency across sample sets"
        return [(p[i] - m) * (p[j] - m) for i, j in idx]
    return f


SUMMARY = {
    "diversity": (1, sf_diversity), "segregating_sites": (1, sf_segregating_sites), "Y1": (1, sf_Y1),
    "divergence": (2, sf_divergence), "Y2": (2, sf_Y2), "f2": (2, sf_f2),
    "Y3": (3, sf_Y3), "f3": (3, sf_f3), "f4": (4, sf_f4),
}


def tajd_constants(n):
    h = sum(1 / i for i in range(1, n))
    g = sum(1 / i ** 2 for i in range(1, n))
    with np.errstate(all="ignore"):
        n = np.float64(n)
        h_ = np.float64(h)
        g = np.float64(g)
        a = (n + 1) / (3 * (n - 1) * h_) - 1 / h_ ** 2
        b = 2 * (n ** 2 + n + 3) / (9 * n * (n - 1)) - (n + 2) / (h_ * n) + g / h_ ** 2
        c = h_ ** 2 + g
    return h_, a, b, c
