"""C03 — decoded genotypes follow nearest-mutation inheritance and the missing-data rules.

Oracle: `GenoRef` (below) evaluates, for every (site, node), the derived state of the nearest mutation on
the path towards the root (lib.model.allele_at) and the missing rule (lib.model.is_missing), from the
row model only.  Every public way of decoding genotypes is then compared with it:

  variants()            samples x isolated_as_missing (+ deprecated impute_missing_data) x alleles x copy x left/right
  Variant.decode()      one Variant object, sites decoded forward / reversed / random / repeated / far jumps /
                        with failing decodes in between, two Variants interleaved, frozen copy() snapshots
  genotype_matrix()     same option space; rows also compared with the variants() rows
  haplotypes()          samples x isolated_as_missing x missing_data_character x left/right
  alignments()/as_fasta reference-sequence options x missing_data_character x samples x left/right
  Variant.has_missing_data / num_missing / num_alleles / counts() / frequencies() / states()

EITHER zones (documentation leaves them open; both behaviours are accepted):
  E1  which exception class is raised for a documented error (any Exception subclass is accepted).
  E2  a user `alleles` tuple that lacks a state which exists at the site but is carried by none of the
      requested nodes: raising or decoding correctly are both accepted (the docs only define the encoding).
  E3  haplotypes/alignments: a multi-letter / non-ascii / clashing allele at a site *outside* [left, right):
      "tree sequences that include alleles which are not a single character ... will raise" vs. the interval.
  E4  alignments with an explicit reference_sequence and a proper sub-interval: the docs only say "correct
      length"; span-length and full-length strings may each be accepted or rejected, but if accepted the
      output must be the consistent one (span-length: offset from `left`; full-length: sliced).
  E5  degenerate-but-in-range intervals (left == right, left == L, right == 0): error or empty result.
  E6  state of a Variant after a decode() that raised: not inspected; the next successful decode must be right.
Allele order beyond index 0 is unspecified: genotypes are compared through allele strings.
"""
import collections
import logging
import math
import warnings

import numpy as np
import tskit

from lib import gen
from lib.harness import case_rng
from lib.model import NODE_IS_SAMPLE, NULL, allele_at, forest, is_missing, sort_edges_key
from lib.tsk import to_ts

ID = "C03"

logging.disable(logging.WARNING)  # Variant.frequencies logs a warning for every all-missing site

END = object()


def cases(tier, seed):
    n = 60000 if tier == "quick" else 6000000
    for k in range(n):
        yield {"gen": ("msprime" if k % 40 == 7 else "align" if k % 3 == 2 else "walk"), "k": k}


# ------------------------------------------------------------------------------------ reference


class GenoRef:
    """Per (site, node) allele and missing flag, straight from the row model."""

    def __init__(self, m):
        self.m = m
        n = m.num_nodes
        self.n = n
        self.samples = m.samples()
        self.sample_set = set(self.samples)
        self.sites = []
        for j, (pos, anc, _) in enumerate(m.sites):
            fr = forest(m, pos)
            ks = m.site_mutations(j)
            states = [anc] + [m.mutations[k][2] for k in ks]
            self.sites.append({
                "pos": pos,
                "anc": anc,
                "states": set(states),
                "allele": [allele_at(m, fr, j, u) for u in range(n)],
                "missing": [is_missing(m, fr, j, u) for u in range(n)],
            })
        bps = m.breakpoints()
        self.isolated_any = False
        for a, b in zip(bps, bps[1:]):
            fr = forest(m, (a + b) / 2)
            if any(fr.is_isolated(u) for u in self.samples):
                self.isolated_any = True
                break
        coords = [m.L] + [s[0] for s in m.sites]
        for e in m.edges:
            coords += [e[0], e[1]]
        for g in m.migrations:
            coords += [g[0], g[1]]
        self.discrete = all(float(c).is_integer() for c in coords)

    def sites_in(self, lo, hi):
        return [j for j, s in enumerate(self.sites) if lo <= s["pos"] < hi]

    def expected(self, j, S, iam):
        s = self.sites[j]
        al = [s["allele"][u] for u in S]
        mi = [bool(iam and s["missing"][u]) for u in S]
        return al, mi


def model_features(m, R):
    tags = set()
    for j, s in enumerate(R.sites):
        fr = forest(m, s["pos"])
        if not fr.parent:
            tags.add("site-in-gap")
        ks = m.site_mutations(j)
        if not ks:
            tags.add("site-without-mutation")
        seen = collections.Counter()
        for k in ks:
            _, u, d, p, _, _ = m.mutations[k]
            seen[d] += 1
            if fr.par(u) == NULL:
                tags.add("mutation-above-root")
            if m.is_sample(u) and fr.is_isolated(u):
                tags.add("mutation-on-isolated-sample")
            prev = m.mutations[p][2] if p != NULL else s["anc"]
            if prev == d:
                tags.add("silent-mutation")
            elif d == s["anc"]:
                tags.add("back-mutation")
            if p != NULL and m.mutations[p][1] == u:
                tags.add("several-mutations-one-branch")
        if any(c > 1 for c in seen.values()):
            tags.add("recurrent-mutation")
        if any(len(a) > 1 for a in s["states"]):
            tags.add("multi-char-allele")
        if "" in s["states"]:
            tags.add("empty-allele")
        if any(s["missing"][u] for u in R.samples):
            tags.add("site-with-missing-data")
    return tags


# ------------------------------------------------------------------------------------ generators


def repair_isolated(rng, m):
    """Give every isolated sample a parent (or demote it) so alignments() is defined."""
    bps = m.breakpoints()
    nodes = list(m.nodes)
    new = []
    for a, b in zip(bps, bps[1:]):
        fr = forest(m, (a + b) / 2)
        for u in range(m.num_nodes):
            if not (nodes[u][0] & NODE_IS_SAMPLE) or not fr.is_isolated(u):
                continue
            older = [v for v in range(m.num_nodes) if m.time(v) > m.time(u)]
            if older:
                new.append((a, b, rng.choice(older), u, b""))
            else:
                nodes[u] = (nodes[u][0] & ~NODE_IS_SAMPLE,) + nodes[u][1:]
    m.nodes = nodes
    m.edges = sorted(list(m.edges) + new, key=sort_edges_key(m))
    return m


REF_ALPHABET = "acgtnxyz"
MANY_ALLELES = list("ACGTRYKMSWBDHVXZ")


def build_msprime(rng):
    """Coalescent with recombination + finite-sites mutations (recurrent/back mutations, correct parents)."""
    import msprime

    from lib.tsk import from_tables

    L = rng.choice([10, 20, 50])
    ts = msprime.sim_ancestry(samples=rng.randint(2, 6), ploidy=rng.choice([1, 2]), sequence_length=L,
                              recombination_rate=rng.choice([0.0, 0.05, 0.2]), random_seed=rng.randint(1, 2 ** 31))
    model = rng.choice([msprime.JC69(), msprime.BinaryMutationModel(), msprime.HKY(kappa=2.0)])
    ts = msprime.sim_mutations(ts, rate=rng.choice([0.01, 0.05, 0.2]), model=model,
                               random_seed=rng.randint(1, 2 ** 31))
    m = from_tables(ts.dump_tables())
    m.provenances = []
    m.schemas = {}
    m.metadata_schema = ""
    m.tags.add("mutation-times")
    return m


def build(case):
    rng = case_rng(case)
    if case["gen"] == "msprime":
        return rng, build_msprime(rng)
    if case["gen"] == "align":
        L = rng.choice([2.0, 4.0, 8.0, 10.0, 16.0])
        m = gen.gen_topology(rng, n=rng.randint(2, 9), max_bp=4, L=L, discrete=True, gaps=False,
                             sample_mode=rng.choice(["young", "young", "all", "any", "few"]))
        if rng.random() < 0.88:
            repair_isolated(rng, m)
        if rng.random() < 0.3:
            gen.decorate_pops_inds(rng, m)
        r = rng.random()
        alleles = gen.SIMPLE_ALLELES if r < 0.6 else (["A", "C", "G", "T", "N", "-", "a"] if r < 0.8 else None)
        gen.decorate_sites(rng, m, max_sites=rng.choice([3, 6, int(L)]), alleles=alleles, discrete=True)
        r = rng.random()
        n = int(L)
        if r < 0.35:
            m.refseq = None
        elif r < 0.75:
            m.refseq = {"data": "".join(rng.choice(REF_ALPHABET) for _ in range(n))}
        elif r < 0.83:
            m.refseq = {"data": "".join(rng.choice(REF_ALPHABET) for _ in range(rng.randint(0, n - 1)))}
        elif r < 0.92:
            m.refseq = {"data": "".join(rng.choice(REF_ALPHABET) for _ in range(n + rng.randint(1, 3)))}
        else:
            m.refseq = {"data": None, "url": "http://example.com/ref"}
    else:
        big = rng.random() < 0.2
        huge = big and case.get("tier") == "thorough" and rng.random() < 0.3
        discrete = rng.random() < 0.4
        m = gen.gen_topology(rng, max_nodes=40 if huge else 20 if big else 9,
                             max_bp=24 if huge else 10 if big else 5, discrete=discrete)
        if rng.random() < 0.4:
            gen.decorate_pops_inds(rng, m)
        r = rng.random()
        if r < 0.5:
            pool = gen.SIMPLE_ALLELES
        elif r < 0.62:
            pool = ["0", "1"]
        elif r < 0.8:
            pool = gen.ALLELES
        elif r < 0.9:
            pool = MANY_ALLELES  # > 4 and > 8 distinct states at one site: the allele table has to grow
        else:
            pool = ["A", "C", "G", "T", "AC", ""]
        many = pool is MANY_ALLELES or rng.random() < 0.1
        gen.decorate_sites(rng, m, max_sites=30 if huge else 12 if big else 6, alleles=pool, discrete=discrete,
                           max_muts=12 if many else 4)
    return rng, m


# ------------------------------------------------------------------------------------ helpers


def attempt(fn):
    try:
        with warnings.catch_warnings():
            warnings.simplefilter("ignore")
            return True, fn()
    except Exception as e:  # noqa: BLE001 - deciding explicitly below
        return False, e


def exc_name(e):
    return type(e).__name__


class Mon:
    """Bundles ctx + model for violation records."""

    def __init__(self, ctx, m, R):
        self.ctx = ctx
        self.m = m
        self.R = R
        self._detail = None

    def bad(self, key, msg):
        if self._detail is None:
            self._detail = {"model": self.m.to_json()}
        self.ctx.violation(key, msg, self._detail)

    def decide(self, api, ok, val, must, may, call):
        """Common error protocol.  Returns True when `val` is a normal result to be compared."""
        if must:
            self.ctx.count(f"{api}:error-predicted")
            if ok:
                self.bad(f"{api}/error-not-raised/{sorted(must)[0]}",
                         f"{call} returned normally but the documentation predicts an error ({sorted(must)})")
            return False
        if not ok:
            if may:
                self.ctx.count(f"{api}:either-zone-error")
                return False
            self.bad(f"{api}/unexpected-error/{exc_name(val)}", f"{call} raised {exc_name(val)}: {val}")
            return False
        if may:
            self.ctx.count(f"{api}:either-zone-result")
        return True


def pick_samples(rng, m, prefer_samples=False):
    """(kind, S) — S is the node list to pass (None = default)."""
    n = m.num_nodes
    samples = m.samples()
    r = rng.random()
    if prefer_samples and samples and r >= 0.22 and r < 0.72 and rng.random() < 0.7:
        r = 0.3 if rng.random() < 0.7 else 0.8
    if r < 0.22:
        return "default", None
    if r < 0.42 and samples:
        return "sample-subset-permuted", rng.sample(samples, rng.randint(1, len(samples)))
    if r < 0.52:
        return "single-node", [rng.randrange(n)]
    if r < 0.72:
        return "any-nodes", rng.sample(range(n), rng.randint(1, n))
    if r < 0.78:
        return "empty", []
    if r < 0.90 and samples:
        return "all-samples-explicit", list(samples)
    if r < 0.95:
        S = rng.sample(range(n), min(n, rng.randint(1, 3)))
        S.insert(rng.randint(0, len(S)), rng.choice(S))
        return "duplicate", S
    S = rng.sample(range(n), rng.randint(0, min(n, 2)))
    S.insert(rng.randint(0, len(S)), rng.choice([-1, -2, n, n + 3]))
    return "out-of-bounds", S


def samples_form(rng, S):
    if S is None:
        return None
    r = rng.random()
    if r < 0.4:
        return list(S)
    if r < 0.55:
        return tuple(S)
    if r < 0.8:
        return np.array(S, dtype=np.int32)
    return np.array(S, dtype=np.int64)


def pick_iam(rng):
    """(kwargs, effective isolated_as_missing)"""
    r = rng.random()
    if r < 0.3:
        return {}, True
    if r < 0.55:
        return {"isolated_as_missing": True}, True
    if r < 0.85:
        return {"isolated_as_missing": False}, False
    if r < 0.9:
        return {"impute_missing_data": True}, False
    if r < 0.94:
        return {"impute_missing_data": False}, True
    v = rng.random() < 0.5
    return {"isolated_as_missing": v, "impute_missing_data": rng.random() < 0.5}, v


def pick_user_alleles(rng, R, p_none=0.5):
    """(kind, tuple or None)"""
    if rng.random() < p_none:
        return "none", None
    states = sorted(set().union(*[s["states"] for s in R.sites])) if R.sites else []
    extra = [x for x in ["A", "C", "G", "T", "zz", "", "Q"] if x not in states]
    r = rng.random()
    if r < 0.3 or not states:
        ua = states + rng.sample(extra, rng.randint(0 if states else 1, min(3, len(extra))))
        rng.shuffle(ua)
        return "superset-permuted", tuple(ua)
    if r < 0.5:
        ua = states + rng.sample(extra, rng.randint(0, 2))
        rng.shuffle(ua)
        for _ in range(rng.randint(1, 3)):
            ua.insert(rng.randint(0, len(ua)), rng.choice(ua))
        return "with-duplicates", tuple(ua)
    if r < 0.8:
        ua = list(states)
        ua.remove(rng.choice(ua))
        ua += rng.sample(extra, rng.randint(0 if ua else 1, 2))
        rng.shuffle(ua)
        return "missing-one", tuple(ua)
    if r < 0.9:
        return "ACGT-constant", tskit.ALLELES_ACGT
    return "empty-tuple", ()


def ctor_errors(R, S, iam):
    must = set()
    if S is None:
        return must
    if len(set(S)) != len(S):
        must.add("duplicate-samples")
    if any(u < 0 or u >= R.n for u in S):
        must.add("node-out-of-bounds")
    elif iam and any(u not in R.sample_set for u in S):
        must.add("non-sample-with-isolated_as_missing")
    return must


def site_allele_status(R, j, S, iam, UA):
    """'ok' | 'must' | 'may' for decoding site j with user alleles UA (E2)."""
    if UA is None:
        return "ok"
    al, mi = R.expected(j, S, iam)
    carried = {a for a, x in zip(al, mi) if not x}
    if any(a not in UA for a in carried):
        return "must"
    if any(a not in UA for a in R.sites[j]["states"]):
        return "may"
    return "ok"


def pick_interval(rng, R, integer=False):
    """(kwargs, lo, hi, status) status in ok|must|may."""
    L = R.m.L
    r = rng.random()
    if r < 0.32:
        return {}, 0.0, L, "ok"
    if r < 0.37:
        # the whole sequence given explicitly (variants() has a fast path for it)
        f = rng.choice([float, int]) if float(L).is_integer() else float
        return {"left": f(0), "right": f(L)}, 0.0, L, "ok"
    cand = [0.0, L]
    pos = [s["pos"] for s in R.sites]
    cand += pos
    cand += [(a + b) / 2 for a, b in zip(pos, pos[1:])]
    cand += [math.nextafter(p, L) for p in pos] + [math.nextafter(p, 0) for p in pos if p > 0]
    cand += [rng.randint(0, 64) * L / 64 for _ in range(2)]
    cand += [float(rng.randint(0, int(L)))]
    if integer and rng.random() < 0.85:
        cand = sorted({float(math.floor(c)) for c in cand} | {L})
    kw = {}
    mode = rng.random()
    if mode < 0.08:
        bad = rng.choice([("left", -1.0), ("left", L), ("left", L + 1), ("right", L + 1), ("right", 0.0),
                          ("right", -1.0), ("left", float("nan")), ("right", float("nan")), ("swap", None),
                          ("eq", None)])
        if bad[0] == "swap":
            a, b = rng.choice(cand), rng.choice(cand)
            if a == b:
                return {}, 0.0, L, "ok"
            kw = {"left": max(a, b), "right": min(a, b)}
        elif bad[0] == "eq":
            a = rng.choice(cand)
            kw = {"left": a, "right": a}
        else:
            kw = {bad[0]: bad[1]}
        lo = kw.get("left", 0.0)
        hi = kw.get("right", L)
        clearly = (lo != lo or hi != hi or lo < 0 or hi > L or lo > hi)
        # E5: left == right, left == L, right == 0 are degenerate but inside [0, L]
        return kw, lo, hi, ("must" if clearly else "may")
    if mode < 0.4:
        kw["left"] = rng.choice(cand)
    elif mode < 0.65:
        kw["right"] = rng.choice(cand)
    else:
        a, b = rng.choice(cand), rng.choice(cand)
        kw["left"], kw["right"] = min(a, b), max(a, b)
    lo = kw.get("left", 0.0)
    hi = kw.get("right", L)
    if lo >= hi or lo >= L or hi <= 0:
        return kw, lo, hi, "may"
    if rng.random() < 0.3:
        # integers given as Python ints when integral
        kw = {k: (int(v) if float(v).is_integer() else v) for k, v in kw.items()}
    return kw, lo, hi, "ok"


# ------------------------------------------------------------------------------------ Variant oracle


def read_variant(v):
    g = v.genotypes
    return {
        "site": v.site.id,
        "alleles": tuple(v.alleles),
        "g": np.array(g),
        "dtype": str(g.dtype),
        "samples": [int(x) for x in v.samples],
        "has_missing": v.has_missing_data,
        "num_missing": int(v.num_missing),
        "num_alleles": int(v.num_alleles),
        "iam": bool(v.isolated_as_missing),
        "index": v.index,
        "position": v.position,
    }


def check_variant(mon, v, j, S, iam, UA, api, how, deep_rng=None):
    """Compare one decoded Variant with the reference.  Returns the snapshot (or None)."""
    R = mon.R
    ctx = mon.ctx
    ok, d = attempt(lambda: read_variant(v))
    ctx.count(f"{api}:variant-checked")
    if not ok:
        mon.bad(f"{api}/accessor-raised/{exc_name(d)}", f"{how}: reading the decoded variant at site {j} raised {d!r}")
        return None
    s = R.sites[j]
    al, mi = R.expected(j, S, iam)
    w = f"{how} site={j} nodes={S} isolated_as_missing={iam} alleles={UA}"
    if d["site"] != j or d["index"] != j or d["position"] != s["pos"]:
        mon.bad(f"{api}/site-id", f"{w}: variant.site.id={d['site']} index={d['index']} position={d['position']}")
        return d
    if d["samples"] != list(S):
        mon.bad(f"{api}/samples", f"{w}: variant.samples={d['samples']}")
        return d
    g = d["g"]
    alleles = d["alleles"]
    if g.shape != (len(S),) or d["dtype"] != "int32":
        mon.bad(f"{api}/genotypes-shape", f"{w}: genotypes shape {g.shape} dtype {d['dtype']}")
        return d
    any_missing = any(mi)
    real = alleles[:-1] if (alleles and alleles[-1] is None) else alleles
    # None is the last element iff missing data is present
    if (len(alleles) > 0 and alleles[-1] is None) != any_missing or any(a is None for a in real):
        mon.bad(f"{api}/none-last-iff-missing", f"{w}: alleles={alleles} but reference missing flags={mi}")
    if UA is None:
        if len(real) == 0 or real[0] != s["anc"]:
            mon.bad(f"{api}/alleles0-not-ancestral", f"{w}: alleles={alleles} ancestral_state={s['anc']!r}")
        if len(set(real)) != len(real):
            mon.bad(f"{api}/alleles-duplicate", f"{w}: alleles={alleles}")
        # Variant.num_alleles docstring: states of mutations not inherited by any sample are counted too
        if set(real) != s["states"]:
            mon.bad(f"{api}/alleles-set", f"{w}: alleles={alleles} states at the site={sorted(s['states'])}")
    else:
        if tuple(real) != tuple(UA):
            mon.bad(f"{api}/user-alleles-changed", f"{w}: alleles={alleles}")
    for k, u in enumerate(S):
        gk = int(g[k])
        if mi[k]:
            if gk != -1:
                mon.bad(f"{api}/missing-not-marked", f"{w}: node {u} is an isolated sample without a mutation "
                        f"above it but genotype={gk} alleles={alleles}")
                break
            continue
        if gk == -1:
            mon.bad(f"{api}/spurious-missing", f"{w}: node {u} genotype=-1, reference allele {al[k]!r}")
            break
        if gk < 0 or gk >= len(real):
            mon.bad(f"{api}/genotype-out-of-range", f"{w}: node {u} genotype={gk} alleles={alleles}")
            break
        if real[gk] != al[k]:
            mon.bad(f"{api}/genotype", f"{w}: node {u} decoded {real[gk]!r} (genotype {gk}, alleles {alleles}), "
                    f"nearest-mutation rule gives {al[k]!r}; all genotypes={g.tolist()} expected alleles={al} "
                    f"missing={mi}")
            break
        if UA is not None and gk != UA.index(al[k]):
            mon.bad(f"{api}/user-alleles-index", f"{w}: node {u} genotype={gk}, first occurrence of {al[k]!r} in "
                    f"{UA} is {UA.index(al[k])}")
            break
    if d["has_missing"] != any_missing:
        mon.bad(f"{api}/has_missing_data", f"{w}: has_missing_data={d['has_missing']} expected {any_missing}")
    if d["num_missing"] != sum(mi):
        mon.bad(f"{api}/num_missing", f"{w}: num_missing={d['num_missing']} expected {sum(mi)}")
    if d["num_alleles"] != len(real):
        mon.bad(f"{api}/num_alleles", f"{w}: num_alleles={d['num_alleles']} alleles={alleles}")
    if d["iam"] != bool(iam):
        mon.bad(f"{api}/isolated_as_missing-attr", f"{w}: variant.isolated_as_missing={d['iam']}")
    if deep_rng is not None:
        check_variant_stats(mon, v, d, al, mi, UA, api, w, deep_rng)
    return d


def check_variant_stats(mon, v, d, al, mi, UA, api, w, rng):
    """counts(), frequencies(), states() against the reference alleles."""
    ctx = mon.ctx
    alleles = d["alleles"]
    real = alleles[:-1] if (alleles and alleles[-1] is None) else alleles
    n = len(al)
    exp = collections.Counter()
    for a in real:
        exp[a] += 0
    for a, x in zip(al, mi):
        exp[None if x else a] += 1
    dup = UA is not None and len(set(UA)) != len(UA)
    # ---- counts
    ok, c = attempt(lambda: v.counts())
    ctx.count(f"{api}:counts")
    if not ok:
        mon.bad(f"{api}/counts-raised/{exc_name(c)}", f"{w}: counts() raised {c!r}")
    else:
        got = {k: int(x) for k, x in c.items()}
        if got != dict(exp):
            if dup:
                # EITHER: with a user allele tuple containing duplicates the dict returned by counts() keeps only the last
                # duplicate's count. The property statement does not speak about counts(), so this is recorded, not gated.
                ctx.count("either:counts-with-duplicate-user-alleles")
            else:
                mon.bad(f"{api}/counts", f"{w}: counts()={got} expected {dict(exp)} (genotypes {d['g'].tolist()}, alleles {alleles})")
    # ---- frequencies
    rm = rng.choice([None, False, True])
    ok, f = attempt(lambda: v.frequencies() if rm is None else v.frequencies(remove_missing=rm))
    ctx.count(f"{api}:frequencies")
    if not ok:
        mon.bad(f"{api}/frequencies-raised/{exc_name(f)}", f"{w}: frequencies({rm}) raised {f!r}")
    else:
        total = n - (sum(mi) if rm else 0)
        expf = {}
        for a, cnt in exp.items():
            if a is None and rm:
                continue
            expf[a] = (cnt / total) if total > 0 else float("nan")
        same = set(f) == set(expf) and all(
            (math.isnan(expf[a]) and math.isnan(float(f[a]))) or abs(float(f[a]) - expf[a]) <= 1e-12 for a in expf)
        if not same:
            if dup:
                ctx.count("either:counts-with-duplicate-user-alleles")
            else:
                mon.bad(f"{api}/frequencies", f"{w}: frequencies(remove_missing={rm})={dict(f)} expected {expf}")
    # ---- states
    mds = rng.choice([None, None, "N", "?", "missing", "", "A", "T", 5])
    ok, st = attempt(lambda: v.states() if mds is None else v.states(missing_data_string=mds))
    ctx.count(f"{api}:states")
    eff = "N" if mds is None else mds
    if not isinstance(eff, str):
        if ok:
            mon.bad(f"{api}/states-error-not-raised/non-string", f"{w}: states({mds!r}) returned {st!r}")
        return
    if any(mi) and eff in real:
        if ok:
            mon.bad(f"{api}/states-error-not-raised/clash", f"{w}: states({mds!r}) returned {st!r} although "
                    f"{eff!r} is an allele {alleles}")
        return
    if not ok:
        mon.bad(f"{api}/states-raised/{exc_name(st)}", f"{w}: states({mds!r}) raised {st!r}")
        return
    exps = [eff if x else a for a, x in zip(al, mi)]
    if [str(x) for x in st] != exps:
        mon.bad(f"{api}/states", f"{w}: states({mds!r})={[str(x) for x in st]} expected {exps}")


def same_snapshot(a, b):
    return (a["site"] == b["site"] and a["alleles"] == b["alleles"] and a["samples"] == b["samples"]
            and np.array_equal(a["g"], b["g"]) and a["has_missing"] == b["has_missing"])


# ------------------------------------------------------------------------------------ monitors


def new_request(rng, mon, p_ua=0.5):
    R = mon.R
    kind, S = pick_samples(rng, R.m)
    iam_kw, iam = pick_iam(rng)
    if S is not None and iam and any(u not in R.sample_set for u in S) and rng.random() < 0.75:
        iam_kw, iam = rng.choice([({"isolated_as_missing": False}, False), ({"impute_missing_data": True}, False)])
    ua_kind, UA = pick_user_alleles(rng, R, p_none=1 - p_ua)
    mon.ctx.feature(f"samples:{kind}")
    mon.ctx.feature(f"alleles:{ua_kind}")
    mon.ctx.feature("iam:" + ",".join(f"{k}={v}" for k, v in sorted(iam_kw.items())) if iam_kw else "iam:default")
    nodes = list(R.samples) if S is None else list(S)
    must = ctor_errors(R, S, iam)
    if UA is not None and len(UA) == 0:
        must.add("empty-allele-tuple")
    kw = dict(iam_kw)
    if S is not None:
        kw["samples"] = samples_form(rng, S)
    if UA is not None:
        kw["alleles"] = UA
    return {"kw": kw, "S": S, "nodes": nodes, "iam": iam, "UA": UA, "must": must}


def mon_variants(rng, mon, ts):
    R, ctx = mon.R, mon.ctx
    rq = new_request(rng, mon)
    ikw, lo, hi, istat = pick_interval(rng, R)
    kw = dict(rq["kw"], **ikw)
    cp = rng.choice([None, None, True, False])
    if cp is not None:
        kw["copy"] = cp
    call = f"variants({kw})"
    must = set(rq["must"])
    may = set()
    if istat == "must":
        must.add("invalid-interval")
    elif istat == "may":
        may.add("degenerate-interval")
    ctx.count("variants:calls")
    ok, it = attempt(lambda: ts.variants(**kw))
    if not ok:
        mon.decide("variants", ok, it, must, may, call)
        return
    expected_sites = R.sites_in(lo, hi) if lo < hi else []
    kept = []
    first_obj = None
    n_yield = 0
    for j in expected_sites + [None]:
        ok, v = attempt(lambda: next(it, END))
        if must:
            mon.decide("variants", ok, v, must, may, call)
            return
        if not ok and may and n_yield == 0:
            mon.decide("variants", ok, v, must, may, call)
            return
        if j is None:
            if not ok:
                mon.bad(f"variants/unexpected-error/{exc_name(v)}", f"{call}: raised {v!r} after the last site")
            elif v is not END:
                mon.bad("variants/site-range", f"{call}: yielded an extra variant (site {getattr(v, 'index', '?')}) "
                        f"after sites {expected_sites} in [{lo},{hi})")
            break
        st = site_allele_status(R, j, rq["nodes"], rq["iam"], rq["UA"])
        if st == "must":
            ctx.count("variants:error-predicted")
            if ok:
                mon.bad("variants/error-not-raised/allele-not-in-user-list", f"{call}: site {j} decoded although a "
                        f"carried allele is not in {rq['UA']}; got {getattr(v, 'alleles', None)}")
            return
        if not ok:
            if st == "may":
                ctx.count("variants:either-zone-error")
                return
            mon.bad(f"variants/unexpected-error/{exc_name(v)}", f"{call}: raised {v!r} at site {j}")
            return
        if v is END:
            mon.bad("variants/site-range", f"{call}: stopped before site {j}; expected sites {expected_sites} "
                    f"for [{lo},{hi}) positions {[s['pos'] for s in R.sites]}")
            return
        n_yield += 1
        if cp is False:
            if first_obj is None:
                first_obj = v
            elif v is not first_obj:
                mon.bad("variants/copy-false-identity", f"{call}: copy=False yielded a different object at site {j}")
        d = check_variant(mon, v, j, rq["nodes"], rq["iam"], rq["UA"], "variants", call,
                          deep_rng=rng if rng.random() < 0.35 else None)
        if d is not None and d["site"] != j:
            return
        if cp is not False and d is not None:
            kept.append((v, d, j))
    ctx.count("variants:iterations-completed")
    # copies handed out earlier must not have changed while later sites were decoded
    for v, d, j in kept:
        ok, d2 = attempt(lambda: read_variant(v))
        ctx.count("variants:frozen-copy")
        if not ok or not same_snapshot(d, d2):
            mon.bad("variants/copy-not-frozen", f"{call}: variant yielded for site {j} changed afterwards: "
                    f"{d if ok else None} -> {d2!r}")
            break
    return


def decode_order(rng, num_sites):
    if num_sites == 0:
        return []
    mode = rng.choice(["forward", "reversed", "random", "repeated", "far-jumps", "zigzag"])
    ids = list(range(num_sites))
    if mode == "forward":
        order = ids
    elif mode == "reversed":
        order = ids[::-1]
    elif mode == "random":
        order = [rng.choice(ids) for _ in range(num_sites + 3)]
    elif mode == "repeated":
        order = []
        for j in rng.sample(ids, min(len(ids), 4)):
            order += [j] * rng.randint(2, 3)
    elif mode == "far-jumps":
        order = []
        lo, hi = 0, num_sites - 1
        while lo <= hi:
            order += [lo, hi]
            lo += 1
            hi -= 1
    else:
        order = []
        for j in ids:
            order += [j, max(0, j - 1), j]
    return mode, order[: 2 * num_sites + 6]


def mon_decode(rng, mon, ts):
    """History checker: one or two Variant objects decoded in arbitrary site order."""
    R, ctx = mon.R, mon.ctx
    nv = 2 if rng.random() < 0.35 else 1
    vs = []
    for _ in range(nv):
        rq = new_request(rng, mon)
        pkw = {k: v for k, v in rq["kw"].items() if k != "impute_missing_data"}
        if "impute_missing_data" in rq["kw"] and "isolated_as_missing" not in rq["kw"]:
            pkw["isolated_as_missing"] = rq["iam"]
        call = f"Variant({pkw})"
        ctx.count("decode:constructed")
        ok, v = attempt(lambda: tskit.Variant(ts, **pkw))
        if not mon.decide("decode", ok, v, rq["must"], set(), call):
            continue
        # before the first decode the variant has no site and no genotypes
        ok1, r1 = attempt(lambda: v.genotypes)
        ok2, r2 = attempt(lambda: v.site)
        ctx.count("decode:undecoded-state")
        if ok1 or ok2:
            mon.bad("decode/undecoded-variant-readable", f"{call}: genotypes/site readable before decode(): "
                    f"{r1!r} {r2!r}")
        od = decode_order(rng, len(R.sites))
        if not od:
            continue
        mode, order = od
        ctx.feature(f"decode-order:{mode}")
        vs.append({"v": v, "rq": rq, "call": call, "order": list(order), "copies": [], "hist": []})
    live = [x for x in vs if x["order"]]
    while live:
        x = rng.choice(live)
        v, rq, call = x["v"], x["rq"], x["call"]
        if rng.random() < 0.08:
            # an invalid site id must raise and must not disturb later decodes (E6)
            jbad = rng.choice([-1, len(R.sites), len(R.sites) + 7, -5])
            ok, r = attempt(lambda: v.decode(jbad))
            ctx.count("decode:error-predicted")
            x["hist"].append(("bad", jbad))
            if ok:
                mon.bad("decode/error-not-raised/site-out-of-bounds", f"{call}.decode({jbad}) returned normally; "
                        f"num_sites={len(R.sites)}")
            continue
        j = x["order"].pop(0)
        if not x["order"]:
            live = [y for y in live if y is not x]
        x["hist"].append(j)
        how = f"{call} decode history {x['hist'][-8:]}"
        st = site_allele_status(R, j, rq["nodes"], rq["iam"], rq["UA"])
        ok, r = attempt(lambda: v.decode(j))
        ctx.count("decode:calls")
        if st == "must":
            ctx.count("decode:error-predicted")
            if ok:
                mon.bad("decode/error-not-raised/allele-not-in-user-list", f"{how}: decoded although a carried "
                        f"allele is not in {rq['UA']}: alleles={v.alleles}")
            continue
        if not ok:
            if st == "may":
                ctx.count("decode:either-zone-error")
                continue
            mon.bad(f"decode/unexpected-error/{exc_name(r)}", f"{how}: raised {r!r}")
            continue
        if r is not None:
            mon.bad("decode/return-value", f"{how}: decode returned {r!r}")
        d = check_variant(mon, v, j, rq["nodes"], rq["iam"], rq["UA"], "decode", how,
                          deep_rng=rng if rng.random() < 0.25 else None)
        if d is not None and rng.random() < 0.35:
            ok, c = attempt(lambda: v.copy())
            ctx.count("decode:copy")
            if not ok:
                mon.bad(f"decode/copy-raised/{exc_name(c)}", f"{how}: copy() raised {c!r}")
            else:
                dc = check_variant(mon, c, j, rq["nodes"], rq["iam"], rq["UA"], "copy", how + " copy()")
                if dc is not None:
                    x["copies"].append((c, dc, j))
    for x in vs:
        for c, dc, j in x["copies"]:
            ok, d2 = attempt(lambda: read_variant(c))
            ctx.count("decode:frozen-copy")
            if not ok or not same_snapshot(dc, d2):
                mon.bad("copy/not-frozen", f"{x['call']} history {x['hist']}: copy() taken at site {j} changed: "
                        f"{dc} -> {d2!r}")
                break
        if x["copies"] and len(R.sites):
            c = x["copies"][0][0]
            ok, r = attempt(lambda: c.decode(0))
            ctx.count("decode:copy-decode-refused")
            if ok:
                mon.bad("copy/decode-not-refused", f"{x['call']}: decode() on a copy() returned normally")


def mon_genotype_matrix(rng, mon, ts, variants_rows):
    R, ctx = mon.R, mon.ctx
    rq = new_request(rng, mon, p_ua=0.4)
    call = f"genotype_matrix({rq['kw']})"
    must = set(rq["must"])
    may = set()
    for j in range(len(R.sites) if not must else 0):
        st = site_allele_status(R, j, rq["nodes"], rq["iam"], rq["UA"])
        if st == "must":
            must.add("allele-not-in-user-list")
        elif st == "may":
            may.add("unobserved-allele-not-in-user-list")
    ok, G = attempt(lambda: ts.genotype_matrix(**rq["kw"]))
    ctx.count("genotype_matrix:calls")
    if not mon.decide("genotype_matrix", ok, G, must, may, call):
        return
    S = rq["nodes"]
    if not isinstance(G, np.ndarray) or G.shape != (len(R.sites), len(S)) or G.dtype != np.int32:
        mon.bad("genotype_matrix/shape", f"{call}: shape {getattr(G, 'shape', None)} dtype {getattr(G, 'dtype', None)} "
                f"expected ({len(R.sites)}, {len(S)}) int32")
        return
    UA = rq["UA"]
    for j in range(len(R.sites)):
        al, mi = R.expected(j, S, rq["iam"])
        row = [int(x) for x in G[j]]
        ctx.count("genotype_matrix:rows")
        anc = R.sites[j]["anc"]
        okrow = True
        for k in range(len(S)):
            if mi[k] != (row[k] == -1):
                okrow = False
            elif not mi[k]:
                if UA is not None:
                    okrow = okrow and row[k] == UA.index(al[k])
                else:
                    # only index 0 (ancestral) and the equality pattern are fixed without the allele list
                    okrow = okrow and (row[k] == 0) == (al[k] == anc) and row[k] >= 0
                    for k2 in range(k):
                        if not mi[k2] and (row[k] == row[k2]) != (al[k] == al[k2]):
                            okrow = False
        if not okrow:
            mon.bad("genotype_matrix/row", f"{call}: row {j} = {row}, reference alleles {al} missing {mi} "
                    f"ancestral {anc!r}")
            return
    return


def mon_matrix_vs_variants(rng, mon, ts):
    """'agree with each other': genotype_matrix rows == variants() genotypes == fresh decode, same options."""
    R, ctx = mon.R, mon.ctx
    rq = new_request(rng, mon, p_ua=0.3)
    if rq["must"]:
        return
    if any(site_allele_status(R, j, rq["nodes"], rq["iam"], rq["UA"]) != "ok" for j in range(len(R.sites))):
        return
    ok, G = attempt(lambda: ts.genotype_matrix(**rq["kw"]))
    ok2, rows = attempt(lambda: [np.array(v.genotypes) for v in ts.variants(**rq["kw"])])
    ctx.count("cross:matrix-vs-variants")
    if not ok or not ok2:
        mon.bad("cross/unexpected-error", f"genotype_matrix/variants({rq['kw']}) raised {G if not ok else rows!r}")
        return
    if len(rows) != G.shape[0] or any(not np.array_equal(G[j], rows[j]) for j in range(len(rows))):
        mon.bad("cross/matrix-vs-variants", f"genotype_matrix({rq['kw']})={G.tolist()} but variants() rows "
                f"{[r.tolist() for r in rows]}")


MDC_CHOICES = [None] * 8 + ["N", "N", "-", "-", "?", "?", "*", "A", "T", "0", "a", "n", "NN", "", "é"]


def allele_problems(R, sites, mdc):
    """Tags of documented haplotype errors caused by the states present at `sites`."""
    out = set()
    for j in sites:
        for a in R.sites[j]["states"]:
            if len(a) != 1:
                out.add("multi-letter-allele")
            elif not a.isascii():
                out.add("non-ascii-allele")
            elif a == mdc:
                out.add("missing-character-clash")
    return out


def mon_haplotypes(rng, mon, ts):
    R, ctx = mon.R, mon.ctx
    rq = new_request(rng, mon, p_ua=0.0)
    ikw, lo, hi, istat = pick_interval(rng, R)
    mdc = rng.choice(MDC_CHOICES)
    kw = dict(rq["kw"], **ikw)
    if mdc is not None:
        kw["missing_data_character"] = mdc
    eff = "N" if mdc is None else mdc
    call = f"haplotypes({kw})"
    must = set(rq["must"])
    may = set()
    if istat == "must":
        must.add("invalid-interval")
    elif istat == "may":
        may.add("degenerate-interval")
    if len(eff) != 1 or not eff.isascii():
        must.add("bad-missing-data-character")
    inside = R.sites_in(lo, hi) if lo < hi else []
    outside = [j for j in range(len(R.sites)) if j not in inside]
    must |= allele_problems(R, inside, eff)
    may |= allele_problems(R, outside, eff)  # E3
    ok, H = attempt(lambda: list(ts.haplotypes(**kw)))
    ctx.count("haplotypes:calls")
    if not mon.decide("haplotypes", ok, H, must, may, call):
        return
    S = rq["nodes"]
    exp = []
    for u in S:
        row = []
        for j in inside:
            s = R.sites[j]
            row.append(eff if (rq["iam"] and s["missing"][u]) else s["allele"][u])
        exp.append("".join(row))
    ctx.count("haplotypes:compared")
    if H != exp:
        mon.bad("haplotypes/strings", f"{call}: got {H} expected {exp} (sites {inside} of positions "
                f"{[s['pos'] for s in R.sites]})")


def expect_alignment_ref(R, ref_kind, ref_arg, lo, hi, eff):
    """(must, may, {variant_name: base string}) for the requested span."""
    m = R.m
    L = int(m.L)
    lo, hi = int(lo), int(hi)
    span = hi - lo
    must, may = set(), set()
    bases = {}
    if ref_arg is not None:
        full = (lo == 0 and hi == L)
        if len(ref_arg) == span:
            bases["span"] = ref_arg
            if not full:
                may.add("explicit-reference-span-length")  # E4
        if len(ref_arg) == L and not full:
            bases["full"] = ref_arg[lo:hi]
            may.add("explicit-reference-full-length")  # E4
        if not bases:
            must.add("reference-length")
    elif m.refseq is not None and any(m.refseq.get(k) for k in ("data", "url", "metadata", "metadata_schema")):
        # "a tree sequence is currently regarded as having an embedded reference sequence even if it only
        # has some metadata defined. In this case the reference_sequence parameter will need to be
        # explicitly set" (alignments docstring)
        data = m.refseq.get("data") or ""
        piece = data[lo:hi]
        if len(piece) != span:
            must.add("embedded-reference-too-short")
        else:
            bases["embedded"] = piece
    else:
        bases["fill"] = eff * span
    return must, may, bases


def alignment_strings(R, S, inside, lo, base):
    out = []
    for u in S:
        a = list(base)
        for j in inside:
            s = R.sites[j]
            a[int(s["pos"]) - int(lo)] = s["allele"][u]
        out.append("".join(a))
    return out


def alignment_expectation(rng, mon, with_samples=True, with_interval=True):
    """Draw arguments for alignments()/as_fasta and predict the outcome."""
    R = mon.R
    m = R.m
    kw = {}
    must, may = set(), set()
    S = None
    if with_samples:
        kind, S = pick_samples(rng, m, prefer_samples=True)
        mon.ctx.feature(f"samples:{kind}")
        if S is not None:
            kw["samples"] = samples_form(rng, S)
        must |= ctor_errors(R, S, True)  # alignments has no isolated_as_missing argument: default True
    nodes = list(R.samples) if S is None else list(S)
    mdc = rng.choice([None] * 8 + ["N", "N", "-", "-", "?", "*", "A", "n", "T", "NN", "é"])
    if mdc is not None:
        kw["missing_data_character"] = mdc
    eff = "N" if mdc is None else mdc
    if not R.discrete:
        must.add("non-discrete-genome")
        if with_interval and rng.random() < 0.5:
            kw["left"] = 0
        return kw, must, may, nodes, None, None, None
    L = int(m.L)
    lo, hi = 0, L
    if with_interval:
        ikw, lo, hi, istat = pick_interval(rng, R, integer=True)
        kw.update(ikw)
        if istat == "must":
            must.add("invalid-interval")
        elif istat == "may":
            may.add("degenerate-interval")
        if not (float(lo).is_integer() and float(hi).is_integer()):
            must.add("non-integer-interval")
    valid_iv = not (must & {"invalid-interval", "non-integer-interval"}) and lo < hi and "degenerate-interval" not in may
    ref_arg = None
    r = rng.random()
    span = int(hi - lo) if valid_iv else L
    if r < 0.45:
        pass
    elif r < 0.75:
        ref_arg = "".join(rng.choice(REF_ALPHABET) for _ in range(span))
    elif r < 0.87:
        ref_arg = "".join(rng.choice(REF_ALPHABET) for _ in range(L))
    else:
        ref_arg = "".join(rng.choice(REF_ALPHABET) for _ in range(max(0, rng.choice([span - 1, span + 1, L + 1, 0]))))
    if ref_arg is not None:
        kw["reference_sequence"] = ref_arg
    if len(eff) != 1 or not eff.isascii():
        # only used when it has to be encoded: as the fill or as the missing marker of haplotypes
        must.add("bad-missing-data-character")
    if R.isolated_any:
        must.add("isolated-samples-present")
    if not valid_iv:
        return kw, must, may, nodes, None, None, None
    m2, y2, bases = expect_alignment_ref(R, None, ref_arg, lo, hi, eff if len(eff) == 1 and eff.isascii() else "N")
    must |= m2
    may |= y2
    inside = R.sites_in(lo, hi)
    outside = [j for j in range(len(R.sites)) if j not in inside]
    must |= allele_problems(R, inside, eff)
    may |= allele_problems(R, outside, eff)
    return kw, must, may, nodes, inside, lo, bases


def mon_alignments(rng, mon, ts):
    R, ctx = mon.R, mon.ctx
    kw, must, may, nodes, inside, lo, bases = alignment_expectation(rng, mon)
    call = f"alignments({kw})"
    ok, A = attempt(lambda: list(ts.alignments(**kw)))
    ctx.count("alignments:calls")
    if not mon.decide("alignments", ok, A, must, may, call):
        return
    if bases is None:
        return  # E5: degenerate interval accepted by the library; nothing is specified about the result
    cands = {name: alignment_strings(R, nodes, inside, lo, base) for name, base in bases.items()}
    ctx.count("alignments:compared")
    if not any(A == c for c in cands.values()):
        mon.bad("alignments/strings", f"{call}: got {A} expected one of {cands} (embedded reference "
                f"{R.m.refseq}, sites {[(s['pos'], s['anc']) for s in R.sites]})")


def mon_fasta(rng, mon, ts):
    R, ctx = mon.R, mon.ctx
    kw, must, may, nodes, inside, lo, bases = alignment_expectation(rng, mon, with_samples=False,
                                                                    with_interval=False)
    ww = rng.choice([None, None, 0, 1, 3, 4, 60, int(R.m.L), -1, 2.5])
    if ww is not None:
        kw["wrap_width"] = ww
    if ww is not None and (ww < 0 or int(ww) != ww):
        must.add("bad-wrap-width")
    if not nodes:
        # nothing to write for a tree sequence without samples: raising the errors of alignments() or
        # returning an empty file are both accepted
        may |= must
        must = set()
    call = f"as_fasta({kw})"
    ok, text = attempt(lambda: ts.as_fasta(**kw))
    ctx.count("as_fasta:calls")
    if not mon.decide("as_fasta", ok, text, must, may, call):
        return
    width = 60 if ww is None else int(ww)
    if bases is None:
        return
    cands = [alignment_strings(R, nodes, inside, lo, base) for base in bases.values()] if nodes else [[]]
    lines = text.split("\n")
    recs = []
    okfmt = text == "" or text.endswith("\n")
    for ln in lines[:-1]:
        if ln.startswith(">"):
            recs.append([ln[1:], []])
        elif recs:
            recs[-1][1].append(ln)
        else:
            okfmt = False
    ctx.count("as_fasta:compared")
    labels = [r[0] for r in recs]
    seqs = ["".join(r[1]) for r in recs]
    if not okfmt or labels != [f"n{u}" for u in nodes] or not any(seqs == c for c in cands):
        mon.bad("as_fasta/content", f"{call}: labels {labels} sequences {seqs}; expected labels "
                f"{[f'n{u}' for u in nodes]} sequences {cands}")
        return
    for lab, chunks in recs:
        if width > 0:
            good = all(len(c) == width for c in chunks[:-1]) and (not chunks or 0 < len(chunks[-1]) <= width)
        else:
            good = len(chunks) == 1
        if not good:
            mon.bad("as_fasta/wrapping", f"{call}: record {lab} line lengths {[len(c) for c in chunks]} "
                    f"for wrap_width {width}")
            return


def run_case(case, ctx):
    rng, m = build(case)
    R = GenoRef(m)
    mon = Mon(ctx, m, R)
    tags = gen.topo_tags(m) | model_features(m, R)
    for t in tags:
        ctx.feature(t)
    ctx.feature("gen:" + case["gen"])
    ctx.feature("discrete-genome" if R.discrete else "continuous-genome")
    ctx.sig(m.signature(), nontrivial=len(m.sites) > 0 and len(m.mutations) > 0)
    if case["k"] < 2:
        ctx.sample({"case": case, "model": m.to_json()})
    ts = to_ts(m)
    for _ in range(2):
        mon_variants(rng, mon, ts)
    for _ in range(2):
        mon_decode(rng, mon, ts)
    mon_genotype_matrix(rng, mon, ts, None)
    mon_matrix_vs_variants(rng, mon, ts)
    for _ in range(2):
        mon_haplotypes(rng, mon, ts)
    if case["gen"] == "align" or rng.random() < 0.3:
        for _ in range(3 if case["gen"] == "align" else 1):
            mon_alignments(rng, mon, ts)
        mon_fasta(rng, mon, ts)
